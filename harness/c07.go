package main

import (
	"encoding/json"
	"fmt"
	"os"
	"path/filepath"
	"regexp"
	"runtime"
	"sort"
	"strings"
	"sync"
	"time"
)

func init() { register("C07", checkC07) }

type ucase struct {
	V, T, L    int
	H          bool
	U          string
	P          []int
	Text       []string
	Expr       string
	Rows       []yrow
	Keep       []string
	All        []string
	Incomments []string
	Inrows     []yrow
}

// matchRow: the expected row may hold the wildcard "*" (what the update writes is the update's business)
func matchRow(want, got yrow) string {
	switch {
	case want.D != got.D || strings.Join(want.P, "\x00") != strings.Join(got.P, "\x00"):
		return "position"
	case want.K != got.K:
		return "kind"
	case want.St != "*" && want.St != got.St:
		return "style"
	case want.Tag != "*" && want.Tag != got.Tag:
		return "tag"
	case want.Anc != "*" && want.Anc != got.Anc:
		return "anchor"
	case want.Val != "*" && want.Val != got.Val:
		return "value"
	case want.To != got.To:
		return "alias"
	}
	return ""
}

// `key: # comment` followed by `[]` / `{}` on a line of its own
var reCommentBeforeEmpty = regexp.MustCompile(`: #[^\n]*\n\s*(\[\]|\{\})\n`)

func isSubsequence(sub, seq []string) bool {
	i := 0
	for _, s := range seq {
		if i < len(sub) && sub[i] == s {
			i++
		}
	}
	return i == len(sub)
}

func checkC07(rc *Run) error {
	rc.Level = "model_checking"
	var cases []*ucase
	var mu sync.Mutex
	var perr error
	res, err := RunTLC(rc, TLCOpts{Name: "gen", Module: "Gen_Update", Cfg: "CONSTANTS\n Lanes = 16\nINIT UInit\nNEXT UNext\nINVARIANTS UpdateLaws\nCHECK_DEADLOCK FALSE\n", Timeout: 30 * time.Minute, HeapGB: 12,
		OnVector: func(js []byte) {
			var c ucase
			if e := json.Unmarshal(js, &c); e != nil {
				mu.Lock()
				perr = e
				mu.Unlock()
				return
			}
			mu.Lock()
			cases = append(cases, &c)
			mu.Unlock()
		}})
	if err != nil {
		return err
	}
	if perr != nil {
		return machinery("unparsable Gen_Update vector: %v", perr)
	}
	if res.InvariantViolated != "" {
		return machinery("YamlUpdate.tla violates %s\n%s", res.InvariantViolated, res.ErrorText)
	}
	if len(cases) < 1000 {
		return machinery("Gen_Update produced %d cases", len(cases))
	}
	sort.Slice(cases, func(i, j int) bool {
		a, b := cases[i], cases[j]
		ka := fmt.Sprintf("%04d.%02d.%02d.%v.%s.%v", a.V, a.T, a.L, a.H, a.U, a.P)
		kb := fmt.Sprintf("%04d.%02d.%02d.%v.%s.%v", b.V, b.T, b.L, b.H, b.U, b.P)
		return ka < kb
	})
	rc.Logf("TLC: FrameLaw holds; %d (document, target, update) cases", len(cases))
	nsh := rc.Pick(5, 1)
	shard := int(((rc.Seed % int64(nsh)) + int64(nsh)) % int64(nsh))
	judged, unstable := 0, 0
	perKind := map[string]int{}
	jobs := make(chan *ucase, 256)
	var wg sync.WaitGroup
	for w := 0; w < runtime.NumCPU(); w++ {
		wg.Add(1)
		go func(w int) {
			defer wg.Done()
			dir := filepath.Join(rc.Out, fmt.Sprintf("w%d", w))
			os.MkdirAll(dir, 0o755)
			for c := range jobs {
				yc := &ycase{Text: c.Text, Rows: c.Inrows}
				text := yc.concretise()
				for i := range c.Rows {
					c.Rows[i].Val = strings.ReplaceAll(strings.ReplaceAll(c.Rows[i].Val, "@U1@", unicodeText), "@U2@", bmpText)
				}
				expr := strings.ReplaceAll(strings.ReplaceAll(c.Expr, "@U1@", unicodeText), "@U2@", bmpText)
				label := fmt.Sprintf("%s:t%d", c.U, c.T)
				concrete := M{"machine": "YamlUpdate", "concrete": M{"argv": []string{"yq", expr}, "stdin": text}}
				in, err := extractTable(text)
				if err != nil {
					mu.Lock()
					unstable++
					mu.Unlock()
					continue
				}
				if f, _ := compareRows(yc.Rows, in.Rows); f != "" || strings.Join(sortedCopy(in.Comments), "\x00") != strings.Join(sortedCopy(c.Incomments), "\x00") {
					mu.Lock()
					unstable++
					mu.Unlock()
					continue
				}
				args := []string{expr}
				for _, r := range c.Rows {
					if len(r.P) == 0 && r.K == "scalar" {
						args = []string{"--unwrapScalar=false", expr}
					}
				}
				p := runProc(dir, []byte(text), args...)
				mu.Lock()
				judged++
				perKind[c.U]++
				mu.Unlock()
				if p.Hang || p.Code != 0 {
					rc.Report("update-fails:"+label, fmt.Sprintf("yq '%s' on %q fails: %s", expr, text, firstLine(p.Stderr)), concrete)
					continue
				}
				out, err := extractTable(p.Stdout)
				if err != nil && reCommentBeforeEmpty.MatchString(p.Stdout) {
					rc.Report("output-unreadable:line-comment-before-emptied-collection", fmt.Sprintf("yq '%s' on %q prints %q: the line comment is written between the key and its now empty collection, which is no YAML: %v", expr, text, p.Stdout, err), concrete)
					continue
				}
				if err != nil {
					rc.Report("output-unreadable:"+label, fmt.Sprintf("yq '%s' on %q prints %q which a YAML reader rejects: %v", expr, text, p.Stdout, err), concrete)
					continue
				}
				bad := ""
				for i := range c.Rows {
					if i >= len(out.Rows) {
						bad = "node-lost:" + c.Rows[i].K
						break
					}
					if f := matchRow(c.Rows[i], out.Rows[i]); f != "" {
						w := c.Rows[i]
						if w.K == "scalar" && f == "style" && out.Rows[i].St == "double" && hasNonBMP(w.Val) {
							continue // C05's known finding (the yaml library re-quotes text beyond the BMP), not an effect of the update
						}
						if w.K == "scalar" && f == "tag" && w.Val == "<<" && w.Tag == "" && out.Rows[i].Tag == "!!merge" {
							continue // C05's known finding (`yq .` writes the merge key as `!!merge <<` too), not an effect of the update
						}
						bad = f + ":" + w.K + "-" + w.St
						break
					}
				}
				if bad == "" && len(out.Rows) > len(c.Rows) {
					bad = "node-added:" + out.Rows[len(c.Rows)].K
				}
				if bad != "" {
					rc.Report("untouched-"+bad+":"+label, fmt.Sprintf("yq '%s' on %q prints %q: outside the target, %s differs", expr, text, p.Stdout, bad), concrete)
					continue
				}
				if !isSubsequence(c.Keep, out.Comments) && reDecoratedEmpty.MatchString(text) {
					rc.Report("comment-lost:line-comment-of-anchored-or-tagged-empty-value", fmt.Sprintf("yq '%s' on %q prints %q: the line comment behind an anchor / tag that decorates an empty value is lost (as with yq .)", expr, text, p.Stdout), concrete)
					continue
				}
				if !isSubsequence(c.Keep, out.Comments) {
					rc.Report("comment-lost:"+label, fmt.Sprintf("yq '%s' on %q prints %q: comments to keep %q, comments found %q", expr, text, p.Stdout, c.Keep, out.Comments), concrete)
					continue
				}
				all := map[string]int{}
				for _, x := range c.All {
					all[x]++
				}
				for _, x := range out.Comments {
					all[x]--
					if all[x] < 0 {
						rc.Report("comment-invented:"+label, fmt.Sprintf("yq '%s' on %q prints %q: comment %q is not one of the input's %q", expr, text, p.Stdout, x, c.All), concrete)
						break
					}
				}
			}
		}(w)
	}
	for i, c := range cases {
		if inShard(i, nsh, shard) {
			jobs <- c
		}
	}
	close(jobs)
	wg.Wait()
	rc.Logf("judged %d cases (%v), %d not judged", judged, perKind, unstable)
	if judged < 10*unstable {
		return machinery("too many generated documents are not read back as generated (%d of %d)", unstable, judged+unstable)
	}
	mid := cases[len(cases)/2]
	rc.Sample(M{"text": strings.Join(mid.Text, "\n"), "expr": mid.Expr, "keep": mid.Keep})
	rc.Set("states", res.Distinct)
	rc.Set("transitions", res.Generated)
	rc.Set("traces_validated_against_impl", judged)
	rc.Set("cases_enumerated_by_TLC", len(cases))
	rc.Set("cases_per_update_kind", perKind)
	rc.Set("cases_not_judged_generator_text_read_differently", unstable)
	rc.Set("laws_checked_on_model", []string{"FrameLaw", "UniqueKeysIn(Apply)"})
	rc.Set("exhaustive", nsh == 1)
	rc.Assume("the attribute table of the output is extracted with gopkg.in/yaml.v3 used directly; what the update itself writes (the target subtree, created entries) is a wildcard in style, tag and anchor")
	rc.Assume("comments attached to the target subtree may or may not survive; every other comment must be found in order, and no comment may appear that the input did not hold")
	return nil
}
