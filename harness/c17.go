package main

import (
	"bytes"
	"encoding/json"
	"fmt"
	"math/rand"
	"os"
	"os/exec"
	"path/filepath"
	"strings"
	"sync"
	"time"
	"unicode/utf8"

	"github.com/mikefarah/yq/v4/pkg/yqlib"
)

func init() { register("C17", checkC17) }

func codepoints(s string) []int {
	out := []int{}
	for _, r := range s {
		out = append(out, int(r))
	}
	return out
}

func realSh(s string) (out string, err error) {
	defer func() {
		if r := recover(); r != nil {
			err = fmt.Errorf("panic: %v", r)
		}
	}()
	node := &yqlib.CandidateNode{Kind: yqlib.ScalarNode, Tag: "!!str", Value: s}
	res, e := yqlib.NewAllAtOnceEvaluator().EvaluateNodes("@sh", node)
	if e != nil {
		return "", e
	}
	if res.Len() != 1 {
		return "", fmt.Errorf("%d results", res.Len())
	}
	return res.Front().Value.(*yqlib.CandidateNode).Value, nil
}

func realShellVars(doc *yqlib.CandidateNode) (out string, err error) {
	defer func() {
		if r := recover(); r != nil {
			err = fmt.Errorf("panic: %v", r)
		}
	}()
	var buf bytes.Buffer
	e := yqlib.NewShellVariablesEncoder().Encode(&buf, doc)
	return buf.String(), e
}

// shExpand asks /bin/sh what a list of words expands to. Returns one expansion per word, or an error for the batch.
func shExpand(dir string, words []string) ([]string, bool, error) {
	var sb strings.Builder
	sb.WriteString("cd " + dir + " || exit 97\n")
	for _, w := range words {
		sb.WriteString("printf '%s\\0' " + w + "\n")
	}
	script := filepath.Join(dir, "words.sh")
	os.WriteFile(script, []byte(sb.String()), 0o644)
	cmd := exec.Command("/bin/sh", script)
	cmd.Env = []string{"PATH=/nonexistent", "HOME=/nonexistent"}
	var out bytes.Buffer
	cmd.Stdout = &out
	err := cmd.Run()
	_, statErr := os.Stat(filepath.Join(dir, "CANARY"))
	canary := statErr == nil
	parts := strings.Split(out.String(), "\x00")
	if len(parts) > 0 {
		parts = parts[:len(parts)-1]
	}
	return parts, canary, err
}

func checkC17(rc *Run) error {
	rc.Level = "model_checking"
	yqlib.InitExpressionParser()
	maxLen := rc.Pick(4, 5)
	mc, err := RunTLC(rc, TLCOpts{Name: "mc", Module: "MC_ShQuote", Cfg: fmt.Sprintf("CONSTANTS\n MaxLen = %d\nINIT Init\nNEXT Next\nINVARIANTS WordLaw AssignLaw NameLaw\nCHECK_DEADLOCK FALSE\n", maxLen), Timeout: 30 * time.Minute, HeapGB: 12})
	if err != nil {
		return err
	}
	if mc.InvariantViolated != "" {
		return machinery("ShQuote.tla violates %s on the model", mc.InvariantViolated)
	}
	rc.Logf("TLC: WordLaw/AssignLaw/NameLaw hold for all class strings up to length %d", maxLen)

	// ---- the string pool: every ASCII string up to length 2, plus seeded structured strings
	rng := rand.New(rand.NewSource(rc.Seed))
	var pool []string
	pool = append(pool, "")
	for a := 1; a < 128; a++ {
		pool = append(pool, string(rune(a)))
		for b := 1; b < 128; b++ {
			pool = append(pool, string(rune(a))+string(rune(b)))
		}
	}
	classes := []string{"abcXYZ019_", "@%+=:,./-", "'", " \t\n", "$`\\\"", "*?[]{}()<>|&;!#~", "é世😀  ", "\x01\x1b\x7f",
		"٣१৩２Ⅷßж\u0301"} // characters Unicode calls digits / letters / marks that are not ASCII: never part of a shell name
	nrand := rc.Pick(4000, 40000)
	for i := 0; i < nrand; i++ {
		n := 3 + rng.Intn(10)
		var sb strings.Builder
		for j := 0; j < n; j++ {
			cl := classes[rng.Intn(len(classes))]
			rs := []rune(cl)
			sb.WriteRune(rs[rng.Intn(len(rs))])
		}
		pool = append(pool, sb.String())
	}
	pool = append(pool, "$(touch CANARY)", "`touch CANARY`", "; touch CANARY", "x;touch CANARY", "a&touch CANARY", "a|touch CANARY", "a\ntouch CANARY", "-n", "--", "a<CANARY", "a>CANARY", "~", "#x", "a b", "=", "''", "'", "\\", "\\'",
		"port٣", "١", "a١b", "१st", "２", "x৩_", "ж", "aß")

	type pair = M
	var pairs []pair
	var words []string
	var inputs []string
	for _, s := range pool {
		if !utf8.ValidString(s) {
			continue
		}
		out, err := realSh(s)
		if err != nil {
			rc.Report("sh-encode-error", fmt.Sprintf("@sh on %q: %v", s, err), M{"machine": "ShQuote", "concrete": M{"expr": "@sh", "input": s}})
			continue
		}
		pairs = append(pairs, pair{"kind": "sh", "s": codepoints(s), "out": codepoints(out)})
		inputs = append(inputs, s)
		words = append(words, out)
	}
	nSh := len(pairs)

	// ---- -o=shell: one assignment per document; keys and values from the pool, special scalars from YAML text
	type varCase struct {
		key, value string
		root       bool
	}
	var varCases []varCase
	var varLines []string
	addDoc := func(doc *yqlib.CandidateNode, key, value string, root bool, nested string) {
		out, err := realShellVars(doc)
		if err != nil {
			rc.Report("shell-encode-error", fmt.Sprintf("-o=shell on key %q value %q: %v", key, value, err), M{"machine": "ShQuote", "concrete": M{"key": key, "value": value}})
			return
		}
		line := strings.TrimSuffix(out, "\n")
		name := line
		if i := strings.Index(line, "="); i >= 0 {
			name = line[:i]
		}
		nm := strings.TrimPrefix(name, nested)
		ascii := true
		for _, r := range key {
			if r > 126 {
				ascii = false
			}
		}
		pairs = append(pairs, pair{"kind": "var", "key": codepoints(key), "root": root, "ascii": ascii, "full": codepoints(name), "name": codepoints(nm), "value": codepoints(value), "line": codepoints(line)})
		varCases = append(varCases, varCase{key, value, root})
		varLines = append(varLines, line)
	}
	str := func(v string) *yqlib.CandidateNode {
		return &yqlib.CandidateNode{Kind: yqlib.ScalarNode, Tag: "!!str", Value: v}
	}
	mapOf := func(k string, v *yqlib.CandidateNode) *yqlib.CandidateNode {
		return &yqlib.CandidateNode{Kind: yqlib.MappingNode, Tag: "!!map", Content: []*yqlib.CandidateNode{str(k), v}}
	}
	nvar := rc.Pick(3000, 20000)
	for i := 0; i < nvar; i++ {
		key := pool[rng.Intn(len(pool))]
		val := pool[rng.Intn(len(pool))]
		if strings.ContainsRune(val, 0) || strings.ContainsRune(key, 0) {
			continue
		}
		switch i % 3 {
		case 0:
			addDoc(mapOf(key, str(val)), key, val, true, "")
		case 1:
			addDoc(mapOf("a", mapOf(key, str(val))), key, val, false, "a_")
		case 2:
			// top-level and nested sequences: names come from indices
			seq := &yqlib.CandidateNode{Kind: yqlib.SequenceNode, Tag: "!!seq", Content: []*yqlib.CandidateNode{str(val)}}
			if i%2 == 0 {
				addDoc(seq, "0", val, true, "")
			} else {
				addDoc(mapOf("a", seq), "0", val, false, "a_")
			}
		}
	}
	// scalars that are not strings: the shell must still see exactly their text
	for _, y := range []struct{ yaml, value string }{{"k: ~", "~"}, {"k: 1", "1"}, {"k: true", "true"}, {"k: !!int \"1; touch CANARY\"", "1; touch CANARY"}, {"k: !custom hello world", "hello world"},
		{"k: !!float 1.5", "1.5"}, {"k: null", "null"}, {"k: !!bool \"yes no\"", "yes no"}, {"k: 0x1F", "0x1F"}, {"k: !!null \"$(touch CANARY)\"", "$(touch CANARY)"}} {
		doc, err := decodeYAML(y.yaml + "\n")
		if err != nil {
			continue
		}
		addDoc(doc, "k", y.value, true, "")
	}

	// ---- TLC judges every recorded pair with the reader automaton
	var nd strings.Builder
	for _, p := range pairs {
		b, _ := json.Marshal(p)
		nd.Write(b)
		nd.WriteString("\n")
	}
	bad := map[int]string{}
	var mu sync.Mutex
	tv, err := RunTLC(rc, TLCOpts{Name: "trace", Module: "Trace_ShQuote", Extra: map[string]string{"shquote_pairs.ndjson": nd.String()},
		Cfg: "CONSTANTS\n Chunk = 500\nINIT Init\nNEXT Next\nINVARIANTS Judge\nCHECK_DEADLOCK FALSE\n", Timeout: 20 * time.Minute, HeapGB: 12,
		OnLine: func(line string) {
			var i int
			var why string
			if n, _ := fmt.Sscanf(line, "<<\"BAD\", %d, %q>>", &i, &why); n == 2 {
				mu.Lock()
				bad[i] = why
				mu.Unlock()
			}
		}})
	if err != nil {
		return err
	}
	if tv.InvariantViolated != "" {
		return machinery("Trace_ShQuote: %s %s", tv.InvariantViolated, tv.ErrorText)
	}
	shapeOf := func(s string) string {
		switch {
		case s == "":
			return "empty-string"
		case strings.ContainsAny(s, ";<>&|"):
			return "operator-char"
		case strings.ContainsAny(s, "$`"):
			return "expansion-char"
		case strings.ContainsAny(s, " \t\n"):
			return "whitespace"
		case strings.ContainsAny(s, "'\"\\"):
			return "quote-char"
		}
		return "other"
	}
	for i, why := range bad {
		p := pairs[i-1]
		if p["kind"] == "sh" {
			s := inputs[i-1]
			rc.Report("sh-"+why+":"+shapeOf(s), fmt.Sprintf("@sh on %q gives %q which the POSIX word reader does not map back to the input", s, words[i-1]),
				M{"machine": "ShQuote", "concrete": M{"expr": "@sh", "input": s}, "observed": words[i-1]})
		} else {
			vc := varCases[i-1-nSh]
			rc.Report("shell-"+why+":"+shapeOf(vc.value), fmt.Sprintf("-o=shell for key %q value %q prints %q", vc.key, vc.value, varLines[i-1-nSh]),
				M{"machine": "ShQuote", "concrete": M{"key": vc.key, "value": vc.value, "root": vc.root}, "observed": varLines[i-1-nSh]})
		}
	}

	// ---- /bin/sh confirms (the reader automaton is itself bound to a real shell)
	dir := filepath.Join(rc.Out, "sh")
	os.MkdirAll(dir, 0o755)
	shChecked := 0
	const batch = 400
	for start := 0; start < len(words); start += batch {
		end := start + batch
		if end > len(words) {
			end = len(words)
		}
		var ws, ins []string
		for i := start; i < end; i++ {
			if _, isBad := bad[i+1]; isBad || strings.ContainsRune(inputs[i], 0) {
				continue // already reported; an unsafe word would break the whole batch
			}
			ws = append(ws, words[i])
			ins = append(ins, inputs[i])
		}
		os.Remove(filepath.Join(dir, "CANARY"))
		got, canary, err := shExpand(dir, ws)
		shChecked += len(ws)
		if canary {
			rc.Report("sh-executed-something", "sourcing @sh words executed a command (canary file appeared)", M{"machine": "ShQuote", "concrete": M{"words": ws}})
			continue
		}
		if err != nil || len(got) != len(ins) {
			rc.Report("sh-batch-disagrees-with-reader", fmt.Sprintf("/bin/sh expanded %d of %d words (%v) although the reader automaton accepted all of them", len(got), len(ins), err), M{"machine": "ShQuote", "concrete": M{"first_word": ws[0]}})
			continue
		}
		for i := range ins {
			if got[i] != ins[i] {
				rc.Report("sh-expands-differently:"+shapeOf(ins[i]), fmt.Sprintf("/bin/sh expands %q to %q, input was %q", ws[i], got[i], ins[i]), M{"machine": "ShQuote", "concrete": M{"expr": "@sh", "input": ins[i]}, "observed": got[i]})
			}
		}
	}
	// -o=shell lines sourced in /bin/sh
	varChecked := 0
	for start := 0; start < len(varLines); start += batch {
		end := start + batch
		if end > len(varLines) {
			end = len(varLines)
		}
		var sb strings.Builder
		sb.WriteString("cd " + dir + " || exit 97\n")
		var expect []string
		for i := start; i < end; i++ {
			if _, isBad := bad[nSh+i+1]; isBad {
				continue
			}
			line := varLines[i]
			name := line
			if j := strings.Index(line, "="); j >= 0 {
				name = line[:j]
			}
			sb.WriteString(line + "\n")
			sb.WriteString("printf '%s\\0' \"$" + name + "\"\nunset " + name + "\n")
			expect = append(expect, varCases[i].value)
		}
		os.Remove(filepath.Join(dir, "CANARY"))
		script := filepath.Join(dir, "vars.sh")
		os.WriteFile(script, []byte(sb.String()), 0o644)
		cmd := exec.Command("/bin/sh", script)
		cmd.Env = []string{"PATH=/nonexistent", "HOME=/nonexistent"}
		var out bytes.Buffer
		cmd.Stdout = &out
		err := cmd.Run()
		parts := strings.Split(out.String(), "\x00")
		if len(parts) > 0 {
			parts = parts[:len(parts)-1]
		}
		varChecked += len(expect)
		if _, e := os.Stat(filepath.Join(dir, "CANARY")); e == nil {
			rc.Report("shell-executed-something", "sourcing -o=shell output executed a command", M{"machine": "ShQuote"})
			continue
		}
		if err != nil || len(parts) != len(expect) {
			rc.Report("shell-batch-disagrees-with-reader", fmt.Sprintf("/bin/sh defined %d of %d variables (%v)", len(parts), len(expect), err), M{"machine": "ShQuote"})
			continue
		}
		for i := range expect {
			if parts[i] != expect[i] {
				rc.Report("shell-variable-differs:"+shapeOf(expect[i]), fmt.Sprintf("variable holds %q, value was %q", parts[i], expect[i]), M{"machine": "ShQuote", "concrete": M{"value": expect[i]}})
			}
		}
	}
	rc.Sample(M{"input": "it's $HOME", "at_sh": func() string { o, _ := realSh("it's $HOME"); return o }()})
	rc.Set("states", mc.Distinct+tv.Distinct)
	rc.Set("transitions", mc.Generated+tv.Generated)
	rc.Set("traces_validated_against_impl", len(pairs))
	rc.Set("at_sh_pairs", nSh)
	rc.Set("shell_variable_pairs", len(pairs)-nSh)
	rc.Set("words_confirmed_by_bin_sh", shChecked)
	rc.Set("assignments_confirmed_by_bin_sh", varChecked)
	rc.Set("model_strings_up_to_length", maxLen)
	rc.Set("rejected_by_reader", len(bad))
	rc.Assume("the reader automaton accepts only certainly inert unquoted characters; /bin/sh (dash) is the POSIX shell used for confirmation")
	return nil
}
