package main

import (
	"bufio"
	"bytes"
	"encoding/json"
	"fmt"
	"io"
	"os"
	"os/exec"
	"path/filepath"
	"runtime"
	"strings"
	"sync"
)

// ---- supervision: a check runs in a child process. When the child dies of a Go fatal error (stack overflow on a cyclic
// tree, out of memory: not recoverable in-process), the check is run again with every in-process evaluation isolated in
// worker processes, so that the evaluation that kills the process is identified and reported instead of exit status 2.

func superviseCheck(args []string) int {
	run := func(extra ...string) (int, bool) {
		cmd := exec.Command(os.Args[0], args...)
		cmd.Env = append(append(os.Environ(), "VERIF_CHILD=1"), extra...)
		cmd.Stdout = os.Stdout
		cmd.Stdin = os.Stdin
		var tail ringBuffer
		cmd.Stderr = io.MultiWriter(os.Stderr, &tail)
		err := cmd.Run()
		code := 0
		if err != nil {
			code = 2
			if ee, ok := err.(*exec.ExitError); ok {
				code = ee.ExitCode()
				if code < 0 {
					return 2, true // killed by a signal
				}
			}
		}
		fatal := code == 2 && tail.fatal
		return code, fatal
	}
	code, fatal := run()
	if !fatal {
		return code
	}
	fmt.Println("the harness process died of a fatal runtime error; running the check again with the evaluations isolated in worker processes")
	code, fatal = run("VERIF_ISOLATE=1")
	if fatal {
		fmt.Println("MACHINERY-ERROR: the harness process died again in isolated mode")
		return 2
	}
	return code
}

type ringBuffer struct {
	mu    sync.Mutex
	buf   []byte
	fatal bool // "fatal error:" was seen (the stack dump that follows can be longer than the buffer)
}

func (r *ringBuffer) Write(p []byte) (int, error) {
	r.mu.Lock()
	if bytes.Contains(append(append([]byte{}, r.buf[max0(len(r.buf)-32):]...), p...), []byte("fatal error:")) || bytes.Contains(p, []byte("goroutine stack exceeds")) {
		r.fatal = true
	}
	r.buf = append(r.buf, p...)
	if len(r.buf) > 1<<16 {
		r.buf = r.buf[len(r.buf)-1<<16:]
	}
	r.mu.Unlock()
	return len(p), nil
}
func (r *ringBuffer) String() string { r.mu.Lock(); defer r.mu.Unlock(); return string(r.buf) }

// ---- isolated replay of evaluator vectors

type isoVector struct {
	Di, Ei int
	Tog    bool
	St     string
	Res    []interface{}
	Same   bool
	After  interface{}
}
type isoJob struct {
	Exprs   map[string]M
	Docs    map[string]interface{}
	Vectors []isoVector
}
type isoMismatch struct {
	I                          int
	Kind, Text, Doc, Want, Got string
}

func replayIsolated(rc *Run, g *genEvalResult, prop string) replayStats {
	var st replayStats
	var mu sync.Mutex
	opset := map[string]bool{}
	nchunks := runtime.NumCPU()
	chunk := (len(g.Vectors) + nchunks - 1) / nchunks
	var wg sync.WaitGroup
	for c := 0; c < nchunks; c++ {
		lo, hi := c*chunk, (c+1)*chunk
		if hi > len(g.Vectors) {
			hi = len(g.Vectors)
		}
		if lo >= hi {
			continue
		}
		wg.Add(1)
		go func(c, lo, hi int) {
			defer wg.Done()
			start := lo
			for start < hi {
				vs := g.Vectors[start:hi]
				job := isoJob{Exprs: map[string]M{}, Docs: map[string]interface{}{}}
				for _, v := range vs {
					if g.Exprs[v.Ei] == nil || g.Docs[v.Di] == nil {
						continue
					}
					job.Exprs[fmt.Sprint(v.Ei)] = g.Exprs[v.Ei]
					job.Docs[fmt.Sprint(v.Di)] = g.Docs[v.Di].toSpec()
					iv := isoVector{Di: v.Di, Ei: v.Ei, Tog: v.Tog, St: v.St, Same: v.Same}
					for _, r := range v.Res {
						iv.Res = append(iv.Res, r.toSpec())
					}
					if v.After != nil {
						iv.After = v.After.toSpec()
					}
					job.Vectors = append(job.Vectors, iv)
				}
				base := filepath.Join(rc.Out, fmt.Sprintf("iso-%d", c))
				b, _ := json.Marshal(job)
				os.WriteFile(base+".job", b, 0o644)
				os.Remove(base + ".out")
				os.Remove(base + ".progress")
				cmd := exec.Command(os.Args[0], "worker", "replay", base+".job", base+".out", base+".progress")
				cmd.Env = append(os.Environ(), "VERIF_CHILD=1")
				var errb bytes.Buffer
				cmd.Stderr = &errb
				werr := cmd.Run()
				done := false
				if f, err := os.Open(base + ".out"); err == nil {
					sc := bufio.NewScanner(f)
					sc.Buffer(make([]byte, 1<<20), 1<<26)
					for sc.Scan() {
						line := sc.Text()
						if line == "DONE" {
							done = true
							continue
						}
						var m isoMismatch
						if json.Unmarshal([]byte(line), &m) == nil && m.Kind != "" {
							v := job.Vectors[m.I]
							e := g.Exprs[v.Ei]
							mode := ""
							if v.Tog {
								mode = "together-"
							}
							rc.Report(fmt.Sprintf("eval-%s%s:%s", mode, m.Kind, skeleton(e, 2)), fmt.Sprintf("expr=%s doc=%s spec=%s real=%s", m.Text, m.Doc, m.Want, m.Got),
								M{"machine": "Eval", "concrete": M{"expr": m.Text, "input_json": m.Doc, "together": v.Tog}, "expected": m.Want, "observed": m.Got, "kind": m.Kind})
						}
					}
					f.Close()
				}
				processed := len(job.Vectors)
				if !done || werr != nil {
					// the worker died: the vector it had started is the one that kills the process
					k := 0
					if pb, err := os.ReadFile(base + ".progress"); err == nil {
						fmt.Sscan(strings.TrimSpace(string(pb)), &k)
					}
					if k < len(job.Vectors) {
						v := job.Vectors[k]
						e := g.Exprs[v.Ei]
						d := g.Docs[v.Di]
						rc.Report("evaluation-kills-the-process:"+skeleton(e, 2), fmt.Sprintf("evaluating %s on %s ends the process: %s", exprText(e), d.JSON(), firstLine(strings.TrimSpace(errb.String()))),
							M{"machine": "Eval", "concrete": M{"expr": exprText(e), "input_json": d.JSON(), "together": v.Tog}})
					}
					processed = k + 1
				}
				mu.Lock()
				st.compared += processed
				for _, v := range vs[:min(processed, len(vs))] {
					opsIn(g.Exprs[v.Ei], opset)
				}
				mu.Unlock()
				// vs may hold vectors without tables (skipped in the job): advance by the job's progress on the same slice
				start += advance(vs, g, processed)
			}
		}(c, lo, hi)
	}
	wg.Wait()
	for o := range opset {
		st.ops = append(st.ops, o)
	}
	return st
}

// advance: how many entries of vs correspond to the first n job vectors (entries without tables were left out of the job)
func advance(vs []evalVector, g *genEvalResult, n int) int {
	cnt := 0
	for i, v := range vs {
		if g.Exprs[v.Ei] == nil || g.Docs[v.Di] == nil {
			continue
		}
		cnt++
		if cnt == n {
			return i + 1
		}
	}
	return len(vs)
}

func max0(a int) int {
	if a < 0 {
		return 0
	}
	return a
}

func min(a, b int) int {
	if a < b {
		return a
	}
	return b
}

// replayWorker: `verif worker replay <job> <out> <progress>`
func replayWorker(args []string) int {
	if len(args) < 3 {
		return 2
	}
	b, err := os.ReadFile(args[0])
	if err != nil {
		return 2
	}
	var job isoJob
	if json.Unmarshal(b, &job) != nil {
		return 2
	}
	out, err := os.Create(args[1])
	if err != nil {
		return 2
	}
	defer out.Close()
	prog, err := os.Create(args[2])
	if err != nil {
		return 2
	}
	defer prog.Close()
	for i, iv := range job.Vectors {
		prog.WriteAt([]byte(fmt.Sprintf("%-12d", i)), 0)
		e := job.Exprs[fmt.Sprint(iv.Ei)]
		d := fromSpec(job.Docs[fmt.Sprint(iv.Di)])
		v := evalVector{Di: iv.Di, Ei: iv.Ei, Tog: iv.Tog, St: iv.St, Same: iv.Same}
		for _, r := range iv.Res {
			v.Res = append(v.Res, fromSpec(r))
		}
		if iv.After != nil {
			v.After = fromSpec(iv.After)
		}
		if v.St == "unspec" {
			evalWithTimeout(exprText(e), d.JSON(), v.Tog)
			continue
		}
		kind, text, doc, want, got, _ := compareEval(v, e, d, v.Tog)
		if kind == "" || kind == "machinery" {
			continue
		}
		line, _ := json.Marshal(isoMismatch{I: i, Kind: kind, Text: text, Doc: doc, Want: want, Got: got})
		out.Write(append(line, '\n'))
	}
	out.WriteString("DONE\n")
	return 0
}
