package main

import (
	"encoding/json"
	"fmt"
	"math/rand"
	"runtime"
	"sort"
	"strings"
	"sync"
	"time"

	"github.com/mikefarah/yq/v4/pkg/yqlib"
)

func init() { register("C15", checkC15) }

// concretisation maps: abstract scalar (index into Gen_Order!D) -> YAML literal. Each map is order preserving on the
// numbers and on the strings; "" means the map has no image for the value (vectors holding it are skipped for that map).
//
//	D == << null, false, true, -1, 1, 1.0, 2, 1.5, 10, "", "a", "ab", "b" >>
var orderMaps = map[string][]string{
	"canonical": {"null", "false", "true", "-1", "1", "1.0", "2", "1.5", "10", `""`, `"a"`, `"ab"`, `"b"`},
	"extremes":  {"~", "False", "TRUE", "-9223372036854775808", "-9223372036854775807", "", "9223372036854775806", "", "9223372036854775807", `""`, `"a"`, `"ab"`, `"b"`},
	"beyond53":  {"null", "false", "true", "-9007199254740993", "9007199254740992", "", "9007199254740993", "", "9007199254740994", `""`, `"a"`, `"ab"`, `"b"`},
	"radix":     {"null", "false", "true", "-1", "0x1", "1.0", "0o2", "1.5", "0xA", `""`, `"a"`, `"ab"`, `"b"`},
	"floats":    {"null", "false", "true", "-1.0", "1e0", "1", "2.0", "1.5", "1e1", `""`, `"a"`, `"ab"`, `"b"`},
	"boolcase":  {"Null", "false", "True", "-1", "1", "1.0", "2", "1.5", "10", `""`, `"A"`, `"Ab"`, `"a"`}, // spelling order of the booleans contradicts their order
	"unicode":   {"null", "false", "true", "-1", "1", "1.0", "2", "1.5", "10", `""`, `"é"`, `"é世"`, `"世"`},
	// spellings of numbers that are not decimal digits: the infinities, and integers beyond 64 bits (2^64 is exact as a float)
	"infinite": {"null", "false", "true", "-.inf", "1", "1.0", "2", "1.5", ".inf", `""`, `"a"`, `"ab"`, `"b"`},
	"huge":     {"null", "false", "true", "-18446744073709551616", "1", "1.0", "2", "1.5", "18446744073709551616", `""`, `"a"`, `"ab"`, `"b"`},
}

// maps on which a comparison operator may answer with an error (the operator is then not defined there); a wrong answer is still a violation
var compareMayFail = map[string]bool{"infinite": true, "huge": true}
var orderMapNames = []string{"canonical", "extremes", "boolcase", "beyond53", "radix", "floats", "unicode", "infinite", "huge"}

func yamlSeq(items []string) string { return "[" + strings.Join(items, ", ") + "]\n" }

func evalYAML(expr, yamlText string) (values []string, st string, errText string) {
	defer func() {
		if r := recover(); r != nil {
			st, errText = "panic", fmt.Sprint(r)
		}
	}()
	root, err := decodeYAML(yamlText)
	if err != nil {
		return nil, "decode-err", err.Error()
	}
	res, err := yqlib.NewAllAtOnceEvaluator().EvaluateNodes(expr, root)
	if err != nil {
		return nil, "err", err.Error()
	}
	for el := res.Front(); el != nil; el = el.Next() {
		n := el.Value.(*yqlib.CandidateNode)
		if n.Kind == yqlib.SequenceNode {
			for _, c := range n.Content {
				values = append(values, spelled(c))
			}
		} else {
			values = append(values, spelled(n))
		}
	}
	return values, "ok", ""
}

func spelled(n *yqlib.CandidateNode) string {
	if n.Kind == yqlib.ScalarNode {
		if n.Tag == "!!str" {
			return fmt.Sprintf("%q", n.Value)
		}
		return n.Value
	}
	if n.Kind == yqlib.MappingNode {
		for i := 0; i+1 < len(n.Content); i += 2 {
			if n.Content[i].Value == "i" {
				return "#" + n.Content[i+1].Value
			}
		}
	}
	return "?"
}

func normLit(s string) string {
	// literals as they come back from yq (Value of the node)
	return s
}

func checkC15(rc *Run) error {
	rc.Level = "model_checking"
	yqlib.InitExpressionParser()
	maxLen := rc.Pick(3, 4)
	type seqRow struct {
		S, Perm    []int
		MM         bool
		Min, Max   int
		NN         bool // nulls among numbers or among strings
		MinN, MaxN int
	}
	type cmpRow struct {
		A, B           int
		Lt, Le, Gt, Ge string
	}
	var seqs, longs []seqRow
	var cmps []cmpRow
	type keyRow struct{ D, Sorted *AV }
	var keys []keyRow
	var mu sync.Mutex
	ints := func(x interface{}) []int {
		out := []int{}
		if x == nil {
			return out
		}
		for _, v := range x.([]interface{}) {
			out = append(out, int(num(v)))
		}
		return out
	}
	res, err := RunTLC(rc, TLCOpts{Name: "gen", Module: "Gen_Order", Cfg: fmt.Sprintf("CONSTANTS\n MaxLen = %d\nINIT Init\nNEXT Next\nINVARIANTS TotalPreorder SortLaws OperatorsAgree\nCHECK_DEADLOCK FALSE\n", maxLen),
		Timeout: 30 * time.Minute, HeapGB: 12,
		OnVector: func(js []byte) {
			var m M
			if json.Unmarshal(js, &m) != nil {
				return
			}
			mu.Lock()
			defer mu.Unlock()
			switch m["t"] {
			case "seq":
				seqs = append(seqs, seqRow{S: ints(m["s"]), Perm: ints(m["perm"]), MM: m["mm"].(bool), Min: int(num(m["min"])), Max: int(num(m["max"])), NN: m["nn"].(bool), MinN: int(num(m["minn"])), MaxN: int(num(m["maxn"]))})
			case "long":
				longs = append(longs, seqRow{S: ints(m["s"]), Perm: ints(m["perm"])})
			case "cmp":
				cmps = append(cmps, cmpRow{int(num(m["a"])), int(num(m["b"])), m["lt"].(string), m["le"].(string), m["gt"].(string), m["ge"].(string)})
			case "keys":
				keys = append(keys, keyRow{fromSpec(m["d"]), fromSpec(m["sorted"])})
			}
		}})
	if err != nil {
		return err
	}
	if res.InvariantViolated != "" {
		return machinery("Order.tla violates its own law %s\n%s", res.InvariantViolated, res.ErrorText)
	}
	if len(seqs) == 0 || len(cmps) == 0 {
		return machinery("Gen_Order produced no vectors")
	}
	rc.Logf("TLC: TotalPreorder/SortLaws/OperatorsAgree hold; %d sequences, %d long sequences, %d comparison rows", len(seqs), len(longs), len(cmps))

	compared := 0
	report := func(kind, mapName, what string, concrete M) {
		rc.Report(fmt.Sprintf("order-%s:%s", kind, mapName), what, M{"machine": "Order", "concrete": concrete})
	}
	checkSeq := func(r seqRow, mapName string, long bool) {
		lits := orderMaps[mapName]
		var items, mapItems []string
		for j, di := range r.S {
			l := lits[di-1]
			if l == "" {
				return
			}
			items = append(items, l)
			mapItems = append(mapItems, fmt.Sprintf("{k: %s, i: %d}", l, j+1))
		}
		if len(items) == 0 {
			return
		}
		// sort
		var wantVals, wantIdx []string
		for _, p := range r.Perm {
			root, _ := decodeYAML(yamlSeq([]string{items[p-1]}))
			wantVals = append(wantVals, spelled(root.Content[0]))
			wantIdx = append(wantIdx, fmt.Sprintf("#%d", p))
		}
		doc := yamlSeq(items)
		got, st, et := evalYAML("sort", doc)
		mu.Lock()
		compared++
		n := compared
		mu.Unlock()
		if n%5000 == 1 {
			rc.Sample(M{"expr": "sort / sort_by(.k) / min / max", "doc": strings.TrimSpace(doc), "map": mapName, "expected": wantVals})
		}
		if st != "ok" || strings.Join(got, " ") != strings.Join(wantVals, " ") {
			kind := "sort"
			if st == "panic" {
				kind = "sort-panic"
			}
			report(kind, mapName, fmt.Sprintf("sort of %s: specification %v, yq %s %v %s", strings.TrimSpace(doc), wantVals, st, got, et), M{"expr": "sort", "input_yaml": doc})
		} else if got2, st2, _ := evalYAML("sort | sort", doc); st2 != "ok" || strings.Join(got2, " ") != strings.Join(got, " ") {
			report("sort-not-idempotent", mapName, fmt.Sprintf("sort | sort of %s: %v then %v", strings.TrimSpace(doc), got, got2), M{"expr": "sort | sort", "input_yaml": doc})
		}
		// sort_by(.k) on maps with distinguishable payloads: stability is visible
		mdoc := yamlSeq(mapItems)
		gotm, stm, etm := evalYAML("sort_by(.k)", mdoc)
		if stm != "ok" || strings.Join(gotm, " ") != strings.Join(wantIdx, " ") {
			kind := "sort_by"
			if long {
				kind = "sort_by-long"
			}
			if stm == "panic" {
				kind += "-panic"
			}
			report(kind, mapName, fmt.Sprintf("sort_by(.k) of %s: specification order %v, yq %s %v %s", strings.TrimSpace(mdoc), wantIdx, stm, gotm, etm), M{"expr": "sort_by(.k)", "input_yaml": mdoc})
		}
		if r.NN && !long { // nulls among numbers / strings: null is the smallest value of the order
			for _, mm := range []struct {
				op  string
				idx int
			}{{"min", r.MinN}, {"max", r.MaxN}} {
				root, _ := decodeYAML(yamlSeq([]string{items[mm.idx-1]}))
				want := spelled(root.Content[0])
				g, s, e := evalYAML(mm.op, doc)
				if s != "ok" || len(g) != 1 || g[0] != want {
					report(mm.op+"-with-null", mapName, fmt.Sprintf("%s of %s: specification %s, yq %s %v %s", mm.op, strings.TrimSpace(doc), want, s, g, e), M{"expr": mm.op, "input_yaml": doc})
				}
			}
		}
		if r.MM && !long {
			for _, mm := range []struct {
				op  string
				idx int
			}{{"min", r.Min}, {"max", r.Max}} {
				root, _ := decodeYAML(yamlSeq([]string{items[mm.idx-1]}))
				want := spelled(root.Content[0])
				g, s, e := evalYAML(mm.op, doc)
				if s != "ok" || len(g) != 1 || g[0] != want {
					report(mm.op, mapName, fmt.Sprintf("%s of %s: specification %s, yq %s %v %s", mm.op, strings.TrimSpace(doc), want, s, g, e), M{"expr": mm.op, "input_yaml": doc})
				}
			}
		}
	}
	type job func()
	var jobsList []job
	nmaps := rc.Pick(5, len(orderMapNames))
	for i := range seqs {
		r := seqs[i]
		for k := 0; k < nmaps; k++ {
			name := orderMapNames[(k+int(rc.Seed))%len(orderMapNames)]
			if k == 0 {
				name = "canonical"
			}
			if k == 1 {
				name = "extremes"
			}
			if k == 2 {
				name = "boolcase"
			}
			if k == 3 && !rc.Thorough() {
				name = "infinite"
			}
			if k == 4 && !rc.Thorough() { // one of the remaining maps, chosen by the seed
				name = orderMapNames[3+int(uint64(rc.Seed)%uint64(len(orderMapNames)-3))]
			}
			nm := name
			jobsList = append(jobsList, func() { checkSeq(r, nm, false) })
		}
	}
	for i := range longs {
		r := longs[i]
		for _, name := range []string{"canonical", "floats", "radix"} {
			nm := name
			jobsList = append(jobsList, func() { checkSeq(r, nm, true) })
		}
	}
	// comparison operators on every pair, every map
	for i := range cmps {
		c := cmps[i]
		for _, name := range orderMapNames {
			nm := name
			jobsList = append(jobsList, func() {
				lits := orderMaps[nm]
				a, b := lits[c.A-1], lits[c.B-1]
				if a == "" || b == "" {
					return
				}
				doc := yamlSeq([]string{a, b})
				for _, op := range []struct{ sym, want string }{{"<", c.Lt}, {"<=", c.Le}, {">", c.Gt}, {">=", c.Ge}} {
					g, s, e := evalYAML(".[0] "+op.sym+" .[1]", doc)
					mu.Lock()
					compared++
					mu.Unlock()
					if op.want == "err" {
						continue // not defined: an error or any answer is acceptable
					}
					if s == "err" && compareMayFail[nm] {
						continue
					}
					if s != "ok" || len(g) != 1 || g[0] != op.want {
						kindC := "compare:"
						if c.A == 1 || c.B == 1 { // position 1 of D is null
							kindC = "compare-with-null:"
						}
						report(kindC+op.sym, nm, fmt.Sprintf("%s %s %s: specification %s, yq %s %v %s", a, op.sym, b, op.want, s, g, e), M{"expr": ".[0] " + op.sym + " .[1]", "input_yaml": doc})
					}
				}
			})
		}
	}
	for i := range keys {
		k := keys[i]
		jobsList = append(jobsList, func() {
			o := evalWithTimeout("sort_keys(..)", k.D.JSON(), false)
			mu.Lock()
			compared++
			mu.Unlock()
			if o.St != "ok" || len(o.Res) != 1 || !o.Res[0].Equal(k.Sorted) {
				report("sort_keys", "canonical", fmt.Sprintf("sort_keys(..) of %s: specification %s, yq %s %s", k.D.JSON(), k.Sorted.JSON(), o.St, avListJSON(o.Res)), M{"expr": "sort_keys(..)", "input_json": k.D.JSON()})
			}
		})
	}
	// sort_keys changes key order ONLY: maps of YAML whose keys are not all strings - keys with the same text but another
	// type ("1" and 1, "true" and true) are different keys and both keep their value
	for _, ydoc := range []string{`{"1": a, 1: b, 0: c}`, `{b: x, "true": s, true: t, a: y}`, `{2: [z, {"3": p, 3: q, 1: r}], "2": w}`, `{~: n, "~": s, "": e}`} {
		yd := ydoc
		jobsList = append(jobsList, func() {
			before, s1, _ := evalYAML(`[.. | select(kind == "map") | to_entries | .[] | [(.key | tag), .key, (.value | tag), (.value | to_json(0))] | join("/")] | sort | .[]`, yd+"\n")
			after, s2, _ := evalYAML(`sort_keys(..) | [.. | select(kind == "map") | to_entries | .[] | [(.key | tag), .key, (.value | tag), (.value | to_json(0))] | join("/")] | sort | .[]`, yd+"\n")
			keysAfter, s3, _ := evalYAML(`sort_keys(..) | [.. | select(kind == "map") | [keys | .[] | to_string]] | .[] | to_json(0)`, yd+"\n")
			mu.Lock()
			compared++
			mu.Unlock()
			if s1 != "ok" || s2 != "ok" || s3 != "ok" {
				return // the probe expression itself is not what is judged
			}
			if strings.Join(before, "\n") != strings.Join(after, "\n") {
				report("sort_keys-changes-entries", "yamlkeys", fmt.Sprintf("sort_keys(..) of %s: the entries (key type, key, value) were %q and are %q", yd, before, after), M{"expr": "sort_keys(..)", "input_yaml": yd})
			}
			for _, ks := range keysAfter {
				var arr []string
				if json.Unmarshal([]byte(ks), &arr) == nil && !sort.StringsAreSorted(arr) {
					report("sort_keys-not-sorted", "yamlkeys", fmt.Sprintf("sort_keys(..) of %s leaves the keys %v", yd, arr), M{"expr": "sort_keys(..)", "input_yaml": yd})
				}
			}
		})
	}
	jobs := make(chan job, 256)
	var wg sync.WaitGroup
	for w := 0; w < runtime.NumCPU(); w++ {
		wg.Add(1)
		go func() {
			defer wg.Done()
			for j := range jobs {
				j()
			}
		}()
	}
	for _, j := range jobsList {
		jobs <- j
	}
	close(jobs)
	wg.Wait()

	// ---- mixed number/string sequences: the relative position is free; TLC searches one rank function that explains all outcomes
	rng := rand.New(rand.NewSource(rc.Seed))
	type trace = M
	var traces []trace
	var traceDocs []string
	numLits := []struct {
		lit string
		v   M
	}{{"9", M{"k": "num", "int": true, "n": 9, "d": 1}}, {"10", M{"k": "num", "int": true, "n": 10, "d": 1}}, {"1.5", M{"k": "num", "int": false, "n": 3, "d": 2}}, {"-1", M{"k": "num", "int": true, "n": -1, "d": 1}},
		{"9.5", M{"k": "num", "int": false, "n": 19, "d": 2}}, {"11", M{"k": "num", "int": true, "n": 11, "d": 1}}}
	strLits := []struct {
		lit string
		v   M
	}{{`"a"`, M{"k": "str", "s": []interface{}{"a"}}}, {`"b"`, M{"k": "str", "s": []interface{}{"b"}}}, {`"ab"`, M{"k": "str", "s": []interface{}{"a", "b"}}},
		{`"1x"`, M{"k": "str", "s": []interface{}{"1", "x"}}}, {`"9z"`, M{"k": "str", "s": []interface{}{"9", "z"}}}, {`"10"`, M{"k": "str", "s": []interface{}{"1", "0"}}},
		{`"9"`, M{"k": "str", "s": []interface{}{"9"}}}, {`"2"`, M{"k": "str", "s": []interface{}{"2"}}}}
	ntr := rc.Pick(60, 400)
	for t := 0; t < ntr; t++ {
		// universe: 2-3 numbers and 1-2 strings; strings here are spelled so that spelling order vs numbers is interesting ("1x" is not in the alphabet: use a, b, ab)
		var u []M
		var lits []string
		numPick, strPick := rng.Perm(len(numLits))[:2+rng.Intn(2)], rng.Perm(len(strLits))[:1+rng.Intn(2)]
		if t < 8 {
			// strings that SPELL numbers among numbers that lie between them: "10" < "9" as strings, 9 < 9.5 < 10 < 11 as numbers -
			// an implementation that compared such a string with a number by value would have no consistent order
			numPick = [][]int{{4}, {4, 5}, {0, 4}, {1, 4, 5}, {4, 3}, {0, 1, 4}, {5, 4}, {2, 4}}[t]
			strPick = [][]int{{5, 6}, {5, 6}, {5, 6}, {6, 5}, {5, 6, 7}, {6, 5}, {7, 5, 6}, {6, 5}}[t]
		}
		for _, i := range numPick {
			u = append(u, numLits[i].v)
			lits = append(lits, numLits[i].lit)
		}
		for _, i := range strPick {
			u = append(u, strLits[i].v)
			lits = append(lits, strLits[i].lit)
		}
		n := len(u)
		var sorts, cmpsT []M
		nperm := 3
		if t < 8 {
			nperm = 6
		}
		for k := 0; k < nperm; k++ {
			perm := rng.Perm(n)
			var inp []int
			var items []string
			for _, p := range perm {
				inp = append(inp, p+1)
				items = append(items, lits[p])
			}
			got, st, _ := evalYAML("sort", yamlSeq(items))
			if st != "ok" {
				continue
			}
			var out []int
			for _, g := range got {
				for idx, l := range lits {
					root, _ := decodeYAML(yamlSeq([]string{l}))
					if spelled(root.Content[0]) == g {
						out = append(out, idx+1)
						break
					}
				}
			}
			sorts = append(sorts, M{"inp": inp, "out": out})
		}
		for i := 0; i < n; i++ {
			for j := 0; j < n; j++ {
				for _, op := range []struct{ name, sym string }{{"lt", "<"}, {"ge", ">="}} {
					g, s, _ := evalYAML(".[0] "+op.sym+" .[1]", yamlSeq([]string{lits[i], lits[j]}))
					resS := "err"
					if s == "ok" && len(g) == 1 {
						resS = g[0]
					}
					cmpsT = append(cmpsT, M{"op": op.name, "i": i + 1, "j": j + 1, "res": resS})
				}
			}
		}
		traces = append(traces, trace{"u": u, "sorts": sorts, "cmps": cmpsT})
		traceDocs = append(traceDocs, strings.Join(lits, ", "))
	}
	var nd strings.Builder
	for _, t := range traces {
		b, _ := json.Marshal(t)
		nd.Write(b)
		nd.WriteString("\n")
	}
	bad := map[int]bool{}
	tv, err := RunTLC(rc, TLCOpts{Name: "trace", Module: "Trace_Order", Extra: map[string]string{"order_traces.ndjson": nd.String()},
		Cfg: "INIT Init\nNEXT Next\nINVARIANTS Judge\nCHECK_DEADLOCK FALSE\n", Timeout: 20 * time.Minute,
		OnLine: func(line string) {
			var i int
			if n, _ := fmt.Sscanf(line, "<<\"BAD\", %d>>", &i); n == 1 {
				mu.Lock()
				bad[i] = true
				mu.Unlock()
			}
		}})
	if err != nil {
		return err
	}
	for i := range bad {
		rc.Report("order-mixed-number-string-inconsistent", fmt.Sprintf("no total preorder explains how yq sorts and compares the values {%s}", traceDocs[i-1]),
			M{"machine": "Order", "concrete": M{"values": traceDocs[i-1], "observations": traces[i-1]}})
	}
	rc.Set("states", res.Distinct+tv.Distinct)
	rc.Set("transitions", res.Generated+tv.Generated)
	rc.Set("traces_validated_against_impl", compared+len(traces))
	rc.Set("sequences", len(seqs))
	rc.Set("long_sequences", len(longs))
	rc.Set("mixed_traces_with_hidden_order", len(traces))
	rc.Set("mixed_traces_unexplained", len(bad))
	rc.Set("concretisation_maps", orderMapNames)
	rc.Set("laws_checked_on_model", []string{"TotalPreorder", "SortLaws", "OperatorsAgree"})
	rc.Set("exhaustive_up_to_length", maxLen)
	return nil
}
