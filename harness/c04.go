package main

import (
	"encoding/json"
	"fmt"
	"os"
	"path/filepath"
	"runtime"
	"strings"
	"sync"
	"time"
)

func init() { register("C04", checkC04) }

type mergeRow struct {
	A, B  int
	Flags string
	St    string
	R     *AV
}

type foldRow struct {
	Docs  []int
	Flags string
	St    string
	R     *AV
}

func flagText(f M) string {
	s := ""
	if f["app"].(bool) {
		s += "+"
	}
	if f["deep"].(bool) {
		s += "d"
	}
	if f["exist"].(bool) {
		s += "?"
	}
	if f["new"].(bool) {
		s += "n"
	}
	return s
}

func checkC04(rc *Run) error {
	rc.Level = "model_checking"
	nsh := rc.Pick(4, 1)
	shard := int(rc.Seed % int64(nsh))
	if shard < 0 {
		shard = -shard
	}
	docs := map[int]*AV{}
	var rows []mergeRow
	var folds []foldRow
	var mu sync.Mutex
	res, err := RunTLC(rc, TLCOpts{Name: "gen", Module: "Gen_Merge", Cfg: fmt.Sprintf("CONSTANTS\n NShards = %d\n Shard = %d\nINIT Init\nNEXT Next\nINVARIANTS Agree Identities KeyOrder FoldIsLeftFold\nCHECK_DEADLOCK FALSE\n", nsh, shard),
		Timeout: time.Duration(rc.Pick(10, 30)) * time.Minute, HeapGB: 12,
		OnVector: func(js []byte) {
			var m M
			if json.Unmarshal(js, &m) != nil {
				return
			}
			mu.Lock()
			defer mu.Unlock()
			switch m["t"] {
			case "d":
				docs[int(num(m["i"]))] = fromSpec(m["d"])
			case "m":
				rows = append(rows, mergeRow{A: int(num(m["a"])), B: int(num(m["b"])), Flags: flagText(m["f"].(M)), St: m["st"].(string), R: fromSpec(m["r"])})
			case "fold":
				fr := foldRow{Flags: flagText(m["f"].(M)), St: m["st"].(string), R: fromSpec(m["r"])}
				for _, x := range m["docs"].([]interface{}) {
					fr.Docs = append(fr.Docs, int(num(x)))
				}
				folds = append(folds, fr)
			}
		}})
	if err != nil {
		return err
	}
	if res.InvariantViolated != "" {
		return machinery("Merge.tla violates its own law %s:\n%s", res.InvariantViolated, res.ErrorText)
	}
	if len(rows) == 0 {
		return machinery("Gen_Merge produced no rows")
	}
	rc.Logf("TLC: Agree/Identities/KeyOrder/FoldIsLeftFold hold on %d states; %d merge rows, %d fold rows", res.Distinct, len(rows), len(folds))

	compared, open := 0, 0
	jobs := make(chan mergeRow, 1024)
	var wg sync.WaitGroup
	for w := 0; w < runtime.NumCPU(); w++ {
		wg.Add(1)
		go func() {
			defer wg.Done()
			for r := range jobs {
				a, b := docs[r.A], docs[r.B]
				doc := `{"x":` + a.JSON() + `,"y":` + b.JSON() + `}`
				expr := fmt.Sprintf("[.x *%s .y, .x, .y]", r.Flags)
				o := evalWithTimeout(expr, doc, false)
				mu.Lock()
				compared++
				if r.St == "open" {
					open++
				}
				n := compared
				mu.Unlock()
				if n%40000 == 1 {
					rc.Sample(M{"expr": expr, "doc": doc, "spec_status": r.St, "spec_result": r.R.JSON()})
				}
				concrete := M{"expr": expr, "input_json": doc}
				site := "flags=" + r.Flags
				if o.St == "panic" || o.St == "hang" {
					rc.Report("merge-"+o.St+":"+site, fmt.Sprintf("%s on %s: %s", expr, doc, o.ErrText), M{"machine": "Merge", "concrete": concrete})
					continue
				}
				if r.St == "open" {
					// the outcome is not defined, but the operands must still be untouched when it succeeds
					if o.St == "ok" && len(o.Res) == 1 && len(o.Res[0].E) == 3 && (!o.Res[0].E[1].Equal(a) || !o.Res[0].E[2].Equal(b)) {
						rc.Report("merge-operand-changed:"+site, fmt.Sprintf("%s on %s: operands read back as %s and %s", expr, doc, o.Res[0].E[1].JSON(), o.Res[0].E[2].JSON()), M{"machine": "Merge", "concrete": concrete})
					}
					continue
				}
				if r.St == "err" {
					if o.St != "err" {
						rc.Report("merge-status:"+site, fmt.Sprintf("%s on %s: specification defines an error, yq answered %s", expr, doc, avListJSON(o.Res)), M{"machine": "Merge", "concrete": concrete, "expected": "error"})
					}
					continue
				}
				if o.St != "ok" || len(o.Res) != 1 || len(o.Res[0].E) != 3 {
					rc.Report("merge-status:"+site, fmt.Sprintf("%s on %s: expected %s, yq: %s %s", expr, doc, r.R.JSON(), o.St, o.ErrText), M{"machine": "Merge", "concrete": concrete, "expected": r.R.JSON()})
					continue
				}
				got := o.Res[0].E
				switch {
				case !got[0].Equal(r.R):
					rc.Report("merge-result:"+site, fmt.Sprintf("%s *%s %s: specification %s, yq %s", a.JSON(), r.Flags, b.JSON(), r.R.JSON(), got[0].JSON()), M{"machine": "Merge", "concrete": concrete, "expected": r.R.JSON(), "observed": got[0].JSON()})
				case !got[1].Equal(a) || !got[2].Equal(b) || !o.After.Equal(fromDocJSON(a, b)):
					rc.Report("merge-operand-changed:"+site, fmt.Sprintf("%s on %s: operands read back as %s and %s", expr, doc, got[1].JSON(), got[2].JSON()), M{"machine": "Merge", "concrete": concrete})
				}
				// forms of the same row that the documentation does not distinguish (every 8th row): the operands at the ROOT of a
				// document and in a variable (no parent node), and the `c` flag (clobber custom tags: no effect on untagged data)
				// in either position of the flag string
				if n%8 == 0 && a.K == "map" {
					variants := []struct{ expr, doc string }{
						{fmt.Sprintf("(. *%s %s) as $m | [$m, ., %s]", r.Flags, litText(b), litText(b)), a.JSON()},
						{fmt.Sprintf(". as $x | ($x *%s %s) as $m | [$m, $x, %s]", r.Flags, litText(b), litText(b)), a.JSON()},
						{fmt.Sprintf("[.x *%sc .y, .x, .y]", r.Flags), doc},
						{fmt.Sprintf("[.x *c%s .y, .x, .y]", r.Flags), doc},
					}
					for vi, v := range variants {
						ov := evalWithTimeout(v.expr, v.doc, false)
						if ov.St != "ok" || len(ov.Res) != 1 || len(ov.Res[0].E) != 3 {
							rc.Report(fmt.Sprintf("merge-variant-status:%d:%s", vi, site), fmt.Sprintf("%s on %s: expected %s, yq: %s %s", v.expr, v.doc, r.R.JSON(), ov.St, ov.ErrText), M{"machine": "Merge", "concrete": M{"expr": v.expr, "input_json": v.doc}})
							continue
						}
						gv := ov.Res[0].E
						if !gv[0].Equal(r.R) {
							rc.Report(fmt.Sprintf("merge-variant-result:%d:%s", vi, site), fmt.Sprintf("%s on %s: specification %s, yq %s", v.expr, v.doc, r.R.JSON(), gv[0].JSON()), M{"machine": "Merge", "concrete": M{"expr": v.expr, "input_json": v.doc}})
						} else if !gv[1].Equal(a) || !gv[2].Equal(b) {
							rc.Report(fmt.Sprintf("merge-variant-operand-changed:%d:%s", vi, site), fmt.Sprintf("%s on %s: operands read back as %s and %s", v.expr, v.doc, gv[1].JSON(), gv[2].JSON()), M{"machine": "Merge", "concrete": M{"expr": v.expr, "input_json": v.doc}})
						}
					}
				}
				// no aliasing: editing the result must not show through the operands
				if r.R.K == "map" {
					expr2 := fmt.Sprintf("[(.x *%s .y | (.zz = 9) | (.. |= .)), .x, .y]", r.Flags)
					o2 := evalWithTimeout(expr2, doc, false)
					if o2.St == "ok" && len(o2.Res) == 1 && len(o2.Res[0].E) == 3 && (!o2.Res[0].E[1].Equal(a) || !o2.Res[0].E[2].Equal(b)) {
						rc.Report("merge-result-aliases-operand:"+site, fmt.Sprintf("%s on %s: after editing the merge result the operands read %s and %s", expr2, doc, o2.Res[0].E[1].JSON(), o2.Res[0].E[2].JSON()),
							M{"machine": "Merge", "concrete": M{"expr": expr2, "input_json": doc}})
					}
				}
			}
		}()
	}
	for _, r := range rows {
		jobs <- r
	}
	close(jobs)
	wg.Wait()

	// the multi-file reduce form through the binary
	foldChecked := 0
	dir := filepath.Join(rc.Out, "fold")
	os.MkdirAll(dir, 0o755)
	step := rc.Pick(9, 1)
	for i, f := range folds {
		if f.St != "ok" || i%step != 0 {
			continue
		}
		var names []string
		for k, di := range f.Docs {
			n := fmt.Sprintf("m%d.json", k)
			os.WriteFile(filepath.Join(dir, n), []byte(docs[di].JSON()+"\n"), 0o644)
			names = append(names, n)
		}
		args := append([]string{"ea", "-p=json", "-o=json", "-I0", fmt.Sprintf(". as $i ireduce ({}; . *%s $i)", f.Flags)}, names...)
		out, code, err := runYq(dir, args...)
		foldChecked++
		if err != nil {
			continue
		}
		gotDoc, derr := decodeJSON(strings.TrimSpace(out))
		if code != 0 || derr != nil || !alpha(gotDoc).Equal(f.R) {
			rc.Report("merge-fold:flags="+f.Flags, fmt.Sprintf("yq %s: specification %s, yq (exit %d) %s", strings.Join(args, " "), f.R.JSON(), code, strings.TrimSpace(out)),
				M{"machine": "Merge", "concrete": M{"argv": append([]string{"yq"}, args...), "inputs": []string{docs[f.Docs[0]].JSON(), docs[f.Docs[1]].JSON(), docs[f.Docs[2]].JSON()}}, "expected": f.R.JSON()})
		}
	}
	rc.Set("states", res.Distinct)
	rc.Set("transitions", res.Generated)
	rc.Set("traces_validated_against_impl", compared)
	rc.Set("rows_in_the_open_region_operands_only", open)
	rc.Set("fold_rows_through_binary", foldChecked)
	rc.Set("documents", len(docs))
	rc.Set("laws_checked_on_model", []string{"Agree (procedural = declarative outside Open)", "Identities", "KeyOrder", "FoldIsLeftFold"})
	rc.Set("exhaustive", nsh == 1)
	return nil
}

func fromDocJSON(a, b *AV) *AV {
	return &AV{K: "map", MK: []string{"x", "y"}, MV: []*AV{a, b}}
}
