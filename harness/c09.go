package main

import (
	"encoding/json"
	"fmt"
	"runtime"
	"strings"
	"sync"
	"time"
	"unicode"

	"github.com/mikefarah/yq/v4/pkg/yqlib"
)

func init() { register("C09", checkC09) }

type specTok struct {
	N, Txt, T, Op, D, Asg string
	Prec, Args            int
	Post                  bool
}

// detail of a real expression node, in the vocabulary of the table's `d` field
func realDetail(n *yqlib.ExpressionNode) string {
	op := n.Operation
	switch op.OperationType.Type {
	case "TRAVERSE_PATH", "GET_VARIABLE", "STRING_INT", "VALUE":
		return op.StringValue
	case "ASSIGN", "ASSIGN_STYLE", "ASSIGN_TAG", "ASSIGN_ANCHOR", "ASSIGN_ALIAS", "ASSIGN_COMMENT":
		return fmt.Sprint(op.UpdateAssign)
	}
	return ""
}

// the same detail computed from the table's spelling
func specDetail(op, d string) string {
	switch op {
	case "TRAVERSE_PATH":
		s := strings.TrimPrefix(d, ".")
		s = strings.TrimSuffix(s, "?")
		return strings.Trim(s, "\"")
	case "GET_VARIABLE":
		return strings.TrimPrefix(d, "$")
	case "STRING_INT":
		return strings.Trim(d, "\"")
	case "ENV":
		return ""
	}
	return d
}

func dumpReal(n *yqlib.ExpressionNode) string {
	if n == nil {
		return "_"
	}
	s := n.Operation.OperationType.Type
	if v, ok := n.Operation.Value.(string); ok && s == "ENVSUBST" && strings.HasPrefix(v, "ENVSUBST") {
		s = v // envsubst describes its options in the operation's value (the operation type is shared by all expressions)
	}
	if d := realDetail(n); d != "" {
		s += "<" + d + ">"
	}
	if n.LHS != nil || n.RHS != nil {
		s += "(" + dumpReal(n.LHS) + "," + dumpReal(n.RHS) + ")"
	}
	return s
}

func dumpSpec(t M) string {
	op := t["op"].(string)
	s := op
	d, _ := t["d"].(string)
	if sd := specDetail(op, d); sd != "" {
		s += "<" + sd + ">"
	}
	l, hasL := t["l"]
	r, hasR := t["r"]
	if hasL || hasR {
		ls, rs := "_", "_"
		if hasL {
			ls = dumpSpec(l.(M))
		}
		if hasR {
			rs = dumpSpec(r.(M))
		}
		s += "(" + ls + "," + rs + ")"
	}
	return s
}

func alnumEnd(s string) bool {
	if s == "" {
		return false
	}
	r := rune(s[len(s)-1])
	return unicode.IsLetter(r) || unicode.IsDigit(r) || r == '_' || r == ')' || r == ']' || r == '}' || r == '"' || r == '?'
}

var parenRegexWords = map[string]bool{"flatten": true, "parent": true, "to_yaml": true, "to_json": true, "to_xml": true, "envsubst": true, "env": true, "strenv": true}

// canAbut: may token text b follow token text a with no whitespace without changing how either is lexed
// (by the documented token rules)? Conservative: when in doubt, no.
func canAbut(a, b specTok) bool {
	at, bt := a.Txt, b.Txt
	if strings.HasPrefix(at, "*") || at == "-" || bt == "-" || strings.HasPrefix(bt, "=") && !alnumEnd(at) {
		return false
	}
	if strings.HasSuffix(at, ".") && (strings.HasPrefix(bt, ".") || strings.HasPrefix(bt, "[")) {
		return false
	}
	aPunct := at == "(" || at == "[" || at == "{" || at == "," || at == ";" || at == ":" || at == ".["
	switch {
	case bt == ")" || bt == "]" || bt == "}" || bt == ",":
		return !strings.HasSuffix(at, ".") || at == "." || at == ".." || at == "..."
	case bt == "|":
		return alnumEnd(at)
	case bt == "(":
		return aPunct || at == "|" || (a.T == "op" && a.Args == 1 && !parenRegexWords[at])
	case bt == "[":
		return alnumEnd(at) && !strings.HasSuffix(at, ".")
	case bt == "{":
		return aPunct || at == "|"
	case aPunct:
		return !strings.HasPrefix(bt, "=")
	case at == "|":
		return !strings.HasPrefix(bt, "=") && !strings.HasPrefix(bt, "|")
	case strings.HasPrefix(bt, ".") && b.T == "op":
		return alnumEnd(at) && !strings.HasSuffix(at, ".")
	}
	return false
}

func renderLayout(toks []specTok, layout int) string {
	var sb strings.Builder
	for i, t := range toks {
		if i > 0 {
			switch layout {
			case 0:
				sb.WriteString(" ")
			case 1:
				if !canAbut(toks[i-1], t) {
					sb.WriteString(" ")
				}
			case 2:
				sb.WriteString("  \t ")
			case 3:
				sb.WriteString("\n")
			case 4:
				sb.WriteString(" # note, (x] \n ")
			case 5:
				sb.WriteString("\t") // a single tab is white space like any other
			case 6:
				sb.WriteString("\r\n")
			}
		}
		sb.WriteString(t.Txt)
	}
	if layout == 4 && len(toks) > 0 {
		sb.WriteString(" # trailing")
	}
	return sb.String()
}

func parseReal(expr string) (got string) {
	defer func() {
		if r := recover(); r != nil {
			got = fmt.Sprint("PANIC ", r)
		}
	}()
	n, err := yqlib.ExpressionParser.ParseExpression(expr)
	if err != nil {
		return "reject"
	}
	return dumpReal(n)
}

func checkC09(rc *Run) error {
	rc.Level = "model_checking"
	yqlib.InitExpressionParser()
	nsh := rc.Pick(4, 1)
	shard := int(rc.Seed % int64(nsh))
	if shard < 0 {
		shard = -shard
	}
	maxLen := 4 // every sequence up to length 4 over 24 tokens; thorough adds every sequence of length 5 over the 13 core tokens (Deep)
	deep := "FALSE"
	if rc.Thorough() {
		deep = "TRUE"
	}
	cfg := fmt.Sprintf("CONSTANTS\n MaxLen = %d\n Deep = "+deep+"\n NShards = %d\n Shard = %d\nINIT Init\nNEXT Next\nINVARIANTS PairLaw ParenLaw RejectLaw ArityLaw\nCHECK_DEADLOCK FALSE\n", maxLen, nsh, shard)

	type vec struct {
		K    string
		Toks []string
		Out  M
	}
	var vecs []vec
	var table []specTok
	var mu sync.Mutex
	var perr error
	res, err := RunTLC(rc, TLCOpts{Name: "gen", Module: "Gen_Parser", Cfg: cfg, Timeout: time.Duration(rc.Pick(10, 60)) * time.Minute, HeapGB: 16,
		OnVector: func(js []byte) {
			var m M
			if e := json.Unmarshal(js, &m); e != nil {
				mu.Lock()
				perr = e
				mu.Unlock()
				return
			}
			mu.Lock()
			defer mu.Unlock()
			if m["k"] == "table" {
				for _, x := range m["toks"].([]interface{}) {
					t := x.(M)
					table = append(table, specTok{N: t["n"].(string), Txt: t["txt"].(string), T: t["t"].(string), Op: t["op"].(string), D: t["d"].(string), Asg: t["asg"].(string),
						Prec: int(num(t["prec"])), Args: int(num(t["args"])), Post: t["post"].(bool)})
				}
				return
			}
			v := vec{K: m["k"].(string), Out: m["out"].(M)}
			if ts, ok := m["toks"].([]interface{}); ok {
				for _, t := range ts {
					v.Toks = append(v.Toks, t.(string))
				}
			}
			vecs = append(vecs, v)
		}})
	if err != nil {
		return err
	}
	if perr != nil {
		return machinery("unparsable vector: %v", perr)
	}
	if res.InvariantViolated != "" {
		return machinery("the parser SPECIFICATION violates its own law %s (spec defect, not a verdict about the code):\n%s", res.InvariantViolated, res.ErrorText)
	}
	if len(table) == 0 || len(vecs) == 0 {
		return machinery("Gen_Parser produced no table/vectors\n%s", strings.Join(res.Tail, "\n"))
	}
	rc.Logf("TLC: laws PairLaw/ParenLaw/RejectLaw/ArityLaw hold on %d job states; %d sequences in %v", res.Distinct, len(vecs), res.Wall.Round(time.Second))
	byName := map[string]specTok{}
	for _, t := range table {
		byName[t.N] = t
	}

	// (a) the frozen token table against the lexer of the current tree
	tableChecked := 0
	for _, t := range table {
		raw, err := yqlib.VerifRawTokenise(t.Txt)
		tableChecked++
		if err != nil || len(raw) != 1 {
			rc.Report("token-table:"+t.N+":lexing", fmt.Sprintf("spelling %q no longer lexes to one token (%v, %d tokens)", t.Txt, err, len(raw)),
				M{"machine": "Parser", "concrete": M{"expr": t.Txt}, "expected": "one token " + t.Op, "observed": fmt.Sprint(raw)})
			continue
		}
		r := raw[0]
		got := fmt.Sprintf("%s/%s/prec=%d/args=%d/post=%v/asg=%s", r.Kind, r.OpType, r.Precedence, r.NumArgs, r.Post, r.AssignType)
		want := fmt.Sprintf("%s/%s/prec=%d/args=%d/post=%v/asg=%s", t.T, t.Op, t.Prec, t.Args, t.Post, t.Asg)
		if got != want {
			rc.Report("token-table:"+t.N, fmt.Sprintf("token %q: documented %s, implementation %s", t.Txt, want, got),
				M{"machine": "Parser", "concrete": M{"expr": t.Txt}, "expected": want, "observed": got})
		}
	}

	// (b) every sequence, in every layout, through the real parser
	layouts := 7
	compared := 0
	kinds := map[string]int{}
	jobs := make(chan vec, 1024)
	var wg sync.WaitGroup
	for w := 0; w < runtime.NumCPU(); w++ {
		wg.Add(1)
		go func() {
			defer wg.Done()
			for v := range jobs {
				toks := make([]specTok, len(v.Toks))
				for i, n := range v.Toks {
					toks[i] = byName[n]
				}
				want := v.Out["status"].(string)
				if want == "tree" {
					want = dumpSpec(v.Out["tree"].(M))
				} else if want == "nil" {
					want = "_"
				}
				nl := layouts
				if v.K == "exh" {
					nl = 2 // canonical + minimal for the exhaustive family
				}
				for l := 0; l < nl; l++ {
					expr := renderLayout(toks, l)
					got := parseReal(expr)
					mu.Lock()
					compared++
					kinds[v.K]++
					if compared%100000 == 1 {
						rc.Sample(M{"family": v.K, "expr": expr, "spec": want})
					}
					mu.Unlock()
					if got != want {
						if parseReal(expr) != got {
							rc.Add("flaky_mismatches", 1)
							continue
						}
						kind := "tree"
						if want == "reject" {
							kind = "accepted-ill-formed"
						} else if got == "reject" {
							kind = "rejected-well-formed"
						} else if strings.HasPrefix(got, "PANIC") {
							kind = "panic"
						}
						fp := fmt.Sprintf("parse-%s:%s:layout%d:%s", kind, v.K, l, strings.Join(v.Toks, " "))
						if len(fp) > 160 {
							fp = fp[:160]
						}
						rc.Report(fp, fmt.Sprintf("expr=%q spec=%s real=%s", expr, want, got),
							M{"machine": "Parser", "concrete": M{"expr": expr}, "expected": want, "observed": got, "kind": kind})
					}
				}
			}
		}()
	}
	for _, v := range vecs {
		jobs <- v
	}
	close(jobs)
	wg.Wait()
	rc.Set("states", res.Distinct)
	rc.Set("transitions", res.Generated)
	rc.Set("traces_validated_against_impl", compared)
	rc.Set("token_sequences", len(vecs))
	rc.Set("token_table_entries_checked", tableChecked)
	rc.Set("per_family", kinds)
	rc.Set("laws_checked_on_model", []string{"PairLaw", "ParenLaw", "RejectLaw", "ArityLaw"})
	rc.Set("exhaustive_up_to_length", maxLen)
	rc.Set("exhaustive", nsh == 1)
	rc.Assume("layouts: single space, minimal (abutting where the documented token rules allow), tabs/multi-space, newlines, `#` comments after every token, a single tab, CR LF")
	rc.Assume("the token table (spec/ParserTable.tla) was frozen from the pinned tree and is the documented precedence table")
	return nil
}
