package main

import (
	"bytes"
	"container/list"
	"encoding/json"
	"errors"
	"fmt"
	"io"
	"os"
	"os/exec"
	"path/filepath"
	"regexp"
	"strings"
	"sync"
	"time"

	"github.com/mikefarah/yq/v4/pkg/yqlib"
)

func init() { register("C18", checkC18) }

type kindSpec struct {
	Expr   string
	Input  string
	Format string // yaml | csv
	Out    string // "" (yaml) | xml
}

func c18Kinds(aux string) map[string]kindSpec {
	return map[string]kindSpec{
		"plain":      {`.a + 1`, "a: 1\n", "yaml", ""},
		"sort":       {`.l | sort`, "l: [3, 1, 2]\n", "yaml", ""},
		"sortby":     {`.m | sort_by(.k)`, "m: [{k: 2, v: x}, {k: 1, v: y}]\n", "yaml", ""},
		"interp":     {`"x\(.a)y\(.b)"`, "a: 1\nb: two\n", "yaml", ""},
		"yamlrt":     {`.m | to_yaml | from_yaml | .k`, "m: {k: [1, {z: 2}]}\n", "yaml", ""},
		"load":       {`load("` + aux + `") | .x`, "a: 1\n", "yaml", ""},
		"multidoc":   {`.b`, "a: &x 1\nb: *x\n---\nb: 2\n", "yaml", ""},
		"reduce":     {`.l[] as $i ireduce (0; . + $i)`, "l: [1, 2, 3]\n", "yaml", ""},
		"litupd":     {`.e[] | 5 | . += 1`, "e: []\n---\ne: []\n---\ne: [1]\n", "yaml", ""},
		"commentdoc": {`.`, "# just a comment\n", "yaml", ""},
		"csv":        {`.[0].b`, "a,b\n1,x\n", "csv", ""},
		// the same expression text (one parsed tree) on different documents: nothing computed from the first document may stay in the tree
		"regexa":      {`.p as $p | [.items[] | select(test("^\($p)"))]`, "p: a\nitems: [apple, banana]\n", "yaml", ""},
		"regexb":      {`.p as $p | [.items[] | select(test("^\($p)"))]`, "p: b\nitems: [apple, banana]\n", "yaml", ""},
		"interpb":     {`"x\(.a)y\(.b)"`, "a: 9\nb: nine\n", "yaml", ""},
		"subb":        {`.s | sub("\(.from)", "\(.to)")`, "s: hello\nfrom: l\nto: L\n", "yaml", ""},
		"suba":        {`.s | sub("\(.from)", "\(.to)")`, "s: hello\nfrom: h\nto: J\n", "yaml", ""},
		"tagset":      {`.a tag = .t`, "a: 1\nt: \"!!str\"\n", "yaml", ""},
		"tagupd":      {`.b tag |= "!!int"`, "b: \"2\"\n", "yaml", ""},
		"xmlc":        {`.`, "# hello\na: 1\n", "yaml", "xml"},
		"xmlp":        {`.`, "b: 2\n", "yaml", "xml"},
		"envsubstopt": {`.s | envsubst(ne, nu)`, "s: \"v=${va}\"\n", "yaml", ""},
	}
}

// sharedObjs are the library objects the property names: parsed expression trees, decoders, encoder. (The parser is a
// process global.)
type sharedObjs struct {
	trees    map[string]*yqlib.ExpressionNode
	decoders map[string]yqlib.Decoder
	encoder  yqlib.Encoder
	encoders map[string]yqlib.Encoder
}

func newSharedObjs() *sharedObjs {
	return &sharedObjs{trees: map[string]*yqlib.ExpressionNode{}, decoders: map[string]yqlib.Decoder{}, encoders: map[string]yqlib.Encoder{}}
}

// evalKind evaluates one kind the way the stream evaluator does, on the given (possibly reused) objects.
func evalKind(k string, ks kindSpec, so *sharedObjs) (out string, err error) {
	defer func() {
		if r := recover(); r != nil {
			err = fmt.Errorf("panic: %v", r)
		}
	}()
	yqlib.InitExpressionParser()
	node := so.trees[ks.Expr] // parsed trees are shared by expression text
	if node == nil {
		node, err = yqlib.ExpressionParser.ParseExpression(ks.Expr)
		if err != nil {
			return "", err
		}
		so.trees[ks.Expr] = node
	}
	dec := so.decoders[ks.Format]
	if dec == nil {
		if ks.Format == "csv" {
			dec = yqlib.NewCSVObjectDecoder(yqlib.ConfiguredCsvPreferences)
		} else {
			dec = yqlib.NewYamlDecoder(yqlib.ConfiguredYamlPreferences)
		}
		so.decoders[ks.Format] = dec
	}
	if so.encoder == nil {
		so.encoder = yqlib.NewYamlEncoder(yqlib.ConfiguredYamlPreferences)
	}
	var buf bytes.Buffer
	enc := so.encoder
	if ks.Out == "xml" {
		if so.encoders["xml"] == nil {
			so.encoders["xml"] = yqlib.NewXMLEncoder(yqlib.ConfiguredXMLPreferences)
		}
		enc = so.encoders["xml"]
	}
	printer := yqlib.NewPrinter(enc, yqlib.NewSinglePrinterWriter(&buf))
	if err := dec.Init(strings.NewReader(ks.Input)); err != nil {
		return "", err
	}
	nav := yqlib.NewDataTreeNavigator()
	for {
		doc, e := dec.Decode()
		if errors.Is(e, io.EOF) {
			break
		}
		if e != nil {
			return buf.String(), e
		}
		l := list.New()
		l.PushBack(doc)
		res, e := nav.GetMatchingNodes(yqlib.Context{MatchingNodes: l}, node)
		if e != nil {
			return buf.String(), e
		}
		if e := printer.PrintResults(res.MatchingNodes); e != nil {
			return buf.String(), e
		}
	}
	return buf.String(), nil
}

var reRaceFunc = regexp.MustCompile(`(?m)^\s+github\.com/mikefarah/yq/v4/pkg/yqlib\.([^\s(]+)\(`)

func raceFingerprint(block string) string {
	seen := map[string]bool{}
	var fns []string
	for _, m := range reRaceFunc.FindAllStringSubmatch(block, -1) {
		f := m[1]
		if !seen[f] && !strings.HasPrefix(f, "Verif") && !strings.HasPrefix(f, "verif") {
			seen[f] = true
			fns = append(fns, f)
		}
		if len(fns) == 2 {
			break
		}
	}
	return strings.Join(fns, "+")
}

func checkC18(rc *Run) error {
	rc.Level = "model_checking"
	// 1. the cell model: reference race free and history independent; the pinned deviations show up on the model
	mcRef, err := RunTLC(rc, TLCOpts{Name: "mc-ref", Module: "Shared", Cfg: "CONSTANTS\n Dev = {}\nINIT SInit\nNEXT SNext\nINVARIANTS RaceFree\nCHECK_DEADLOCK FALSE\n", Timeout: 5 * time.Minute})
	if err != nil {
		return err
	}
	if mcRef.InvariantViolated != "" {
		return machinery("Shared.tla: the reference violates %s", mcRef.InvariantViolated)
	}
	var hists [][]string
	type pairRow struct {
		A, B      string
		Cold      bool
		Conflicts int
	}
	var pairs []pairRow
	var mu sync.Mutex
	maxHist := rc.Pick(2, 3)
	gen, err := RunTLC(rc, TLCOpts{Name: "gen", Module: "Gen_Shared", Cfg: fmt.Sprintf("CONSTANTS\n Dev = {}\n MaxHist = %d\nINIT GInit\nNEXT GNext\nINVARIANTS AllIndependent\nCHECK_DEADLOCK FALSE\n", maxHist), Timeout: 10 * time.Minute,
		OnVector: func(js []byte) {
			var m M
			if json.Unmarshal(js, &m) != nil {
				return
			}
			mu.Lock()
			defer mu.Unlock()
			if m["t"] == "hist" {
				var h []string
				for _, x := range m["h"].([]interface{}) {
					h = append(h, x.(string))
				}
				hists = append(hists, h)
			} else if m["t"] == "pair" {
				n := 0
				if c, ok := m["conflicts"].([]interface{}); ok {
					n = len(c)
				}
				pairs = append(pairs, pairRow{m["a"].(string), m["b"].(string), m["cold"].(bool), n})
			}
		}})
	if err != nil {
		return err
	}
	if gen.InvariantViolated != "" || len(hists) == 0 {
		return machinery("Gen_Shared: %s (%d histories)", gen.InvariantViolated, len(hists))
	}
	rc.Logf("TLC: reference cell model race free (%d states), %d histories up to length %d, %d pairs", mcRef.Distinct, len(hists), maxHist, len(pairs))

	aux := filepath.Join(rc.Out, "aux.yml")
	os.WriteFile(aux, []byte("x: loaded\n"), 0o644)
	kinds := c18Kinds(aux)

	// 2. standalone baselines (fresh objects), and determinism across processes through the binary
	base := map[string]string{}
	for k, ks := range kinds {
		out, err := evalKind(k, ks, newSharedObjs())
		if err != nil {
			return machinery("baseline of kind %s fails: %v", k, err)
		}
		base[k] = out
		for i := 0; i < 2; i++ {
			again, err := evalKind(k, ks, newSharedObjs())
			if err != nil || again != out {
				rc.Report("nondeterministic:"+k, fmt.Sprintf("kind %s (%s): %q then %q", k, ks.Expr, out, again), M{"machine": "Shared", "concrete": M{"expr": ks.Expr, "input": ks.Input}})
			}
		}
	}
	bdir := filepath.Join(rc.Out, "bin")
	os.MkdirAll(bdir, 0o755)
	for k, ks := range kinds {
		f := filepath.Join(bdir, "in."+map[string]string{"yaml": "yml", "csv": "csv"}[ks.Format])
		os.WriteFile(f, []byte(ks.Input), 0o644)
		var first string
		for i := 0; i < 3; i++ {
			out, _, err := runYq(bdir, "-o=yaml", ks.Expr, filepath.Base(f))
			if err != nil {
				continue
			}
			if i == 0 {
				first = out
			} else if out != first {
				rc.Report("nondeterministic-binary:"+k, fmt.Sprintf("yq %s: %q then %q", ks.Expr, first, out), M{"machine": "Shared", "concrete": M{"expr": ks.Expr, "input": ks.Input}})
			}
		}
	}

	// 3. histories in one process on shared objects
	histSteps := 0
	for _, h := range hists {
		so := newSharedObjs()
		for i, k := range h {
			out, err := evalKind(k, kinds[k], so)
			histSteps++
			if err != nil || out != base[k] {
				prev := "first"
				if i > 0 {
					prev = h[i-1]
				}
				rc.Report(fmt.Sprintf("history-dependence:%s:after:%s", k, prev), fmt.Sprintf("history %v: evaluation %d (%s, %s) gives %q (err %v), standalone %q", h, i+1, k, kinds[k].Expr, out, err, base[k]),
					M{"machine": "Shared", "concrete": M{"history": h, "exprs": kinds, "position": i + 1}, "expected": base[k], "observed": out})
			}
		}
	}
	rc.Sample(M{"history": hists[len(hists)/2], "kinds": kinds})

	// 4. schedules: the pairs run concurrently on separate evaluators under the race detector
	raceBin := filepath.Join(verifHome, "out", "bin", "verif-race")
	build := exec.Command("go", "build", "-race", "-tags", "verif", "-o", raceBin+".tmp", ".")
	build.Dir = filepath.Join(verifHome, "harness")
	if outb, err := build.CombinedOutput(); err != nil {
		return machinery("cannot build the race-detector worker: %v\n%s", err, outb)
	}
	os.Rename(raceBin+".tmp", raceBin)
	type pjob struct{ p pairRow }
	var todo []pairRow
	for i, p := range pairs {
		if p.Cold && p.A != p.B {
			continue // a cold start is about the parser only: one kind with itself is enough
		}
		if !rc.Thorough() && !p.Cold && (i+int(rc.Seed))%3 != 0 && p.A != p.B {
			continue
		}
		todo = append(todo, p)
	}
	raceRuns, racesSeen := 0, 0
	var wg sync.WaitGroup
	sem := make(chan struct{}, 8)
	for _, p := range todo {
		wg.Add(1)
		sem <- struct{}{}
		go func(p pairRow) {
			defer wg.Done()
			defer func() { <-sem }()
			mode := "warm"
			if p.Cold {
				mode = "cold"
			}
			cmd := exec.Command(raceBin, "worker", "c18", mode, p.A, p.B, aux)
			cmd.Env = append(os.Environ(), "GORACE=halt_on_error=0 exitcode=66")
			var so, se bytes.Buffer
			cmd.Stdout = &so
			cmd.Stderr = &se
			done := make(chan error, 1)
			go func() { done <- cmd.Run() }()
			select {
			case <-done:
			case <-time.After(120 * time.Second):
				cmd.Process.Kill()
				rc.Report("concurrent-hang:"+p.A+"+"+p.B, "concurrent evaluations did not finish in 120 s", M{"machine": "Shared", "concrete": M{"kinds": []string{p.A, p.B}, "mode": mode}})
				return
			}
			mu.Lock()
			raceRuns++
			mu.Unlock()
			for _, line := range strings.Split(so.String(), "\n") {
				if strings.HasPrefix(line, "MISMATCH ") {
					rc.Report(fmt.Sprintf("concurrent-result:%s:%s+%s", mode, p.A, p.B), line, M{"machine": "Shared", "concrete": M{"kinds": []string{p.A, p.B}, "mode": mode}})
				}
			}
			for _, block := range strings.Split(se.String(), "==================") {
				if !strings.Contains(block, "WARNING: DATA RACE") {
					continue
				}
				mu.Lock()
				racesSeen++
				mu.Unlock()
				fp := raceFingerprint(block)
				rc.Report("data-race:"+fp, fmt.Sprintf("data race while evaluating kinds %s and %s concurrently (%s start) on separate evaluators: %s", p.A, p.B, mode, fp),
					M{"machine": "Shared", "concrete": M{"kinds": []string{p.A, p.B}, "mode": mode, "exprs": []string{kinds[p.A].Expr, kinds[p.B].Expr}}, "observed": strings.TrimSpace(block)})
			}
		}(p)
	}
	wg.Wait()
	if raceRuns == 0 {
		return machinery("no race-detector run completed")
	}
	rc.Set("states", mcRef.Distinct+gen.Distinct)
	rc.Set("transitions", mcRef.Generated+gen.Generated)
	rc.Set("traces_validated_against_impl", histSteps+raceRuns)
	rc.Set("histories", len(hists))
	rc.Set("history_steps_compared_with_standalone", histSteps)
	rc.Set("concurrent_pairs_under_race_detector", raceRuns)
	rc.Set("race_reports_seen", racesSeen)
	rc.Set("exhaustive", rc.Thorough())
	rc.Assume("races are judged by Go's race detector on the executions run here (8 goroutines per pair, cold and warm start); no claim beyond them")
	rc.Assume("now, shuffle, env are excluded as the property says")
	return nil
}

// c18Worker runs inside the race-detector build: 4 goroutines per kind, each on its own objects.
func c18Worker(args []string) int {
	if len(args) < 4 {
		return 2
	}
	mode, a, b, aux := args[0], args[1], args[2], args[3]
	kinds := c18Kinds(aux)
	if mode == "warm" {
		for k, ks := range kinds {
			evalKind(k, ks, newSharedObjs())
		}
	}
	type res struct {
		k   string
		out string
		err error
	}
	ch := make(chan res, 64)
	var wg sync.WaitGroup
	start := make(chan struct{})
	for i := 0; i < 4; i++ {
		for _, k := range []string{a, b} {
			wg.Add(1)
			go func(k string) {
				defer wg.Done()
				<-start
				so := newSharedObjs()
				for r := 0; r < 3; r++ {
					out, err := evalKind(k, kinds[k], so)
					ch <- res{k, out, err}
				}
			}(k)
		}
	}
	close(start)
	wg.Wait()
	close(ch)
	base := map[string]string{}
	for _, k := range []string{a, b} {
		base[k], _ = evalKind(k, kinds[k], newSharedObjs())
	}
	for r := range ch {
		if r.err != nil || r.out != base[r.k] {
			fmt.Printf("MISMATCH kind=%s concurrent=%q err=%v alone=%q\n", r.k, r.out, r.err, base[r.k])
		}
	}
	return 0
}
