package main

import (
	"bytes"
	"encoding/base64"
	"encoding/csv"
	"encoding/json"
	"encoding/xml"
	"fmt"
	"io"
	"net/url"
	"os"
	"path/filepath"
	"regexp"
	"runtime"
	"sort"
	"strings"
	"sync"
	"time"
)

func init() { register("C14", checkC14) }

type codecCase struct {
	F     string
	I     int
	JSON  []int `json:"json"`
	Text  []int `json:"text"`
	Alt   []int `json:"alt"`
	Alt3  []int `json:"alt3"`
	Alt4  []int `json:"alt4"`
	Probe []int `json:"probe"`
}

func runesOf(cp []int) string {
	var sb strings.Builder
	for _, c := range cp {
		sb.WriteRune(rune(c))
	}
	return sb.String()
}

type codecRun struct {
	c     *codecCase
	dir   string
	args  []string
	stdin string
	out   string
	err   bool
	errT  string
}

// pseudo-formats: the same case tables under other format preferences
var baseFmt = map[string]string{"csv2": "csv", "props2": "props", "xml2": "xml", "xml3": "xml", "lua2": "lua"}
var prefArgs = map[string][]string{"csv2": {"--csv-separator=;"}, "props2": {"--properties-separator=:"}, "xml2": {"--xml-attribute-prefix=+"},
	"xml3": {"--xml-attribute-prefix=@", "--xml-content-name=@text"}, "lua2": {"--lua-unquoted"}}

var fmtFlag = map[string]string{"b64": "base64", "uri": "uri", "csv": "csv", "tsv": "tsv", "props": "props", "xml": "xml", "lua": "lua", "toml": "toml"}
var pairExpr = map[string]string{"b64": "@base64 | @base64d", "uri": "@uri | @urid", "csv": "to_csv | from_csv", "tsv": "to_tsv | from_tsv", "props": "to_props | from_props", "xml": "to_xml | from_xml"}

func checkC14(rc *Run) error {
	rc.Level = "model_checking"
	var cases []*codecCase
	var mu sync.Mutex
	res, err := RunTLC(rc, TLCOpts{Name: "gen", Module: "Gen_Codecs", Cfg: "CONSTANTS\n Lanes = 16\nINIT Init\nNEXT Next\nINVARIANTS CodecLaws RejectLaw\nCHECK_DEADLOCK FALSE\n", Timeout: 20 * time.Minute, HeapGB: 12,
		OnVector: func(js []byte) {
			var c codecCase
			if json.Unmarshal(js, &c) != nil {
				return
			}
			mu.Lock()
			cases = append(cases, &c)
			mu.Unlock()
		}})
	if err != nil {
		return err
	}
	if res.InvariantViolated != "" {
		return machinery("Codecs.tla violates its own law %s\n%s", res.InvariantViolated, res.ErrorText)
	}
	if len(cases) < 500 {
		return machinery("Gen_Codecs produced %d cases", len(cases))
	}
	sort.Slice(cases, func(i, j int) bool {
		if cases[i].F != cases[j].F {
			return cases[i].F < cases[j].F
		}
		return cases[i].I < cases[j].I
	})
	rc.Logf("TLC: CodecLaws/RejectLaw hold; %d cases", len(cases))
	nsh := 1 // the whole table takes seconds
	shard := int(((rc.Seed % int64(nsh)) + int64(nsh)) % int64(nsh))
	var runs []*codecRun
	for k, c := range cases {
		if !inShard(k, nsh, shard) {
			continue
		}
		base := c.F
		if b, ok := baseFmt[c.F]; ok {
			base = b
		}
		flag := fmtFlag[base]
		prefs := prefArgs[c.F]
		mk := func(dir string, args []string, stdin string) {
			runs = append(runs, &codecRun{c: c, dir: dir, args: append(append([]string{}, prefs...), args...), stdin: stdin})
		}
		auto := []string{}
		if base == "csv" || base == "tsv" {
			auto = []string{"--" + base + "-auto-parse=false"}
		}
		if len(c.JSON) > 0 {
			mk("E", []string{"-p=json", "-o=" + flag, "."}, runesOf(c.JSON))
			if e, ok := pairExpr[base]; ok {
				mk("R", append(append([]string{"-p=json"}, auto...), "-o=json", "-I0", e), runesOf(c.JSON))
			}
			if c.F == "lua" {
				mk("R", []string{"-p=json", "-o=json", "-I0", "to_json | from_json"}, runesOf(c.JSON))
				mk("R", []string{"-p=json", "-o=json", "-I0", "to_yaml | from_yaml"}, runesOf(c.JSON))
			}
		}
		dargs := append(append([]string{"-p=" + flag}, auto...), "-o=json", "-I0", ".")
		if c.F != "lua2" && c.F != "props2" { // preferences of the writer only
			mk("D", dargs, runesOf(c.Text))
		}
		if c.F == "b64" {
			mk("D3", dargs, runesOf(c.Text)+"\n")
		}
		if len(c.Alt) > 0 {
			mk("D2", dargs, runesOf(c.Alt))
		}
		if len(c.Alt3) > 0 {
			mk("D4", dargs, runesOf(c.Alt3))
		}
		if len(c.Alt4) > 0 {
			mk("D5", dargs, runesOf(c.Alt4))
		}
	}
	dir := filepath.Join(rc.Out, "run")
	os.MkdirAll(dir, 0o755)
	ch := make(chan *codecRun, len(runs))
	var wg sync.WaitGroup
	for w := 0; w < runtime.NumCPU(); w++ {
		wg.Add(1)
		go func() {
			defer wg.Done()
			for r := range ch {
				p := runProc(dir, []byte(r.stdin), r.args...)
				if p.Hang || p.Code != 0 {
					r.err, r.errT = true, firstLine(p.Stderr)
					if p.Hang {
						r.errT = "no answer within 15 s"
					}
					continue
				}
				r.out = p.Stdout
			}
		}()
	}
	for _, r := range runs {
		ch <- r
	}
	close(ch)
	wg.Wait()

	var nd bytes.Buffer
	for _, r := range runs {
		b, _ := json.Marshal(M{"f": r.c.F, "i": r.c.I, "dir": r.dir, "err": r.err, "out": cps(r.out)})
		nd.Write(b)
		nd.WriteString("\n")
	}
	bad := map[int]string{}
	reBad := regexp.MustCompile(`^<<"BAD", (\d+), "([^"]+)">>`)
	tv, err := RunTLC(rc, TLCOpts{Name: "trace", Module: "Trace_Codecs", Extra: map[string]string{"codec_runs.ndjson": nd.String()},
		Cfg: "CONSTANTS\n Chunk = 40\n Lanes = 16\nINIT TInit\nNEXT TNext\nINVARIANTS Judge\nCHECK_DEADLOCK FALSE\n", Timeout: 40 * time.Minute, HeapGB: 12,
		OnLine: func(line string) {
			if m := reBad.FindStringSubmatch(line); m != nil {
				var i int
				fmt.Sscan(m[1], &i)
				mu.Lock()
				bad[i] = m[2]
				mu.Unlock()
			}
		}})
	if err != nil {
		return err
	}
	if tv.InvariantViolated != "" {
		return machinery("Trace_Codecs: %s %s", tv.InvariantViolated, tv.ErrorText)
	}
	perFmt := map[string]int{}
	for i, r := range runs {
		perFmt[r.c.F+":"+r.dir]++
		why, isBad := bad[i+1]
		concrete := M{"machine": "Codecs", "concrete": M{"argv": append([]string{"yq"}, r.args...), "stdin": r.stdin}}
		if isBad {
			what := fmt.Sprintf("%s (%s, direction %s): yq %s on %q", why, r.c.F, r.dir, strings.Join(r.args, " "), r.stdin)
			if r.err {
				what += " fails: " + r.errT
			} else {
				what += fmt.Sprintf(" prints %q", r.out)
			}
			cls := probeClass(r)
			if t := codecTag(r); t != "" {
				cls = t
			}
			rc.Report(fmt.Sprintf("%s:%s:%s:%s", baseOf(r.c.F), r.dir, why, cls), what, concrete)
			continue
		}
		// independent readers of the Go standard library confirm what TLC accepted
		if r.dir == "E" && !r.err {
			if msg := goReaderRejects(r); msg != "" {
				rc.Report(fmt.Sprintf("%s:E:rejected-by-go-reader", r.c.F), fmt.Sprintf("yq %s on %q prints %q: %s", strings.Join(r.args, " "), r.stdin, r.out, msg), concrete)
			}
		}
	}
	rc.Sample(M{"format": runs[0].c.F, "direction": runs[0].dir, "argv": runs[0].args, "stdin": runs[0].stdin, "stdout": runs[0].out})
	rc.Sample(M{"format": runs[len(runs)/2].c.F, "direction": runs[len(runs)/2].dir, "argv": runs[len(runs)/2].args, "stdin": runs[len(runs)/2].stdin, "stdout": runs[len(runs)/2].out})
	// ---- texts the case tables of Gen_Codecs do not reach (a spelling of the format the writers of Codecs.tla never choose):
	// decode(text) must be the value the text denotes, and encode(decode(text)) must denote it again
	type extraCase struct {
		name, stdin, want string
		args, args2       []string // args2: a second run on the output of the first
	}
	extraDir := filepath.Join(rc.Out, "extra")
	os.MkdirAll(extraDir, 0o755)
	for _, ec := range []extraCase{
		{"props:continuation-with-crlf", "k1=b\\\r\n  c\r\nk2=e\r\n", `{"k1":"bc","k2":"e"}`, []string{"-p=props", "-o=json", "-I0", "."}, nil},
		{"props:continuation-with-lf", "k1=b\\\n  c\nk2=e\n", `{"k1":"bc","k2":"e"}`, []string{"-p=props", "-o=json", "-I0", "."}, nil},
		// an element's namespace prefix is part of its name, as an attribute's is
		{"xml:element-namespace-prefix", "<r xmlns:x=\"u\"><x:a>1</x:a><a>2</a></r>\n", `{"r":{"+@xmlns:x":"u","x:a":"1","a":"2"}}`, []string{"-p=xml", "-o=json", "-I0", "."}, nil},
		// a TOML table without entries is a table
		{"toml:empty-table", "[a]\n[b]\nx=1\n", `{"a":{},"b":{"x":1}}`, []string{"-p=toml", "-o=json", "-I0", "."}, nil},
		{"toml:empty-subtable", "[a.b]\n[a.c]\nx=1\n", `{"a":{"b":{},"c":{"x":1}}}`, []string{"-p=toml", "-o=json", "-I0", "."}, nil},
		{"toml:empty-table-after-its-subtable", "[a.b]\nx=1\n[a]\n[c]\ny=1\n", `{"a":{"b":{"x":1}},"c":{"y":1}}`, []string{"-p=toml", "-o=json", "-I0", "."}, nil},
		{"toml:only-an-empty-table", "[a]\n", `{"a":{}}`, []string{"-p=toml", "-o=json", "-I0", "."}, nil},
		// a block scalar is written as a Lua long string: the closing bracket level must not occur in (or at the end of) the text
		{"lua:long-string-ending-in-bracket", "k1: |-\n  x]\n", `{"k1":"x]"}`, []string{"-o=lua", "."}, []string{"-p=lua", "-o=json", "-I0", "."}},
		{"lua:long-string-holding-brackets", "k1: |-\n  a]]b]=]c\n  d]\n", `{"k1":"a]]b]=]c\nd]"}`, []string{"-o=lua", "."}, []string{"-p=lua", "-o=json", "-I0", "."}},
		{"lua:long-string-plain", "k1: |-\n  two\n  lines\n", `{"k1":"two\nlines"}`, []string{"-o=lua", "."}, []string{"-p=lua", "-o=json", "-I0", "."}},
		// mixed content: text next to child elements is kept by decode AND by encode
		// (the decoded value does not say where between the children a text stood: the texts, concatenated, and the children are what can come back)
		{"xml:mixed-content-round-trip", "<r><p>Hello <b>world</b>!</p></r>\n", `["Hello!","world"]`, []string{"-p=xml", "-o=json", "-I0", `to_xml | from_xml | [(.r.p["+content"] | [.] | flatten | join("")), .r.p.b]`}, nil},
		{"xml:mixed-content-decode", "<r><p>Hello <b>world</b>!</p></r>\n", `{"r":{"p":{"+content":["Hello","!"],"b":"world"}}}`, []string{"-p=xml", "-o=json", "-I0", "."}, nil},
	} {
		p := runProc(extraDir, []byte(ec.stdin), ec.args...)
		if ec.args2 != nil && !p.Hang && p.Code == 0 {
			p = runProc(extraDir, []byte(p.Stdout), ec.args2...)
		}
		got := strings.TrimSpace(p.Stdout)
		if p.Hang || p.Code != 0 || got != ec.want {
			rc.Report("extra:"+ec.name, fmt.Sprintf("yq %s on %q prints %q (exit %d, %s); the text denotes %s", strings.Join(ec.args, " "), ec.stdin, p.Stdout, p.Code, firstLine(p.Stderr), ec.want),
				M{"machine": "Codecs", "concrete": M{"argv": append([]string{"yq"}, ec.args...), "stdin": ec.stdin}, "expected": ec.want, "observed": p.Stdout})
		}
	}
	rc.Set("states", res.Distinct+tv.Distinct)
	rc.Set("transitions", res.Generated+tv.Generated)
	rc.Set("traces_validated_against_impl", len(runs))
	rc.Set("cases_enumerated_by_TLC", len(cases))
	rc.Set("runs_per_format_and_direction", perFmt)
	rc.Set("laws_checked_on_model", []string{"CodecLaws", "RejectLaw"})
	rc.Set("exhaustive", nsh == 1)
	rc.Assume("CSV / TSV are decoded with --csv-auto-parse=false / --tsv-auto-parse=false: with the default, cells that are YAML collections are parsed as such, by design")
	rc.Assume("domains: flat string maps without `.` in keys for properties; element trees without mixed content and without leading / trailing white space in text for XML; tables without nil for Lua; TOML in the decoding direction only (this version refuses to encode collections)")
	return nil
}

// probeClass names the characters that make the case special (fingerprints)
func probeClass(r *codecRun) string {
	s := runesOf(r.c.Probe)
	var cls []string
	add := func(c string) {
		for _, x := range cls {
			if x == c {
				return
			}
		}
		cls = append(cls, c)
	}
	for _, ch := range s {
		switch {
		case ch == '\n' || ch == '\r':
			add("linebreak")
		case ch == '\t':
			add("tab")
		case ch == ' ':
			add("space")
		case ch < 0x20 || ch == 0x7f:
			add("control")
		case ch > 0xffff:
			add("nonbmp")
		case ch > 0x7f:
			add("nonascii")
		case strings.ContainsRune(`"'\`, ch):
			add("quote")
		case strings.ContainsRune("<>&", ch):
			add("markup")
		case strings.ContainsRune("=:#!;,", ch):
			add("separator")
		}
	}
	sort.Strings(cls)
	if len(cls) == 0 {
		return "plain"
	}
	return strings.Join(cls, "+")
}

// codecTag names the input classes of the known deviations (decided from the INPUT, so another failure on other inputs is not hidden)
var reTomlArrayHeader = regexp.MustCompile(`\[\[([^\[\]]+)\]\]`)

func baseOf(f string) string {
	if b, ok := baseFmt[f]; ok {
		return b
	}
	return f
}

func codecTag(r *codecRun) string {
	probe := runesOf(r.c.Probe)
	switch baseOf(r.c.F) {
	case "csv", "tsv":
		if strings.Contains(probe, "\r\n") {
			return "crlf-in-field"
		}
		if probe == "" && (r.stdin == `[{"k1":""}]` || r.stdin == "k1\n\"\"\n") {
			return "lone-empty-field"
		}
	case "props":
		isKey := len(r.c.JSON) > 0 && (!strings.HasPrefix(runesOf(r.c.JSON), `{"k1":`) || strings.HasPrefix(runesOf(r.c.JSON), `{"k1":"a", "k2":"a", `)) // the probe is a key (first, or third after k1 and k2)
		if !isKey && (strings.HasPrefix(probe, " ") || strings.HasPrefix(probe, "\t")) {
			return "value-leading-blank"
		}
		if !isKey && r.dir == "R" && strings.Contains(probe, " ") {
			return "to_props-quotes-values-with-blanks"
		}
		if isKey && strings.ContainsAny(probe, "=:#!") {
			return "key-separator-not-escaped"
		}
	case "toml":
		for _, m := range reTomlArrayHeader.FindAllStringSubmatch(r.stdin, -1) {
			if strings.Contains(r.stdin, "\n["+m[1]+".") {
				return "subtable-of-table-array-element"
			}
		}
	case "lua":
		if r.dir == "R" && strings.Contains(strings.Join(r.args, " "), "from_json") && strings.ContainsRune(probe, 0x7f) {
			return "from_json-reads-with-the-yaml-reader"
		}
	}
	return ""
}

func goReaderRejects(r *codecRun) string {
	out := r.out
	switch baseOf(r.c.F) {
	case "b64":
		if _, err := base64.StdEncoding.DecodeString(strings.TrimSuffix(out, "\n")); err != nil {
			return "encoding/base64: " + err.Error()
		}
	case "uri":
		if _, err := url.QueryUnescape(strings.TrimSuffix(out, "\n")); err != nil {
			return "net/url: " + err.Error()
		}
	case "csv", "tsv":
		rd := csv.NewReader(strings.NewReader(out))
		if r.c.F == "tsv" {
			rd.Comma = '\t'
		}
		if r.c.F == "csv2" {
			rd.Comma = ';'
		}
		rd.FieldsPerRecord = -1
		if _, err := rd.ReadAll(); err != nil {
			return "encoding/csv: " + err.Error()
		}
	case "xml":
		d := xml.NewDecoder(strings.NewReader(out))
		for {
			if _, err := d.Token(); err == io.EOF {
				break
			} else if err != nil {
				return "encoding/xml: " + err.Error()
			}
		}
	}
	return ""
}
