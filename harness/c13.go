package main

import (
	"encoding/json"
	"fmt"
	"os"
	"path/filepath"
	"runtime"
	"sort"
	"strings"
	"sync"
	"time"
)

func init() { register("C13", checkC13) }

// renderATree renders an annotated tree of Anchors.tla as flow-style YAML.
func renderATree(x interface{}) string {
	m := x.(M)
	switch m["k"] {
	case "alias":
		return "*" + m["to"].(string)
	case "anchor":
		return "&" + m["name"].(string) + " " + renderATree(m["v"])
	case "null":
		return "null"
	case "bool":
		return fmt.Sprint(m["b"])
	case "num":
		return fromSpec(x).JSON()
	case "str":
		return fmt.Sprintf("%q", strOfAtoms(m["s"]))
	case "seq":
		parts := []string{}
		if m["e"] != nil {
			for _, e := range m["e"].([]interface{}) {
				parts = append(parts, renderATree(e))
			}
		}
		return "[" + strings.Join(parts, ", ") + "]"
	case "map":
		parts := []string{}
		if m["m"] != nil {
			for _, e := range m["m"].([]interface{}) {
				kv := e.([]interface{})
				parts = append(parts, strOfAtoms(kv[0])+": "+renderATree(kv[1]))
			}
		}
		return "{" + strings.Join(parts, ", ") + "}"
	}
	panic("renderATree")
}

// canonical JSON with sorted keys (the merge rules fix no key order)
func canon(v *AV) string {
	switch v.K {
	case "seq":
		p := make([]string, len(v.E))
		for i, e := range v.E {
			p[i] = canon(e)
		}
		return "[" + strings.Join(p, ",") + "]"
	case "map":
		idx := make([]int, len(v.MK))
		for i := range idx {
			idx[i] = i
		}
		sort.Slice(idx, func(a, b int) bool { return v.MK[idx[a]] < v.MK[idx[b]] })
		p := make([]string, len(idx))
		for i, j := range idx {
			p[i] = fmt.Sprintf("%q:%s", v.MK[j], canon(v.MV[j]))
		}
		return "{" + strings.Join(p, ",") + "}"
	}
	return v.JSON()
}

func pathExpr(p interface{}) string {
	s := ""
	if p == nil {
		return "."
	}
	for _, e := range p.([]interface{}) {
		m := e.(M)
		if m["t"] == "k" {
			s += "." + strOfAtoms(m["key"])
		} else {
			s += fmt.Sprintf("[%d]", num(m["idx"]))
		}
	}
	if s == "" {
		return "."
	}
	if strings.HasPrefix(s, "[") {
		s = "." + s
	}
	return s
}

func getPath(v *AV, p interface{}) *AV {
	if p == nil {
		return v
	}
	for _, e := range p.([]interface{}) {
		m := e.(M)
		if m["t"] == "k" {
			k := strOfAtoms(m["key"])
			found := false
			for i := range v.MK {
				if v.MK[i] == k {
					v = v.MV[i]
					found = true
					break
				}
			}
			if !found {
				return nil
			}
		} else {
			v = v.E[int(num(m["idx"]))]
		}
	}
	return v
}

type anchorVec struct {
	Doc      interface{}
	Resolved *AV
	DevExpl  *AV
	DevTrav  *AV
	Paths    []interface{}
}

// loadAnchorVectors runs Gen_Anchors (with its laws when withLaws) and returns the well-typed documents
func loadAnchorVectors(rc *Run, withLaws bool) ([]anchorVec, *TLCResult, error) {
	var vecs []anchorVec
	var mu sync.Mutex
	cfg := "INIT Init\nNEXT Next\nCHECK_DEADLOCK FALSE\n"
	if withLaws {
		cfg = "INIT Init\nNEXT Next\nINVARIANTS ResolvedIsPlain ExplicitWins\nCHECK_DEADLOCK FALSE\n"
	}
	res, err := RunTLC(rc, TLCOpts{Name: "anchors", Module: "Gen_Anchors", Cfg: cfg, Timeout: 10 * time.Minute,
		OnVector: func(js []byte) {
			var m M
			if json.Unmarshal(js, &m) != nil {
				return
			}
			if ill, _ := m["ill"].(bool); ill {
				return // ill-typed merges: no value defined, exercised by C11 only
			}
			v := anchorVec{Doc: m["doc"], Resolved: fromSpec(m["resolved"]), DevExpl: fromSpec(m["devExplode"]), DevTrav: fromSpec(m["devTraverse"])}
			if ps, ok := m["paths"].([]interface{}); ok {
				v.Paths = ps
			}
			mu.Lock()
			vecs = append(vecs, v)
			mu.Unlock()
		}})
	if err != nil {
		return nil, res, err
	}
	if res.InvariantViolated != "" {
		return nil, res, machinery("Anchors.tla violates %s\n%s", res.InvariantViolated, res.ErrorText)
	}
	if len(vecs) == 0 {
		return nil, res, machinery("Gen_Anchors produced no vectors")
	}
	sort.Slice(vecs, func(i, j int) bool { return renderATree(vecs[i].Doc) < renderATree(vecs[j].Doc) })
	return vecs, res, nil
}

func checkC13(rc *Run) error {
	rc.Level = "model_checking"
	vecs, res, err := loadAnchorVectors(rc, true)
	if err != nil {
		return err
	}
	var mu sync.Mutex
	rc.Logf("TLC: ResolvedIsPlain/ExplicitWins hold; %d documents", len(vecs))
	nsh := rc.Pick(2, 1)
	reads := 0
	jobs := make(chan int, 64)
	var wg sync.WaitGroup
	for w := 0; w < runtime.NumCPU(); w++ {
		wg.Add(1)
		go func(w int) {
			defer wg.Done()
			dir := filepath.Join(rc.Out, fmt.Sprintf("w%d", w))
			os.MkdirAll(dir, 0o755)
			for i := range jobs {
				v := vecs[i]
				text := renderATree(v.Doc) + "\n"
				os.WriteFile(filepath.Join(dir, "d.yml"), []byte(text), 0o644)
				shape := anchorsShape(v.Doc)
				// route 3: the whole document converted to JSON; and explode leaves nothing behind
				out, code, err := runYq(dir, "-o=json", "-I0", ".", "d.yml")
				if err == nil {
					judgeRead(rc, "json-convert", shape, text, ".", out, code, v.Resolved, v.DevExpl, v.DevTrav)
				}
				ex, codeEx, err := runYq(dir, "explode(.)", "d.yml")
				if err == nil && (codeEx != 0 || strings.ContainsAny(ex, "&*") || strings.Contains(ex, "<<")) {
					rc.Report("explode-leaves-anchor-alias-or-merge:"+shape, fmt.Sprintf("explode(.) of %s prints %q", strings.TrimSpace(text), ex),
						M{"machine": "Anchors", "concrete": M{"expr": "explode(.)", "input_yaml": text}, "observed": ex})
				}
				for _, p := range v.Paths {
					pe := pathExpr(p)
					want := getPath(v.Resolved, p)
					if want == nil {
						continue
					}
					// route 1: read through the un-exploded document; route 2: after explode
					if want.K == "map" && len(want.MK) > 0 {
						// wildcard reads through the un-exploded map: every value of the resolved map, in any order
						for _, wc := range []string{"[]", `["*"]`} {
							wexpr := "[" + pe + " | " + "." + wc + "]"
							if pe == "." {
								wexpr = "[." + wc + "]"
							}
							out, code, err := runYq(dir, "-o=json", "-I0", wexpr, "d.yml")
							if err != nil {
								continue
							}
							mu.Lock()
							reads++
							mu.Unlock()
							judgeRead(rc, "wildcard", shape, text, wexpr, out, code, valuesOf(want), valuesOf(getPath(v.DevExpl, p)), valuesOf(getPath(v.DevTrav, p)))
						}
					}
					routes := []struct{ name, expr string }{{"traverse", pe}, {"explode", "explode(.) | " + pe}}
					if want.K != "" && (want.K == "map" || want.K == "seq") && pe != "." {
						routes = append(routes, struct{ name, expr string }{"explode-subtree", "explode(" + pe + ") | " + pe}) // only the sub-tree is exploded
					}
					for _, route := range routes {
						out, code, err := runYq(dir, "-o=json", "-I0", route.expr, "d.yml")
						mu.Lock()
						reads++
						n := reads
						mu.Unlock()
						if n%4000 == 1 {
							rc.Sample(M{"doc": strings.TrimSpace(text), "route": route.name, "expr": route.expr, "expected": canon(want)})
						}
						if err != nil {
							continue
						}
						judgeRead(rc, route.name, shape, text, route.expr, out, code, want, getPath(v.DevExpl, p), getPath(v.DevTrav, p))
					}
				}
			}
		}(w)
	}
	shard := int(rc.Seed % int64(nsh))
	if shard < 0 {
		shard = -shard
	}
	for i := range vecs {
		if inShard(i, nsh, shard) {
			jobs <- i
		}
	}
	close(jobs)
	wg.Wait()
	// ---- a merge source Gen_Anchors does not write: an ALIAS that stands for a list of maps (`<<: *l`, l a sequence of maps) -
	// the alias stands for its anchored node, so the three routes read what the list written in place gives
	{
		xdir := filepath.Join(rc.Out, "extra")
		os.MkdirAll(xdir, 0o755)
		text := "l: &l [{x: 1}, {y: 2}]\nd:\n  <<: *l\n  z: 3\n"
		// a merged key must not be lost because a later VALUE spells its name
		lost := runProc(xdir, []byte("x: &x {p: 1}\ny: &y {q: 2}\nb:\n  <<: [*x, *y]\n  r: q\n"), "-o=json", "-I0", "explode(.) | .b | [.p, .q, .r]")
		if got := strings.TrimSpace(lost.Stdout); got != `[1,2,"q"]` {
			rc.Report("extra:merge-list-entry-lost", fmt.Sprintf("explode of b: {<<: [*x, *y], r: q} with x = {p: 1}, y = {q: 2} gives [.p, .q, .r] = %s; the merge-key rules give [1,2,\"q\"]", got),
				M{"machine": "Anchors", "concrete": M{"argv": []string{"yq", "-o=json", "-I0", "explode(.) | .b | [.p, .q, .r]"}, "input_yaml": "x: &x {p: 1}\ny: &y {q: 2}\nb:\n  <<: [*x, *y]\n  r: q\n"}, "observed": got})
		}
		for _, xc := range []struct{ name, expr, want string }{
			{"traverse", `[.d.x, .d.y, .d.z]`, `[1,2,3]`},
			{"explode", `explode(.) | .d | [.x, .y, .z, length]`, `[1,2,3,3]`},
			{"json-convert", `.d | [.x, .y, .z]`, `[1,2,3]`},
			{"wildcard", `[.d[]] | sort`, `[1,2,3]`},
		} {
			p := runProc(xdir, []byte(text), "-o=json", "-I0", xc.expr)
			if got := strings.TrimSpace(p.Stdout); p.Hang || p.Code != 0 || got != xc.want {
				rc.Report("extra:alias-to-a-list-of-maps:"+xc.name, fmt.Sprintf("yq '%s' on %q prints %q (exit %d, %s); the merge-key rules give %s", xc.expr, text, p.Stdout, p.Code, firstLine(p.Stderr), xc.want),
					M{"machine": "Anchors", "concrete": M{"argv": []string{"yq", "-o=json", "-I0", xc.expr}, "input_yaml": text}, "expected": xc.want, "observed": p.Stdout})
			}
		}
	}
	rc.Set("states", res.Distinct)
	rc.Set("transitions", res.Generated)
	rc.Set("traces_validated_against_impl", reads)
	rc.Set("documents", len(vecs))
	rc.Set("laws_checked_on_model", []string{"ResolvedIsPlain", "ExplicitWins"})
	rc.Set("exhaustive", nsh == 1)
	rc.Assume("values are compared with unordered maps: the YAML merge-key rules fix no key order")
	return nil
}

// anchorsShape classifies the arrangement of the merge inside `m` (used in fingerprints)
func anchorsShape(doc interface{}) string {
	top := doc.(M)["m"].([]interface{})
	var m []interface{}
	nested := ""
	for _, e := range top {
		kv := e.([]interface{})
		k := strOfAtoms(kv[0])
		if k == "m" {
			m, _ = kv[1].(M)["m"].([]interface{})
		}
		if k == "c" {
			inner := kv[1].(M)["v"].(M)["m"].([]interface{})
			for i, ie := range inner {
				if strOfAtoms(ie.([]interface{})[0]) == "<<" {
					nested = fmt.Sprintf("nested@%d", i)
				}
			}
		}
	}
	pos, kind, nexp := "none", "none", 0
	for i, e := range m {
		kv := e.([]interface{})
		if strOfAtoms(kv[0]) == "<<" {
			if i == 0 {
				pos = "first"
			} else {
				pos = "after-explicit"
			}
			if kv[1].(M)["k"] == "seq" {
				kind = fmt.Sprintf("list%d", len(kv[1].(M)["e"].([]interface{})))
			} else {
				kind = "single"
			}
		} else {
			nexp++
		}
	}
	return fmt.Sprintf("merge=%s:%s:%s", kind, pos, nested)
}

// valuesOf: the values of a map as a sequence sorted by canonical text (order-free comparison of wildcard reads)
func valuesOf(m *AV) *AV {
	if m == nil || m.K != "map" {
		return nil
	}
	vals := append([]*AV{}, m.MV...)
	sort.Slice(vals, func(a, b int) bool { return canon(vals[a]) < canon(vals[b]) })
	return &AV{K: "seq", E: vals}
}

func sortedSeq(v *AV) *AV {
	if v.K != "seq" {
		return v
	}
	vals := append([]*AV{}, v.E...)
	sort.Slice(vals, func(a, b int) bool { return canon(vals[a]) < canon(vals[b]) })
	return &AV{K: "seq", E: vals}
}

func judgeRead(rc *Run, route, shape, text, expr, out string, code int, want, devExplode, devTraverse *AV) {
	concrete := M{"argv": []string{"yq", "-o=json", "-I0", expr, "d.yml"}, "input_yaml": text}
	if code != 0 {
		rc.Report(fmt.Sprintf("anchors-%s-error:%s", route, shape), fmt.Sprintf("%s on %s fails (exit %d)", expr, strings.TrimSpace(text), code), M{"machine": "Anchors", "concrete": concrete, "expected": canon(want)})
		return
	}
	got, err := decodeJSON(strings.TrimSpace(out))
	if err != nil {
		rc.Report(fmt.Sprintf("anchors-%s-invalid-json:%s", route, shape), fmt.Sprintf("%s on %s prints %q", expr, strings.TrimSpace(text), out), M{"machine": "Anchors", "concrete": concrete})
		return
	}
	gotV := alpha(got)
	if route == "wildcard" {
		gotV = sortedSeq(gotV)
	}
	if canon(gotV) != canon(want) {
		// a divergence explained by a named deviation of the specification (Anchors.tla: ResolveDev) carries its name
		if devExplode != nil && canon(gotV) == canon(devExplode) {
			rc.Report(fmt.Sprintf("anchors-%s-deviation:explicit-before-merge", route), fmt.Sprintf("%s on %s: the merge-key rules give %s, yq %s", expr, strings.TrimSpace(text), canon(want), canon(gotV)),
				M{"machine": "Anchors", "concrete": concrete, "expected": canon(want), "observed": canon(gotV)})
			return
		}
		if devTraverse != nil && canon(gotV) == canon(devTraverse) {
			rc.Report(fmt.Sprintf("anchors-%s-deviation:merge-list-last-wins", route), fmt.Sprintf("%s on %s: the merge-key rules give %s, yq %s", expr, strings.TrimSpace(text), canon(want), canon(gotV)),
				M{"machine": "Anchors", "concrete": concrete, "expected": canon(want), "observed": canon(gotV)})
			return
		}
		rc.Report(fmt.Sprintf("anchors-%s-value:%s", route, shape), fmt.Sprintf("%s on %s: the merge-key rules give %s, yq %s", expr, strings.TrimSpace(text), canon(want), canon(gotV)),
			M{"machine": "Anchors", "concrete": concrete, "expected": canon(want), "observed": canon(gotV)})
	}
}
