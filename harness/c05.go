package main

import (
	"bytes"
	"encoding/json"
	"fmt"
	"io"
	"os"
	"path/filepath"
	"regexp"
	"runtime"
	"sort"
	"strings"
	"sync"
	"time"

	yaml "gopkg.in/yaml.v3"
)

func init() { register("C05", checkC05) }

// a row of the attribute table (YamlDoc.tla: Rows) plus the resolved tag (compared input vs output only)
type yrow struct {
	D    int      `json:"d"`
	P    []string `json:"p"`
	K    string   `json:"k"`
	St   string   `json:"st"`
	Tag  string   `json:"tag"`
	Anc  string   `json:"anc"`
	Val  string   `json:"val"`
	To   string   `json:"to"`
	rtag string
}

func (r yrow) key() string { return fmt.Sprintf("d%d/%s", r.D, strings.Join(r.P, "/")) }

func (r yrow) diff(o yrow) string {
	switch {
	case r.D != o.D || strings.Join(r.P, "\x00") != strings.Join(o.P, "\x00"):
		return "position"
	case r.K != o.K:
		return "kind"
	case r.St != o.St:
		return "style"
	case r.Tag != o.Tag:
		return "tag"
	case r.Anc != o.Anc:
		return "anchor"
	case r.Val != o.Val:
		return "value"
	case r.To != o.To:
		return "alias"
	}
	return ""
}

type ytable struct {
	Rows     []yrow
	Comments []string
	NDocs    int
}

func styleOf(n *yaml.Node) string {
	switch n.Kind {
	case yaml.ScalarNode:
		switch {
		case n.Style&yaml.DoubleQuotedStyle != 0:
			return "double"
		case n.Style&yaml.SingleQuotedStyle != 0:
			return "single"
		case n.Style&yaml.LiteralStyle != 0:
			return "literal"
		case n.Style&yaml.FoldedStyle != 0:
			return "folded"
		}
		return "plain"
	case yaml.MappingNode, yaml.SequenceNode:
		if n.Style&yaml.FlowStyle != 0 {
			return "flow"
		}
		return "block"
	}
	return ""
}

func commentLines(c string) []string {
	var out []string
	for _, l := range strings.Split(c, "\n") {
		l = strings.TrimSpace(l)
		if l == "" {
			continue
		}
		out = append(out, strings.TrimSpace(strings.TrimPrefix(l, "#")))
	}
	return out
}

// extractTable reads a YAML stream with gopkg.in/yaml.v3 directly (none of yq's own code) into the attribute table
func extractTable(text string) (*ytable, error) {
	t := &ytable{}
	dec := yaml.NewDecoder(strings.NewReader(text))
	for d := 0; ; d++ {
		var doc yaml.Node
		err := dec.Decode(&doc)
		if err == io.EOF {
			break
		}
		if err != nil {
			return nil, err
		}
		t.NDocs++
		t.Comments = append(t.Comments, commentLines(doc.HeadComment)...)
		var walk func(n *yaml.Node, p []string)
		row := func(n *yaml.Node, p []string) {
			r := yrow{D: d, P: append([]string{}, p...), St: styleOf(n), Anc: n.Anchor, rtag: n.ShortTag()}
			if n.Style&yaml.TaggedStyle != 0 {
				r.Tag = n.ShortTag()
				if !strings.HasPrefix(n.Tag, "!!") && !strings.HasPrefix(n.Tag, "tag:yaml.org") {
					r.Tag = n.Tag
				}
			}
			switch n.Kind {
			case yaml.ScalarNode:
				r.K, r.Val = "scalar", n.Value
			case yaml.MappingNode:
				r.K = "map"
			case yaml.SequenceNode:
				r.K = "seq"
			case yaml.AliasNode:
				r.K, r.To, r.St, r.rtag = "alias", n.Value, "", ""
			}
			t.Rows = append(t.Rows, r)
		}
		walk = func(n *yaml.Node, p []string) {
			row(n, p)
			switch n.Kind {
			case yaml.MappingNode:
				for i := 0; i+1 < len(n.Content); i += 2 {
					k, v := n.Content[i], n.Content[i+1]
					t.Comments = append(t.Comments, commentLines(k.HeadComment)...)
					t.Comments = append(t.Comments, commentLines(v.HeadComment)...)
					t.Comments = append(t.Comments, commentLines(k.LineComment)...)
					t.Comments = append(t.Comments, commentLines(v.LineComment)...)
					kv := k.Value
					if k.Kind == yaml.AliasNode {
						kv = "" // YamlDoc.tla names the entry under an alias key by the empty value
					}
					row(k, append(append([]string{}, p...), "key:"+kv))
					walk(v, append(append([]string{}, p...), kv))
					t.Comments = append(t.Comments, commentLines(v.FootComment)...)
					t.Comments = append(t.Comments, commentLines(k.FootComment)...)
				}
			case yaml.SequenceNode:
				for i, c := range n.Content {
					t.Comments = append(t.Comments, commentLines(c.HeadComment)...)
					t.Comments = append(t.Comments, commentLines(c.LineComment)...)
					walk(c, append(append([]string{}, p...), fmt.Sprint(i)))
					t.Comments = append(t.Comments, commentLines(c.FootComment)...)
				}
			}
		}
		if len(doc.Content) > 0 {
			root := doc.Content[0]
			t.Comments = append(t.Comments, commentLines(root.HeadComment)...)
			t.Comments = append(t.Comments, commentLines(root.LineComment)...)
			walk(root, nil)
			t.Comments = append(t.Comments, commentLines(root.FootComment)...)
		}
		t.Comments = append(t.Comments, commentLines(doc.FootComment)...)
	}
	return t, nil
}

func sortedCopy(s []string) []string {
	c := append([]string{}, s...)
	sort.Strings(c)
	return c
}

type ycase struct {
	V, T, L  int
	Var      int
	H        bool
	Text     []string
	Rows     []yrow
	Comments []string
	NDocs    int
}

func (c *ycase) label() string {
	if c.Var > 1 {
		return fmt.Sprintf("t%d:l%d:var%d", c.T, c.L, c.Var)
	}
	return fmt.Sprintf("t%d:l%d", c.T, c.L)
}

const unicodeText = "é中😀"
const bmpText = "é中ñ"

func hasNonBMP(s string) bool {
	for _, r := range s {
		if r > 0xffff {
			return true
		}
	}
	return false
}

// short: long concretisations are abbreviated in messages
func short(s string) string {
	return strings.ReplaceAll(s, strings.TrimSpace(longComment), "<comment of 70000 characters>")
}

// concretisation of the specification's tokens: @LONG@ (a 70000 character comment), @U1@ (non-ASCII text), variant 4 (CRLF)
func (c *ycase) concretise() string {
	text := strings.Join(c.Text, "\n") + "\n"
	text = strings.ReplaceAll(strings.ReplaceAll(strings.ReplaceAll(text, "@LONG@", longComment), "@U1@", unicodeText), "@U2@", bmpText)
	if c.Var == 4 {
		text = strings.ReplaceAll(text, "\n", "\r\n")
	}
	for i := range c.Rows {
		c.Rows[i].Val = strings.ReplaceAll(strings.ReplaceAll(c.Rows[i].Val, "@U1@", unicodeText), "@U2@", bmpText)
	}
	return text
}

func loadYamlCases(rc *Run) ([]*ycase, *TLCResult, error) {
	var cases []*ycase
	var mu sync.Mutex
	var perr error
	res, err := RunTLC(rc, TLCOpts{Name: "gen", Module: "Gen_Yaml", Cfg: "CONSTANTS\n Lanes = 16\nINIT Init\nNEXT Next\nINVARIANTS GeneratorLaw\nCHECK_DEADLOCK FALSE\n", Timeout: 20 * time.Minute, HeapGB: 12,
		OnVector: func(js []byte) {
			var raw struct {
				V, T, L  int
				Var      int
				H        bool
				Text     []string
				Rows     []yrow
				Comments []string
				Ndocs    int
			}
			if e := json.Unmarshal(js, &raw); e != nil {
				mu.Lock()
				perr = e
				mu.Unlock()
				return
			}
			mu.Lock()
			cases = append(cases, &ycase{V: raw.V, T: raw.T, L: raw.L, Var: raw.Var, H: raw.H, Text: raw.Text, Rows: raw.Rows, Comments: raw.Comments, NDocs: raw.Ndocs})
			mu.Unlock()
		}})
	if err != nil {
		return nil, res, err
	}
	if perr != nil {
		return nil, res, machinery("unparsable Gen_Yaml vector: %v", perr)
	}
	if res.InvariantViolated != "" {
		return nil, res, machinery("Gen_Yaml violates %s\n%s", res.InvariantViolated, res.ErrorText)
	}
	if len(cases) < 1000 {
		return nil, res, machinery("Gen_Yaml produced %d streams", len(cases))
	}
	sort.Slice(cases, func(i, j int) bool {
		a, b := cases[i], cases[j]
		if a.V != b.V {
			return a.V < b.V
		}
		if a.T != b.T {
			return a.T < b.T
		}
		if a.L != b.L {
			return a.L < b.L
		}
		if a.Var != b.Var {
			return a.Var < b.Var
		}
		return !a.H && b.H
	})
	return cases, res, nil
}

// compareTables: "" if the attribute table of got equals the ground truth, else (field, node description)
func compareRows(want, got []yrow) (string, string) {
	for i := range want {
		if i >= len(got) {
			return "node-lost", want[i].K + "-" + want[i].St
		}
		if d := want[i].diff(got[i]); d != "" {
			return d, want[i].K + "-" + want[i].St
		}
	}
	if len(got) > len(want) {
		return "node-added", got[len(want)].K
	}
	return "", ""
}

// the concretisation of the specification's @LONG@ comment: longer than bufio.MaxScanTokenSize
var longComment = strings.Repeat("long comment ", 5400)

// an anchor or tag, nothing after it, then a line comment: `b: &anc  # c`
var reDecoratedEmpty = regexp.MustCompile(`(&[A-Za-z0-9]+|![^ \n]+)  # `)

func noBlankLines(s string) string {
	var out []string
	for _, l := range strings.Split(s, "\n") {
		if strings.TrimSpace(l) != "" {
			out = append(out, l)
		}
	}
	return strings.Join(out, "\n")
}

func concreteComments(cs []string) []string {
	out := make([]string, len(cs))
	for i, c := range cs {
		out[i] = strings.ReplaceAll(c, "@LONG@", strings.TrimSpace(longComment))
	}
	return out
}

func checkC05(rc *Run) error {
	rc.Level = "model_checking"
	cases, res, err := loadYamlCases(rc)
	if err != nil {
		return err
	}
	rc.Logf("TLC: GeneratorLaw holds; %d streams", len(cases))
	nsh := rc.Pick(12, 1)
	shard := int(((rc.Seed % int64(nsh)) + int64(nsh)) % int64(nsh))
	var mu sync.Mutex
	judged, unstable, byteIdentical := 0, 0, 0
	unstableWhy := map[string]int{}
	jobs := make(chan *ycase, 256)
	var wg sync.WaitGroup
	for w := 0; w < runtime.NumCPU(); w++ {
		wg.Add(1)
		go func(w int) {
			defer wg.Done()
			dir := filepath.Join(rc.Out, fmt.Sprintf("w%d", w))
			os.MkdirAll(dir, 0o755)
			for c := range jobs {
				text := c.concretise()
				concrete := M{"machine": "YamlDoc", "concrete": M{"argv": []string{"yq", "."}, "stdin": text}}
				// the generator's text must denote the generator's table for an independent reader, else the case is not judged
				in, err := extractTable(text)
				stable := err == nil && in.NDocs == c.NDocs
				if stable {
					if f, _ := compareRows(c.Rows, in.Rows); f != "" {
						stable = false
						mu.Lock()
						unstableWhy["rows:"+f]++
						mu.Unlock()
					} else if strings.Join(sortedCopy(in.Comments), "\x00") != strings.Join(sortedCopy(concreteComments(c.Comments)), "\x00") {
						stable = false
						mu.Lock()
						unstableWhy["comments"]++
						mu.Unlock()
					}
				} else {
					mu.Lock()
					unstableWhy["unreadable-or-doc-count"]++
					mu.Unlock()
				}
				if !stable {
					mu.Lock()
					unstable++
					if unstable%97 == 1 {
						rc.Sample(M{"not_judged": short(text), "label": c.label()})
					}
					mu.Unlock()
					continue
				}
				args := []string{"."}
				scalarRoot := false
				for _, r := range c.Rows {
					if len(r.P) == 0 && r.K == "scalar" {
						scalarRoot = true
					}
				}
				if scalarRoot {
					// a document that is one scalar: by default yq prints the bare value (-r); the identity is claimed without unwrapping
					args = []string{"--unwrapScalar=false", "."}
				}
				concrete = M{"machine": "YamlDoc", "concrete": M{"argv": append([]string{"yq"}, args...), "stdin": text}}
				p := runProc(dir, []byte(text), args...)
				mu.Lock()
				judged++
				mu.Unlock()
				if p.Hang || p.Code != 0 {
					rc.Report("identity-fails:"+c.label(), fmt.Sprintf("yq . on %q fails: %s", text, firstLine(p.Stderr)), concrete)
					continue
				}
				out, err := extractTable(p.Stdout)
				if err != nil {
					rc.Report("output-unreadable:"+c.label(), fmt.Sprintf("yq . on %q prints %q which a YAML reader rejects: %v", text, p.Stdout, err), concrete)
					continue
				}
				if out.NDocs != c.NDocs {
					rc.Report(fmt.Sprintf("document-count:l%d", c.L), fmt.Sprintf("yq . on %q prints %d documents instead of %d: %q", text, out.NDocs, c.NDocs, p.Stdout), concrete)
					continue
				}
				if len(out.Rows) == len(c.Rows) {
					// one named deviation is separated out so that it cannot hide anything else: text with characters beyond the BMP is re-quoted
					for i := range c.Rows {
						w, g := c.Rows[i], out.Rows[i]
						if w.K == "scalar" && w.St != g.St && g.St == "double" && hasNonBMP(w.Val) && w.Val == g.Val {
							rc.Report("style-of-non-bmp-text:"+w.St, fmt.Sprintf("yq . on %q prints %q: a %s scalar holding a character beyond U+FFFF comes out double quoted with a \\U escape", short(text), short(p.Stdout), w.St), concrete)
							out.Rows[i].St = w.St
						}
					}
				}
				// a second named deviation, separated out the same way: the merge key `<<` is written with an explicit `!!merge` tag
				if len(out.Rows) == len(c.Rows) {
					for i := range c.Rows {
						w, g := c.Rows[i], out.Rows[i]
						if w.K == "scalar" && w.Val == "<<" && w.Tag == "" && g.Tag == "!!merge" {
							rc.Report("tag-on-merge-key", fmt.Sprintf("yq . on %q prints %q: the merge key `<<` comes out as `!!merge <<`", short(text), short(p.Stdout)), concrete)
							out.Rows[i].Tag = ""
						}
					}
				}
				if f, nd := compareRows(c.Rows, out.Rows); f != "" {
					rc.Report("attr-"+f+":"+nd+":"+c.label(), fmt.Sprintf("yq . on %q prints %q: %s of a %s node differs from the input's", short(text), short(p.Stdout), f, nd), concrete)
					continue
				}
				for i := range in.Rows {
					if in.Rows[i].rtag != out.Rows[i].rtag {
						rc.Report("resolved-type:"+in.Rows[i].rtag+"->"+out.Rows[i].rtag, fmt.Sprintf("yq . on %q prints %q: node %s resolves to %s instead of %s", text, p.Stdout, in.Rows[i].key(), out.Rows[i].rtag, in.Rows[i].rtag), concrete)
						break
					}
				}
				if strings.Join(out.Comments, "\x00") != strings.Join(in.Comments, "\x00") && reDecoratedEmpty.MatchString(text) {
					rc.Report("comments:line-comment-of-anchored-or-tagged-empty-value", short(fmt.Sprintf("yq . on %q prints %q: the line comment behind an anchor / tag that decorates an empty value is lost or moves to another node", text, p.Stdout)), concrete)
					continue
				}
				// (the reader attributes the comments of a CRLF text to other nodes than those of the LF text yq writes: the
				// order the specification gives - text order - is accepted as well)
				if strings.Join(out.Comments, "\x00") != strings.Join(in.Comments, "\x00") && strings.Join(out.Comments, "\x00") != strings.Join(concreteComments(c.Comments), "\x00") {
					rc.Report("comments:"+c.label(), short(fmt.Sprintf("yq . on %q prints %q: comments %q became %q", text, p.Stdout, in.Comments, out.Comments)), concrete)
					continue
				}
				p2 := runProc(dir, []byte(p.Stdout), args...)
				if p2.Code == 0 && p2.Stdout != p.Stdout && noBlankLines(p2.Stdout) == noBlankLines(p.Stdout) {
					rc.Report(fmt.Sprintf("not-a-fixpoint:blank-lines-only:t%d", c.T), short(fmt.Sprintf("yq . on %q prints %q, and on that %q: a blank line next to a comment is dropped only on the second pass", text, p.Stdout, p2.Stdout)), concrete)
					continue
				}
				if p2.Code != 0 || p2.Stdout != p.Stdout {
					rc.Report("not-a-fixpoint:"+c.label(), fmt.Sprintf("yq . on its own output %q prints %q", p.Stdout, p2.Stdout), concrete)
					continue
				}
				if p.Stdout == text {
					mu.Lock()
					byteIdentical++
					mu.Unlock()
				}
			}
		}(w)
	}
	for i, c := range cases {
		if inShard(i, nsh, shard) {
			jobs <- c
		}
	}
	close(jobs)
	wg.Wait()
	var b bytes.Buffer
	for k, v := range unstableWhy {
		fmt.Fprintf(&b, "%s=%d ", k, v)
	}
	rc.Logf("judged %d streams, %d byte-identical, %d not judged (%s)", judged, byteIdentical, unstable, b.String())
	if judged < 10*unstable {
		return machinery("too many generated streams are not read back as generated (%d of %d): %s", unstable, judged+unstable, b.String())
	}
	rc.Sample(M{"stream": strings.Join(cases[len(cases)/2].Text, "\n"), "rows": len(cases[len(cases)/2].Rows), "comments": cases[len(cases)/2].Comments})
	// ---- texts the generator of Gen_Yaml does not write (spellings whose presentation the yaml library cannot keep): whatever
	// happens to their presentation, the DATA - every node's resolved type and value - is the input's, and the output is a fixpoint
	{
		xdir := filepath.Join(rc.Out, "extra")
		os.MkdirAll(xdir, 0o755)
		probe := `[.. | [tag, (select(kind == "scalar") | .)]]`
		for _, xc := range []struct{ name, text string }{
			{"folded-with-a-more-indented-line", "a: >\n  x\n   y\nz: 1\n"},
			{"folded-keep-with-trailing-blank-lines", "a: >+\n  x\n\nz: 1\n"},
			{"folded-plain", "a: >\n  x\n  y\nz: 1\n"},
			{"empty-value-in-a-flow-map", "{a: , b: 1}\n"},
			{"empty-value-in-a-flow-sequence-entry", "[c: , 2]\n"},
			{"empty-key", "?\n: 1\n"},
			{"timestamp-in-a-flow-sequence", "[2001-12-14T21:59:43Z, a]\n"},
			{"timestamp-in-a-block-map", "t: 2001-12-14T21:59:43Z\n"},
			{"url-in-a-flow-sequence", "[http://x.y/z, 1:30]\n"},
			// leading comments whose last line is shorter than four bytes
			{"short-last-leading-comment", "# c\n#d\n"},
			{"short-only-comment", "#c\n"},
			{"short-last-leading-comment-no-eol", "# c\n#d"},
		} {
			d0 := runProc(xdir, []byte(xc.text), "-o=json", "-I0", probe)
			p1 := runProc(xdir, []byte(xc.text), ".")
			if d0.Code != 0 || p1.Code != 0 {
				continue // not a text yq reads: nothing to preserve
			}
			d1 := runProc(xdir, []byte(p1.Stdout), "-o=json", "-I0", probe)
			p2 := runProc(xdir, []byte(p1.Stdout), ".")
			concrete := M{"machine": "YamlDoc", "concrete": M{"argv": []string{"yq", "."}, "stdin": xc.text}}
			lost := ""
			for _, l := range strings.Split(xc.text, "\n") {
				if strings.HasPrefix(l, "#") && !strings.Contains("\n"+p1.Stdout, "\n"+l) {
					lost = l
				}
			}
			if lost != "" {
				rc.Report("extra-comment-lost:"+xc.name, fmt.Sprintf("yq . on %q prints %q: the comment %q is gone", xc.text, p1.Stdout, lost), concrete)
			} else if d1.Code != 0 || d1.Stdout != d0.Stdout {
				rc.Report("extra-data:"+xc.name, fmt.Sprintf("yq . on %q prints %q: types and values were %s and are %s (%s)", xc.text, p1.Stdout, strings.TrimSpace(d0.Stdout), strings.TrimSpace(d1.Stdout), firstLine(d1.Stderr)), concrete)
			} else if p2.Code != 0 || p2.Stdout != p1.Stdout {
				rc.Report("extra-not-a-fixpoint:"+xc.name, fmt.Sprintf("yq . on its own output %q prints %q", p1.Stdout, p2.Stdout), concrete)
			}
		}
	}
	rc.Set("states", res.Distinct)
	rc.Set("transitions", res.Generated)
	rc.Set("traces_validated_against_impl", judged)
	rc.Set("streams_enumerated_by_TLC", len(cases))
	rc.Set("streams_byte_identical", byteIdentical)
	rc.Set("streams_not_judged_generator_text_read_differently", unstable)
	rc.Set("laws_checked_on_model", []string{"GeneratorLaw"})
	rc.Set("exhaustive", nsh == 1)
	rc.Assume("the attribute table of the output is extracted with gopkg.in/yaml.v3 used directly (none of yq's conversion, leading-content or printer code); a stream is judged only if that reader reads the generator's text as the generator's table")
	rc.Assume("a document consisting of one scalar is run with --unwrapScalar=false: by default yq prints the bare value of a scalar result, by design")
	rc.Assume("comments are compared as the ordered list of comment texts; whether a comment is recorded as head or foot of a neighbouring node is not part of the property")
	return nil
}
