// Command verif is the driver of the model-based verification of yq.
// Every property check is `verif <ID> <tier>`; see /verif/DESIGN.md.
package main

import (
	"fmt"
	"os"
	"sort"
	"strings"
	"time"

	logging "gopkg.in/op/go-logging.v1"
)

// A Check runs the machinery of one property and returns its report.
type Check func(rc *Run) error

var checks = map[string]Check{}

func register(id string, c Check) { checks[id] = c }

func main() {
	logging.SetLevel(logging.ERROR, "yq-lib")
	if len(os.Args) < 2 {
		usage()
	}
	switch os.Args[1] {
	case "replay":
		if len(os.Args) < 3 {
			usage()
		}
		os.Exit(replayFile(os.Args[2]))
	case "selftest":
		os.Exit(selftest(os.Args[2:]))
	case "list":
		ids := []string{}
		for id := range checks {
			ids = append(ids, id)
		}
		sort.Strings(ids)
		fmt.Println(strings.Join(ids, " "))
		return
	case "worker":
		// internal: child process used for isolation of crash/hang-prone batches
		os.Exit(workerMain(os.Args[2:]))
	}
	id := os.Args[1]
	if _, isCheck := checks[id]; isCheck && os.Getenv("VERIF_CHILD") == "" {
		os.Exit(superviseCheck(os.Args[1:]))
	}
	c, ok := checks[id]
	if !ok {
		fmt.Fprintf(os.Stderr, "unknown property %q\n", id)
		os.Exit(2)
	}
	tier := "quick"
	if len(os.Args) > 2 {
		tier = os.Args[2]
	}
	if t := os.Getenv("VERIF_TIER"); t != "" && len(os.Args) <= 2 {
		tier = t
	}
	if tier != "quick" && tier != "thorough" {
		fmt.Fprintf(os.Stderr, "tier must be quick or thorough\n")
		os.Exit(2)
	}
	rc := newRun(id, tier)
	start := time.Now()
	err := c(rc)
	rc.finish(time.Since(start), err)
}

func usage() {
	fmt.Fprintln(os.Stderr, "usage: verif <ID> [quick|thorough] | replay <file> | selftest | list")
	os.Exit(2)
}
