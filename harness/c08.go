package main

import (
	"fmt"
	"runtime"
	"strings"
	"sync"
	"time"

	"github.com/mikefarah/yq/v4/pkg/yqlib"
)

func init() { register("C08", checkC08) }

// diffClass names the first difference between the document before and after an evaluation.
func diffClass(a, b *AV) string {
	if a.K != b.K {
		if a.K == "null" && b.K == "seq" {
			return "null-to-seq"
		}
		if a.K == "null" && b.K == "map" {
			return "null-to-map"
		}
		return a.K + "-to-" + b.K
	}
	switch a.K {
	case "seq":
		n := len(a.E)
		if len(b.E) > n {
			pad := true
			for i := 0; i < n; i++ {
				if !a.E[i].Equal(b.E[i]) {
					pad = false
				}
			}
			for i := n; i < len(b.E); i++ {
				if b.E[i].K != "null" {
					pad = false
				}
			}
			if pad {
				return "seq-padded"
			}
		}
		if len(b.E) != n {
			return "seq-length"
		}
		for i := range a.E {
			if !a.E[i].Equal(b.E[i]) {
				return diffClass(a.E[i], b.E[i])
			}
		}
	case "map":
		if len(b.MK) > len(a.MK) {
			same := true
			for i := range a.MK {
				if a.MK[i] != b.MK[i] || !a.MV[i].Equal(b.MV[i]) {
					same = false
				}
			}
			if same {
				return "key-added"
			}
		}
		if len(a.MK) != len(b.MK) {
			return "map-size"
		}
		for i := range a.MK {
			if a.MK[i] != b.MK[i] {
				return "key-order"
			}
			if !a.MV[i].Equal(b.MV[i]) {
				return diffClass(a.MV[i], b.MV[i])
			}
		}
	}
	return "value-changed"
}

var tracerMu sync.Mutex

// snapshot renders everything a printer could show of a node tree: kinds, tags, values, anchors, alias targets,
// styles and comments. Two equal snapshots print identically.
func snapshot(n *yqlib.CandidateNode, depth int) string {
	if n == nil {
		return "<nil>"
	}
	if depth > 40 {
		return "<deep>"
	}
	s := fmt.Sprintf("(%d|%s|%q|&%s|s%d|h%q|l%q|f%q", n.Kind, n.Tag, n.Value, n.Anchor, n.Style, n.HeadComment, n.LineComment, n.FootComment)
	if n.Kind == yqlib.AliasNode {
		if n.Alias != nil {
			s += "|*" + n.Alias.Anchor + fmt.Sprintf("@%p", n.Alias)
		} else {
			s += "|*<nil>"
		}
	}
	for _, c := range n.Content {
		s += snapshot(c, depth+1)
	}
	return s + ")"
}

func decodeYAML(text string) (*yqlib.CandidateNode, error) {
	dec := yqlib.NewYamlDecoder(yqlib.ConfiguredYamlPreferences)
	if err := dec.Init(strings.NewReader(text)); err != nil {
		return nil, err
	}
	return dec.Decode()
}

// YAML documents with anchors, aliases, merge keys, styles and comments: members of the concretisation pool that the
// JSON-model documents of the specification cannot express. Only the "document unchanged" observable is judged on them.
var c08YamlPool = []string{
	"a: &x [1, [2]]\nb: *x\n",
	"b: &m {a: 1}\na: {<<: *m, b: 2}\n",
	"- &e {a: [2, 1], b: null}\n- *e\n- {<<: *e, b: 1}\n- {a: *e, b: [*e]}\n",
	"# head\na: 'x' # line\nb: \"y\"\n# foot\n",
	"a: !custom 1\nb: !!str 2\n",
	"a:\n  - &i {b: 1}\n  - *i\nb:\n  a: *i\n",
}

// evalSnapshot runs expr on a freshly decoded YAML document and tells whether the tree printed differently afterwards.
func evalSnapshot(expr, yamlText string) (status, before, after string) {
	root, err := decodeYAML(yamlText)
	if err != nil {
		return "decode-err", "", ""
	}
	before = snapshot(root, 0)
	ch := make(chan string, 1)
	go func() {
		defer func() {
			if r := recover(); r != nil {
				ch <- "panic"
			}
		}()
		_, err := yqlib.NewAllAtOnceEvaluator().EvaluateNodes(expr, root)
		if err != nil {
			ch <- "err"
		} else {
			ch <- "ok"
		}
	}()
	select {
	case status = <-ch:
	case <-time.After(20 * time.Second):
		return "hang", before, before
	}
	return status, before, snapshot(root, 0)
}

// mutationSite re-runs expr on doc with the handler tracer and returns the innermost operator
// type whose handler changed the document although it was entered read-only (or the innermost
// one at all if none was read-only).
func mutationSite(expr, docJSON string) (site string, ro bool) {
	tracerMu.Lock()
	defer tracerMu.Unlock()
	root, err := decodeJSON(docJSON)
	if err != nil {
		return "?", false
	}
	var stack []string
	site = "?"
	found := false
	yqlib.VerifSetTracer(func(ev *yqlib.VerifEvent) {
		if !ev.Exit {
			stack = append(stack, alpha(root).JSON())
			return
		}
		before := stack[len(stack)-1]
		stack = stack[:len(stack)-1]
		if !found && alpha(root).JSON() != before {
			found = true
			site = ev.Node.Operation.OperationType.Type
			ro = ev.In.DontAutoCreate
		}
	})
	defer yqlib.VerifSetTracer(nil)
	func() {
		defer func() { recover() }()
		yqlib.NewAllAtOnceEvaluator().EvaluateNodes(expr, root)
	}()
	return site, ro
}

func yamlMutationSite(expr, yamlText string) string {
	tracerMu.Lock()
	defer tracerMu.Unlock()
	root, err := decodeYAML(yamlText)
	if err != nil {
		return "?"
	}
	var stack []string
	site := "?"
	found := false
	yqlib.VerifSetTracer(func(ev *yqlib.VerifEvent) {
		if !ev.Exit {
			stack = append(stack, snapshot(root, 0))
			return
		}
		before := stack[len(stack)-1]
		stack = stack[:len(stack)-1]
		if !found && snapshot(root, 0) != before {
			found = true
			site = ev.Node.Operation.OperationType.Type
		}
	})
	defer yqlib.VerifSetTracer(nil)
	func() {
		defer func() { recover() }()
		yqlib.NewAllAtOnceEvaluator().EvaluateNodes(expr, root)
	}()
	return site
}

func checkC08(rc *Run) error {
	rc.Level = "model_checking"
	nsh := rc.Pick(3, 1)
	shard := int(rc.Seed % int64(nsh))
	if shard < 0 {
		shard = -shard
	}
	cfg := fmt.Sprintf("CONSTANTS\n Dev = {}\n NShards = %d\n Shard = %d\nINIT Init\nNEXT Next\nINVARIANT RefReadOnly\nCHECK_DEADLOCK FALSE\n", nsh, shard)
	g, err := runGenEval(rc, "Gen_C08", "gen", cfg, time.Duration(rc.Pick(10, 40))*time.Minute)
	if err != nil {
		return err
	}
	rc.Logf("TLC: reference is read-only on %d states; %d vectors (%d expressions x %d documents) in %v", g.TLC.Distinct, len(g.Vectors), len(g.Exprs), len(g.Docs), g.TLC.Wall.Round(time.Second))

	type mut struct {
		text, doc string
		before    *AV
		after     *AV
		kind      string
	}
	var muts []mut
	var mu sync.Mutex
	compared, okRuns, yamlRuns := 0, 0, 0
	var ymuts [][2]string
	jobs := make(chan evalVector, 1024)
	var wg sync.WaitGroup
	for w := 0; w < runtime.NumCPU(); w++ {
		wg.Add(1)
		go func() {
			defer wg.Done()
			for v := range jobs {
				e, d := g.Exprs[v.Ei], g.Docs[v.Di]
				text, doc := exprText(e), d.JSON()
				if v.Di == 1 && v.St != "unspec" { // operators the reference leaves open (sort_keys sorts in place by design) are not judged on the YAML pool either
					for _, y := range c08YamlPool {
						st, before, after := evalSnapshot(text, y)
						mu.Lock()
						yamlRuns++
						mu.Unlock()
						if st == "ok" && before != after {
							mu.Lock()
							ymuts = append(ymuts, [2]string{text, y})
							mu.Unlock()
						}
					}
				}
				o := evalWithTimeout(text, doc, false)
				mu.Lock()
				compared++
				if compared%20000 == 1 {
					rc.Sample(M{"expr": text, "doc": doc, "real_status": o.St})
				}
				mu.Unlock()
				if o.St != "ok" {
					continue // errors print nothing; crashes and hangs are C11's subject
				}
				mu.Lock()
				okRuns++
				mu.Unlock()
				if !o.After.Equal(d) {
					mu.Lock()
					muts = append(muts, mut{text, doc, d, o.After, "document-edited"})
					mu.Unlock()
					continue
				}
				// observable 1: `X as $x | .` prints the document
				if opOf(e) == "PIPE" && opOf(sub(e, "l")) == "ASSIGN_VARIABLE" {
					for _, r := range o.Res {
						if !r.Equal(d) {
							mu.Lock()
							muts = append(muts, mut{text, doc, d, r, "result-differs-from-document"})
							mu.Unlock()
							break
						}
					}
				}
				// observable 2: select(X) passes nodes through unmodified
				if opOf(e) == "SELECT" {
					for _, r := range o.Res {
						if !r.Equal(d) {
							mu.Lock()
							muts = append(muts, mut{text, doc, d, r, "select-passed-a-modified-node"})
							mu.Unlock()
							break
						}
					}
				}
				if opOf(e) == "PIPE" && opOf(sub(e, "r")) == "SELECT" {
					kids := d.E
					if d.K == "map" {
						kids = d.MV
					}
					j := 0
					bad := false
					for _, r := range o.Res {
						for j < len(kids) && !kids[j].Equal(r) {
							j++
						}
						if j >= len(kids) {
							bad = true
							break
						}
						j++
					}
					if bad {
						mu.Lock()
						muts = append(muts, mut{text, doc, d, &AV{K: "seq", E: o.Res}, "select-passed-a-modified-node"})
						mu.Unlock()
					}
				}
			}
		}()
	}
	for _, v := range g.Vectors {
		jobs <- v
	}
	close(jobs)
	wg.Wait()
	// classify every divergence by the innermost operator that edited the document (sequential: the tracer is global)
	for _, m := range muts {
		// re-run from scratch first (soundness rule 4)
		o := evalWithTimeout(m.text, m.doc, false)
		if o.St != "ok" {
			rc.Add("flaky_mismatches", 1)
			continue
		}
		site, ro := mutationSite(m.text, m.doc)
		cls := diffClass(m.before, o.After)
		if m.kind != "document-edited" {
			cls = m.kind
		}
		mode := "rw"
		if ro {
			mode = "ro"
		}
		fp := fmt.Sprintf("ro-mutation:%s:%s:%s", site, mode, cls)
		rc.Report(fp, fmt.Sprintf("expr=%s doc=%s document/result afterwards=%s", m.text, m.doc, m.after.JSON()),
			M{"machine": "Eval", "concrete": M{"expr": m.text, "input_json": m.doc}, "expected": "document unchanged: " + m.doc, "observed": m.after.JSON(), "kind": m.kind})
	}
	for _, ym := range ymuts {
		st, before, after := evalSnapshot(ym[0], ym[1])
		if st != "ok" || before == after {
			rc.Add("flaky_mismatches", 1)
			continue
		}
		site := yamlMutationSite(ym[0], ym[1])
		rc.Report(fmt.Sprintf("ro-mutation-yaml:%s", site), fmt.Sprintf("expr=%s yaml=%q: the document prints differently afterwards", ym[0], ym[1]),
			M{"machine": "Eval", "concrete": M{"expr": ym[0], "input_yaml": ym[1]}, "expected": "document unchanged", "observed": "snapshot of the node tree differs", "kind": "document-edited"})
	}
	rc.Set("yaml_pool_evaluations", yamlRuns)
	if err := validateHandlerSteps(rc, g, rc.Pick(40, 20), rc.ID); err != nil {
		return err
	}
	rc.Set("states", g.TLC.Distinct)
	rc.Set("transitions", g.TLC.Generated)
	rc.Set("traces_validated_against_impl", compared)
	rc.Set("evaluations_that_succeeded", okRuns)
	rc.Set("expressions", len(g.Exprs))
	rc.Set("documents", len(g.Docs))
	rc.Set("divergences_before_classification", len(muts))
	rc.Set("exhaustive", nsh == 1)
	rc.Set("invariant_checked_on_model", "RefReadOnly (Dev = {})")
	rc.Assume("observables are the two the statement names: `X as $x | .` prints the document; select(X) passes nodes unmodified; plus the document after the evaluation read through the same root node")
	return nil
}
