package main

import (
	"encoding/json"
	"fmt"
	"os"
	"runtime"
	"sort"
	"strings"
	"sync"
	"time"
)

func init() { register("C01", checkC01) }

type evalVector struct {
	Di, Ei int
	Tog    bool
	St     string
	Res    []*AV
	Same   bool
	After  *AV
}

// genEvalTables runs a Gen_* module that prints e/d/v lines and returns the tables and vectors.
type genEvalResult struct {
	Exprs   map[int]M
	Docs    map[int]*AV
	Vectors []evalVector
	TLC     *TLCResult
}

func runGenEval(rc *Run, module, name, cfg string, timeout time.Duration) (*genEvalResult, error) {
	g := &genEvalResult{Exprs: map[int]M{}, Docs: map[int]*AV{}}
	var mu sync.Mutex
	var perr error
	res, err := RunTLC(rc, TLCOpts{Name: name, Module: module, Cfg: cfg, Timeout: timeout, HeapGB: 12,
		OnVector: func(js []byte) {
			var m M
			if e := json.Unmarshal(js, &m); e != nil {
				mu.Lock()
				perr = e
				mu.Unlock()
				return
			}
			mu.Lock()
			defer mu.Unlock()
			switch m["t"] {
			case "e":
				g.Exprs[int(num(m["i"]))] = m["e"].(M)
			case "d":
				g.Docs[int(num(m["i"]))] = fromSpec(m["d"])
			case "v":
				v := evalVector{Di: int(num(m["di"])), Ei: int(num(m["ei"])), St: m["st"].(string), Same: m["same"].(bool)}
				v.Tog, _ = m["tog"].(bool)
				if rs, ok := m["res"].([]interface{}); ok {
					for _, r := range rs {
						v.Res = append(v.Res, fromSpec(r))
					}
				}
				if !v.Same {
					v.After = fromSpec(m["after"])
				}
				g.Vectors = append(g.Vectors, v)
			}
		}})
	g.TLC = res
	if err != nil {
		return g, err
	}
	if perr != nil {
		return g, machinery("unparsable vector from %s: %v", module, perr)
	}
	if res.InvariantViolated != "" || res.ExitCode != 0 {
		return g, machinery("%s: TLC reported %q (exit %d)\n%s", module, res.InvariantViolated, res.ExitCode, res.ErrorText)
	}
	if len(g.Vectors) == 0 {
		return g, machinery("%s produced no vectors\n%s", module, strings.Join(res.Tail, "\n"))
	}
	return g, nil
}

func evalWithTimeout(expr, docJSON string, together bool) realOutcome {
	ch := make(chan realOutcome, 1)
	go func() { ch <- evalReal(expr, docJSON, together) }()
	select {
	case o := <-ch:
		return o
	case <-time.After(20 * time.Second):
		return realOutcome{St: "hang", ErrText: "no answer within 20s"}
	}
}

type evalMismatch struct {
	Kind, Expr, Doc, Want, Got string
	AST                        M
}

// compareEval replays one vector; returns "" if the real code agrees with the specification.
func compareEval(v evalVector, e M, d *AV, together bool) (kind string, text string, doc string, want string, got string, o realOutcome) {
	text = exprText(e)
	doc = d.JSON()
	o = evalWithTimeout(text, doc, together)
	wantAfter := d
	if !v.Same {
		wantAfter = v.After
	}
	switch {
	case o.St == "decode-err":
		return "machinery", text, doc, "", o.ErrText, o
	case o.St != v.St:
		return "status", text, doc, v.St, o.St + " " + o.ErrText, o
	case v.St == "ok" && !avListEqual(o.Res, v.Res):
		return "result", text, doc, avListJSON(v.Res), avListJSON(o.Res), o
	case v.St == "ok" && !o.After.Equal(wantAfter):
		return "docafter", text, doc, wantAfter.JSON(), o.After.JSON(), o
	}
	return "", text, doc, "", "", o
}

func checkC01(rc *Run) error {
	rc.Level = "model_checking"
	// quick: one of 12 shards of the level-1 grammar (about 79 000 expressions); thorough: one of 24 shards of the level-2
	// grammar (452 457 expressions: every operator applied to the output of every operator) - the seed picks the shard
	nsh := rc.Pick(12, 24)
	level := rc.Pick(1, 2)
	shard := int(rc.Seed % int64(nsh))
	if shard < 0 {
		shard = -shard
	}
	cfg := fmt.Sprintf("CONSTANTS\n Dev = {}\n Level = %d\n NShards = %d\n Shard = %d\n TogEvery = %d\nINIT Init\nNEXT Next\nCHECK_DEADLOCK FALSE\n", level, nsh, shard, rc.Pick(3, 3))
	g, err := runGenEval(rc, "Gen_Eval", "gen", cfg, time.Duration(rc.Pick(10, 60))*time.Minute)
	if err != nil {
		return err
	}
	rc.Logf("TLC: %d states, %d vectors (%d expressions x %d documents) in %v", g.TLC.Distinct, len(g.Vectors), len(g.Exprs), len(g.Docs), g.TLC.Wall.Round(time.Second))
	stats := replayEvalVectors(rc, g, "C01")
	// code -> model: every operator handler step of a sample of the real evaluations is validated by TLC against Eval.tla
	if err := validateHandlerSteps(rc, g, rc.Pick(400, 150), "C01"); err != nil {
		return err
	}
	rc.Set("states", g.TLC.Distinct)
	rc.Set("transitions", g.TLC.Generated)
	rc.Set("traces_validated_against_impl", stats.compared)
	rc.Set("vectors", len(g.Vectors))
	rc.Set("vectors_unspec_not_compared", stats.unspec)
	rc.Set("expressions", len(g.Exprs))
	rc.Set("documents", len(g.Docs))
	rc.Set("operators_covered", stats.ops)
	rc.Set("exhaustive", nsh == 1)
	rc.Set("shard", fmt.Sprintf("%d of %d", shard, nsh))
	rc.Assume("expressions are rendered fully parenthesised (precedence is C09's subject)")
	rc.Assume("strings range over a 3-letter alphabet; numbers over small dyadic rationals; documents are JSON-model values fed through yq's JSON decoder")
	return nil
}

type replayStats struct {
	compared, unspec int
	ops              []string
}

func replayEvalVectors(rc *Run, g *genEvalResult, prop string) replayStats {
	if os.Getenv("VERIF_ISOLATE") != "" {
		return replayIsolated(rc, g, prop)
	}
	var st replayStats
	var mu sync.Mutex
	opset := map[string]bool{}
	jobs := make(chan evalVector, 1024)
	var wg sync.WaitGroup
	for w := 0; w < runtime.NumCPU(); w++ {
		wg.Add(1)
		go func() {
			defer wg.Done()
			for v := range jobs {
				e, d := g.Exprs[v.Ei], g.Docs[v.Di]
				if e == nil || d == nil {
					continue
				}
				if v.St == "unspec" {
					// executed for the crash/hang monitor only
					o := evalWithTimeout(exprText(e), d.JSON(), v.Tog)
					mu.Lock()
					st.unspec++
					mu.Unlock()
					if o.St == "panic" || o.St == "hang" {
						rc.Add("crash_or_hang_in_unspecified_region", 1)
						if rc.Count("crash_or_hang_in_unspecified_region") <= 8 {
							rc.Logf("unspec-region %s: expr=%s doc=%s: %s", o.St, exprText(e), d.JSON(), o.ErrText)
						}
					}
					continue
				}
				kind, text, doc, want, got, _ := compareEval(v, e, d, v.Tog)
				mu.Lock()
				st.compared++
				opsIn(e, opset)
				n := st.compared
				mu.Unlock()
				if n%50000 == 1 {
					rc.Sample(M{"expr": text, "doc": doc, "spec_status": v.St, "spec_results": avListJSON(v.Res)})
				}
				if kind == "" {
					continue
				}
				if kind == "machinery" {
					rc.Add("machinery_decode_errors", 1)
					continue
				}
				// re-run once from scratch before reporting (soundness rule 4)
				kind2, _, _, _, _, _ := compareEval(v, e, d, v.Tog)
				if kind2 != kind {
					rc.Add("flaky_mismatches", 1)
					continue
				}
				mode := ""
				if v.Tog {
					mode = "together-"
				}
				fp := fmt.Sprintf("eval-%s%s:%s", mode, kind, skeleton(e, 2))
				rc.Report(fp, fmt.Sprintf("expr=%s doc=%s spec=%s real=%s", text, doc, want, got),
					M{"machine": "Eval", "concrete": M{"expr": text, "input_json": doc, "together": v.Tog}, "expected": want, "observed": got, "kind": kind})
			}
		}()
	}
	for _, v := range g.Vectors {
		jobs <- v
	}
	close(jobs)
	wg.Wait()
	for o := range opset {
		st.ops = append(st.ops, o)
	}
	sort.Strings(st.ops)
	return st
}
