package main

import (
	"bytes"
	"container/list"
	"encoding/json"
	"fmt"
	"os"
	"regexp"
	"sort"
	"sync"
	"time"

	"github.com/mikefarah/yq/v4/pkg/yqlib"
)

// ---- handler-trace validation (Trace_Eval.tla): every operator handler step of a real evaluation must be a step of Eval.tla

// alignTree maps the nodes of the real expression tree to the sub-trees of the specification's AST the text was rendered
// from. false: the shapes differ (the evaluation is then not traced).
func alignTree(real *yqlib.ExpressionNode, spec M, out map[*yqlib.ExpressionNode]M) bool {
	if real == nil || spec == nil {
		return real == nil && spec == nil
	}
	rop := real.Operation.OperationType.Type
	sop := opOf(spec)
	if a, ok := realOpName[sop]; ok {
		sop = a
	}
	if rop == "STRING_INT" && sop == "VALUE" {
		rop = "VALUE" // an integer literal in index position
	}
	if rop != sop {
		alignMiss[rop+" vs "+sop]++
		return false
	}
	out[real] = spec
	switch opOf(spec) {
	case "SET_PATH", "WITH": // setpath(p; v), with(p; u): the arguments are a BLOCK on the right
		if real.RHS == nil || real.RHS.Operation.OperationType.Type != "BLOCK" {
			return false
		}
		return alignTree(real.RHS.LHS, sub(spec, "l"), out) && alignTree(real.RHS.RHS, sub(spec, "r"), out)
	case "REDUCE": // src as $x ireduce (init; body): the block is not a step of its own
		if real.RHS == nil || real.RHS.Operation.OperationType.Type != "BLOCK" || real.LHS == nil {
			return false
		}
		av, blk := sub(spec, "l"), sub(spec, "r")
		out[real.LHS] = av
		return alignTree(real.LHS.LHS, sub(av, "l"), out) && alignTree(real.RHS.LHS, sub(blk, "l"), out) && alignTree(real.RHS.RHS, sub(blk, "r"), out)
	case "ASSIGN_VARIABLE":
		return alignTree(real.LHS, sub(spec, "l"), out)
	}
	return alignTree(real.LHS, sub(spec, "l"), out) && alignTree(real.RHS, sub(spec, "r"), out)
}

// names that differ between the specification's AST and the real operation types
var realOpName = map[string]string{"DELETE_CHILD": "DELETE"}
var alignMiss = map[string]int{}

func indexOfNode(content []*yqlib.CandidateNode, n *yqlib.CandidateNode) int {
	for i, c := range content {
		if c == n {
			return i
		}
	}
	return -1
}

// itemOf: the context item of Eval.tla for a real node: a position in the document, or a position in a detached tree
func itemOf(n, root *yqlib.CandidateNode) (M, bool) {
	steps := []interface{}{}
	cur := n
	for cur != root && cur.Parent != nil {
		p := cur.Parent
		idx := indexOfNode(p.Content, cur)
		if idx < 0 {
			break // not placed in its parent (a result under construction): a detached value of its own
		}
		if p.Kind == yqlib.MappingNode {
			if idx%2 == 0 { // a key node
				v := alpha(n)
				it := M{"in": false, "v": v.toSpec(), "sub": []interface{}{}}
				if cur == n && idx+1 < len(p.Content) && n.Kind == yqlib.ScalarNode && v.K == "str" { // the key of an entry of the document: Eval.tla's KeyItem
					if ent, ok := itemOf(p.Content[idx+1], root); ok && ent["in"] == true {
						it["keyat"] = ent["p"]
					}
				}
				return it, !v.hasForeign()
			}
			steps = append([]interface{}{M{"t": "k", "key": atomsOf(p.Content[idx-1].Value)}}, steps...)
		} else {
			steps = append([]interface{}{M{"t": "i", "idx": idx}}, steps...)
		}
		cur = p
	}
	if cur == root {
		return M{"in": true, "p": steps}, true
	}
	v := alpha(cur)
	return M{"in": false, "v": v.toSpec(), "sub": steps}, !v.hasForeign() && !tagContradictsKind(cur)
}

func itemsOf(l *list.List, root *yqlib.CandidateNode) ([]interface{}, bool) {
	out := []interface{}{}
	if l == nil {
		return out, true
	}
	ok := true
	for el := l.Front(); el != nil; el = el.Next() {
		it, k := itemOf(el.Value.(*yqlib.CandidateNode), root)
		ok = ok && k
		out = append(out, it)
	}
	return out, ok
}

// a container whose tag contradicts its kind (the slice of a null is a sequence node tagged !!null): an artefact of a
// region the reference leaves open, not a value of the model
func tagContradictsKind(n *yqlib.CandidateNode) bool {
	if n == nil {
		return false
	}
	switch n.Kind {
	case yqlib.SequenceNode:
		if n.Tag != "" && n.Tag != "!!seq" {
			return true
		}
	case yqlib.MappingNode:
		if n.Tag != "" && n.Tag != "!!map" {
			return true
		}
	}
	for _, c := range n.Content {
		if tagContradictsKind(c) {
			return true
		}
	}
	return false
}

func hasNonStringKey(n *yqlib.CandidateNode) bool {
	if n == nil {
		return false
	}
	if n.Kind == yqlib.MappingNode {
		for i := 0; i+1 < len(n.Content); i += 2 {
			if n.Content[i].Tag != "!!str" || hasNonStringKey(n.Content[i+1]) {
				return true
			}
		}
		return false
	}
	for _, c := range n.Content {
		if hasNonStringKey(c) {
			return true
		}
	}
	return false
}

type evalStep struct {
	op   string
	expr string
	doc  string
	line []byte
}

// traceOne evaluates one (expression, document) pair with the handler tracer installed and returns the recorded steps
func traceOne(e M, d *AV, together bool) (steps []evalStep, traced bool) {
	text := exprText(e)
	tree, err := yqlib.ExpressionParser.ParseExpression(text)
	if err != nil || tree == nil {
		return nil, false
	}
	amap := map[*yqlib.ExpressionNode]M{}
	if !alignTree(tree, e, amap) {
		return nil, false
	}
	root, err := decodeJSON(d.JSON())
	if err != nil {
		return nil, false
	}
	root.EvaluateTogether = together
	type frame struct {
		node   *yqlib.ExpressionNode
		doc    *AV
		ctx    []interface{}
		env    []interface{}
		okIn   bool
		intKey bool // the document holds a map key that is no string (auto-created `.[0]` on a map): outside the model's maps
	}
	var stack []frame
	defer func() {
		yqlib.VerifSetTracer(nil)
		if r := recover(); r != nil {
			steps, traced = nil, false // crashes are C11's subject
		}
	}()
	yqlib.VerifSetTracer(func(ev *yqlib.VerifEvent) {
		if !ev.Exit {
			// the context is recorded on entry: handlers edit detached values in place
			ctx, ok1 := itemsOf(ev.In.MatchingNodes, root)
			env := []interface{}{}
			names := []string{}
			for name := range ev.In.Variables {
				names = append(names, name)
			}
			sort.Strings(names)
			okEnv := true
			for _, name := range names {
				its, k := itemsOf(ev.In.Variables[name], root)
				okEnv = okEnv && k
				env = append(env, []interface{}{name, its})
			}
			stack = append(stack, frame{ev.Node, alpha(root), ctx, env, ok1 && okEnv, hasNonStringKey(root)})
			return
		}
		if len(stack) == 0 {
			return
		}
		fr := stack[len(stack)-1]
		stack = stack[:len(stack)-1]
		ast, ok := amap[ev.Node]
		if !ok || fr.node != ev.Node || fr.intKey || hasNonStringKey(root) {
			return
		}
		ctx, env, ok1, okEnv := fr.ctx, fr.env, fr.okIn, true
		after := alpha(root)
		outVals := []interface{}{}
		okOut := true
		if ev.Err == nil && ev.Out.MatchingNodes != nil {
			for el := ev.Out.MatchingNodes.Front(); el != nil; el = el.Next() {
				v := alpha(el.Value.(*yqlib.CandidateNode))
				okOut = okOut && !v.hasForeign()
				outVals = append(outVals, v.toSpec())
			}
		}
		if !ok1 || !okEnv || !okOut || fr.doc.hasForeign() || after.hasForeign() {
			return
		}
		line, _ := json.Marshal(M{"ast": ast, "doc": fr.doc.toSpec(), "ctx": ctx, "ro": ev.In.DontAutoCreate, "tog": together, "env": env,
			"err": ev.Err != nil, "out": outVals, "after": after.toSpec()})
		steps = append(steps, evalStep{op: opOf(ast), expr: text, doc: d.JSON(), line: line})
	})
	ctx := yqlib.Context{MatchingNodes: list.New()}
	ctx.MatchingNodes.PushBack(root)
	_, _ = yqlib.NewDataTreeNavigator().GetMatchingNodes(ctx, tree)
	return steps, true
}

var traceMu sync.Mutex // the tracer is one global function variable

// validateHandlerSteps traces every k-th vector and lets TLC judge every recorded handler step
func validateHandlerSteps(rc *Run, g *genEvalResult, every int, prop string) error {
	if os.Getenv("VERIF_ISOLATE") != "" {
		rc.Logf("handler-step tracing is skipped in isolated mode (an evaluation kills the process)")
		return nil
	}
	traceMu.Lock()
	defer traceMu.Unlock()
	if cap := rc.Pick(6000, 20000); len(g.Vectors)/every > cap { // TLC reads the whole trace: keep it to a few hundred thousand steps
		every = len(g.Vectors) / cap
	}
	var all []evalStep
	evaluations, notAligned := 0, 0
	for i, v := range g.Vectors {
		if i%every != int(rc.Seed%int64(every)+int64(every))%every {
			continue
		}
		e, d := g.Exprs[v.Ei], g.Docs[v.Di]
		if e == nil || d == nil {
			continue
		}
		steps, ok := traceOne(e, d, v.Tog)
		if !ok {
			notAligned++
			continue
		}
		evaluations++
		all = append(all, steps...)
		if len(all) >= rc.Pick(40000, 60000) { // TLC judges every step by re-evaluating it: bound the trace
			break
		}
	}
	if len(all) == 0 {
		return machinery("handler tracing recorded no step (%d evaluations, %d not aligned)", evaluations, notAligned)
	}
	var nd bytes.Buffer
	for _, s := range all {
		nd.Write(s.line)
		nd.WriteString("\n")
	}
	bad := map[int]string{}
	var mu sync.Mutex
	reBad := regexp.MustCompile(`^<<"BAD", (\d+), "([^"]+)">>`)
	tv, err := RunTLC(rc, TLCOpts{Name: "trace-eval", Module: "Trace_Eval", Extra: map[string]string{"eval_events.ndjson": nd.String()},
		Cfg: "CONSTANTS\n Dev = {}\n Chunk = 200\nINIT Init\nNEXT Next\nINVARIANTS Judge\nCHECK_DEADLOCK FALSE\n", Timeout: 40 * time.Minute, HeapGB: 12,
		OnLine: func(line string) {
			if m := reBad.FindStringSubmatch(line); m != nil {
				var i int
				fmt.Sscan(m[1], &i)
				mu.Lock()
				bad[i] = m[2]
				mu.Unlock()
			}
		}})
	if err != nil {
		return err
	}
	if tv.InvariantViolated != "" {
		return machinery("Trace_Eval: %s %s", tv.InvariantViolated, tv.ErrorText)
	}
	for i, why := range bad {
		s := all[i-1]
		rc.Report("step-"+why+":"+s.op, fmt.Sprintf("while evaluating %s on %s the handler of %s took a step the reference evaluator does not allow (%s): %s", s.expr, s.doc, s.op, why, string(s.line)),
			M{"machine": "Eval", "concrete": M{"expr": s.expr, "input_json": s.doc}, "step": json.RawMessage(s.line)})
	}
	rc.Set("handler_steps_validated_by_TLC", len(all))
	rc.Set("evaluations_traced", evaluations)
	rc.Set("evaluations_not_traced_tree_shapes_differ", notAligned)
	if len(alignMiss) > 0 {
		rc.Logf("tree shapes that differ (real vs specification): %v", alignMiss)
	}
	rc.Logf("trace validation: %d handler steps of %d evaluations judged by TLC (%d not traced), %d rejected", len(all), evaluations, notAligned, len(bad))
	return nil
}
