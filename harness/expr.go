package main

import (
	"fmt"
	"os"
	"regexp"
	"runtime/debug"
	"strings"

	"github.com/mikefarah/yq/v4/pkg/yqlib"
)

// ---- gamma for expressions: spec AST (generic JSON) -> yq expression text.
// Every sub-expression is parenthesised so the text is independent of the precedence table
// (the parser is C09's subject, not C01's).

func litText(v *AV) string {
	switch v.K {
	case "seq":
		parts := make([]string, len(v.E))
		for i, e := range v.E {
			parts[i] = litText(e)
		}
		return "[" + strings.Join(parts, ", ") + "]"
	case "map":
		parts := make([]string, len(v.MK))
		for i := range v.MK {
			parts[i] = fmt.Sprintf("%q: %s", v.MK[i], litText(v.MV[i]))
		}
		return "{" + strings.Join(parts, ", ") + "}"
	}
	return v.JSON()
}

func opOf(e M) string { s, _ := e["op"].(string); return s }

func sub(e M, k string) M {
	if x, ok := e[k].(M); ok {
		return x
	}
	return nil
}

func isSelf(e M) bool { return e != nil && opOf(e) == "SELF" }

var unaryNames = map[string]string{"SELECT": "select", "MAP": "map", "FILTER": "filter", "HAS": "has", "ANY_CONDITION": "any_c",
	"ALL_CONDITION": "all_c", "UNIQUE_BY": "unique_by", "GROUP_BY": "group_by", "WITH_ENTRIES": "with_entries", "JOIN": "join",
	"SPLIT": "split", "SORT_BY": "sort_by", "MAP_VALUES": "map_values", "DELETE_CHILD": "del", "PICK": "pick", "OMIT": "omit",
	"SORT_KEYS": "sort_keys", "EXPLODE": "explode", "DEL_PATHS": "delpaths", "ERROR": "error"}
var nullaryNames = map[string]string{"LENGTH": "length", "KEYS": "keys", "REVERSE": "reverse", "UNIQUE": "unique", "ANY": "any", "ALL": "all",
	"TO_ENTRIES": "to_entries", "FROM_ENTRIES": "from_entries", "NOT": "not", "SORT": "sort", "MIN": "min", "MAX": "max",
	"GET_PATH": "path", "GET_KEY": "key", "GET_PARENT": "parent",
	"GET_TAG": "tag", "GET_KIND": "kind", "TO_STRING": "to_string", "TO_NUMBER": "to_number", "PIVOT": "pivot",
	"TRIM": "trim", "IS_KEY": "is_key", "GET_DOCUMENT_INDEX": "document_index", "GET_FILE_INDEX": "file_index", "GET_ANCHOR": "anchor"}

// the environment of Eval.tla's EnvTable ("vu" stays unset)
func init() {
	os.Setenv("va", "a")
	os.Setenv("vn", "2")
	os.Setenv("vt", "true")
	os.Unsetenv("vu")
}

var binaryNames = map[string]string{"PIPE": "|", "SHORT_PIPE": "|", "UNION": ",", "ADD": "+", "SUBTRACT": "-", "MULTIPLY": "*", "DIVIDE": "/",
	"MODULO": "%", "EQUALS": "==", "NOT_EQUALS": "!=", "AND": "and", "OR": "or", "ALTERNATIVE": "//",
	"ADD_ASSIGN": "+=", "SUBTRACT_ASSIGN": "-=", "MULTIPLY_ASSIGN": "*="}

// exprText renders the spec AST as yq text. sp is the spacing style: 0 = single spaces, 1 = none where safe.
func exprText(e M) string {
	op := opOf(e)
	switch op {
	case "SELF":
		return "."
	case "EMPTY":
		return "empty"
	case "TRAVERSE_PATH":
		return "." + strOfAtoms(e["key"])
	case "VALUE":
		return litText(fromSpec(e["v"]))
	case "GET_VARIABLE":
		return "$" + e["name"].(string)
	case "RECURSIVE_DESCENT":
		if e["keys"].(bool) {
			return "..."
		}
		return ".."
	case "FLATTEN_BY":
		d := num(e["depth"])
		if d < 0 {
			return "flatten"
		}
		return fmt.Sprintf("flatten(%d)", d)
	case "COLLECT":
		r := sub(e, "r")
		if opOf(r) == "EMPTY" {
			return "[]"
		}
		return "[" + exprText(r) + "]"
	case "COLLECT_OBJECT":
		return "{}"
	case "TRAVERSE_ARRAY":
		l, r := sub(e, "l"), sub(e, "r")
		lt := ""
		if isSelf(l) {
			lt = "."
		} else if opOf(l) == "TRAVERSE_PATH" {
			lt = exprText(l)
		} else {
			lt = "(" + exprText(l) + ")"
		}
		inner := sub(r, "r")
		switch opOf(inner) {
		case "EMPTY":
			return lt + "[]"
		case "CREATE_MAP":
			a, b := sub(inner, "l"), sub(inner, "r")
			at, bt := exprText(a), exprText(b)
			if opOf(b) == "LENGTH" {
				bt = ""
			}
			return lt + "[" + at + ":" + bt + "]"
		}
		return lt + "[" + exprText(inner) + "]"
	case "COMPARE":
		sym := "<"
		if e["greater"].(bool) {
			sym = ">"
		}
		if e["oreq"].(bool) {
			sym += "="
		}
		return "(" + exprText(sub(e, "l")) + " " + sym + " " + exprText(sub(e, "r")) + ")"
	case "CONTAINS":
		return "contains(" + exprText(sub(e, "r")) + ")"
	case "ASSIGN":
		sym := "="
		if u, _ := e["update"].(bool); u {
			sym = "|="
		}
		return "(" + exprText(sub(e, "l")) + " " + sym + " " + exprText(sub(e, "r")) + ")"
	case "CHANGE_CASE":
		if u, _ := e["upper"].(bool); u {
			return "upcase"
		}
		return "downcase"
	case "ENV":
		if st, _ := e["str"].(bool); st {
			return "strenv(" + e["name"].(string) + ")"
		}
		return "env(" + e["name"].(string) + ")"
	case "GET_PARENT":
		if l, ok := e["level"]; ok {
			return fmt.Sprintf("parent(%d)", int(num(l)))
		}
		return "parent"
	case "WITH":
		return "with(" + exprText(sub(e, "l")) + "; " + exprText(sub(e, "r")) + ")"
	case "SET_PATH":
		return "setpath(" + exprText(sub(e, "l")) + "; " + exprText(sub(e, "r")) + ")"
	case "REDUCE":
		av, blk := sub(e, "l"), sub(e, "r")
		return "(" + exprText(sub(av, "l")) + " as $" + sub(av, "r")["name"].(string) + " ireduce (" + exprText(sub(blk, "l")) + "; " + exprText(sub(blk, "r")) + "))"
	case "PIPE", "SHORT_PIPE":
		l, r := sub(e, "l"), sub(e, "r")
		if opOf(l) == "ASSIGN_VARIABLE" {
			kw := " as $"
			if isref, _ := l["isref"].(bool); isref {
				kw = " ref $"
			}
			return "(" + exprText(sub(l, "l")) + kw + sub(l, "r")["name"].(string) + " | " + exprText(r) + ")"
		}
		if opOf(l) == "CREATE_MAP" && opOf(r) == "COLLECT_OBJECT" {
			k, v := sub(l, "l"), sub(l, "r")
			kt := "(" + exprText(k) + ")"
			if opOf(k) == "VALUE" && fromSpec(k["v"]).K == "str" {
				kt = exprText(k)
			}
			return "{" + kt + ": " + exprText(v) + "}"
		}
		return "(" + exprText(l) + " | " + exprText(r) + ")"
	}
	if n, ok := unaryNames[op]; ok {
		return n + "(" + exprText(sub(e, "r")) + ")"
	}
	if n, ok := nullaryNames[op]; ok {
		return n
	}
	if n, ok := binaryNames[op]; ok {
		return "(" + exprText(sub(e, "l")) + " " + n + " " + exprText(sub(e, "r")) + ")"
	}
	panic("exprText: unknown op " + op)
}

// skeleton gives the operator structure of an expression up to a small depth (used in fingerprints).
func skeleton(e M, depth int) string {
	if e == nil {
		return ""
	}
	op := opOf(e)
	if depth == 0 {
		return op
	}
	parts := []string{}
	for _, k := range []string{"l", "r"} {
		if s := sub(e, k); s != nil {
			parts = append(parts, skeleton(s, depth-1))
		}
	}
	if len(parts) == 0 {
		return op
	}
	return op + "(" + strings.Join(parts, ",") + ")"
}

func opsIn(e M, acc map[string]bool) {
	if e == nil {
		return
	}
	acc[opOf(e)] = true
	opsIn(sub(e, "l"), acc)
	opsIn(sub(e, "r"), acc)
}

// ---- running the real evaluator

type realOutcome struct {
	St      string // ok | err | panic | hang
	Res     []*AV
	After   *AV
	ErrText string
	Nodes   []*yqlib.CandidateNode
	// for St == "panic": the innermost frame of the yq module on the panicking stack
	PanicSite string
}

var rePanicFrame = regexp.MustCompile(`(?m)^github\.com/mikefarah/yq/v4/(?:pkg/yqlib|cmd)\.([^\s(]+)\(`)

// panicSite extracts the innermost yq function from a stack dump (debug.Stack() or a crashed process' stderr).
func panicSite(stack []byte) string {
	s := string(stack)
	if i := strings.Index(s, "panic("); i >= 0 {
		s = s[i:]
	}
	for _, m := range rePanicFrame.FindAllStringSubmatch(s, -1) {
		f := m[1]
		if strings.HasPrefix(f, "Verif") || strings.HasPrefix(f, "verif") || strings.Contains(f, "func") && strings.HasPrefix(f, "verifWrap") {
			continue
		}
		return strings.TrimSuffix(strings.TrimPrefix(f, "(*"), ")")
	}
	return "unknown"
}

// evalReal decodes docJSON with yq's JSON decoder and evaluates expr in-process, under recover().
func evalReal(expr, docJSON string, together bool) (out realOutcome) {
	root, err := decodeJSON(docJSON)
	if err != nil {
		return realOutcome{St: "decode-err", ErrText: err.Error()}
	}
	return evalRealOn(expr, root, together)
}

func evalRealOn(expr string, root *yqlib.CandidateNode, together bool) (out realOutcome) {
	defer func() {
		if r := recover(); r != nil {
			out = realOutcome{St: "panic", ErrText: fmt.Sprint(r), After: alpha(root), PanicSite: panicSite(debug.Stack())}
		}
	}()
	root.EvaluateTogether = together
	res, err := yqlib.NewAllAtOnceEvaluator().EvaluateNodes(expr, root)
	if err != nil {
		return realOutcome{St: "err", ErrText: err.Error(), After: alpha(root)}
	}
	out.St = "ok"
	for el := res.Front(); el != nil; el = el.Next() {
		n := el.Value.(*yqlib.CandidateNode)
		out.Nodes = append(out.Nodes, n)
		out.Res = append(out.Res, alpha(n))
	}
	out.After = alpha(root)
	return out
}
