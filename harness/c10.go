package main

import (
	"bytes"
	"context"
	"encoding/json"
	"fmt"
	"os"
	"os/exec"
	"path/filepath"
	"runtime"
	"strings"
	"sync"
	"time"
)

func init() { register("C10", checkC10) }

type sDoc struct{ Kind, Lead string }

type sTok struct {
	Sep     bool
	F, D, K int
	C       bool // printed with the leading comment of its document
}

type sVec struct {
	Files [][]sDoc
	X     string
	NoSep bool
	Out   []sTok
	Ref   []sTok
}

var streamExpr = map[string]string{"id": ".", "one": ".v", "two": ".v, .w", "sel": "select(.k == 1) | .v", "fi": "file_index", "di": "document_index",
	"fn": "filename", "srt": "select(.l) | .l | sort | .[0]", "var": ".v as $x | $x",
	"obj": `{"v": .v}`, "objfi": `{"v": .v} | file_index`, "objfn": `{"v": .v} | filename`, "coldi": `[.v] | document_index`}

func renderDoc(d sDoc, f, di int) string {
	lead := ""
	switch d.Lead {
	case "sep":
		lead = "---\n"
	case "sepc":
		lead = fmt.Sprintf("---\n# lead f%dd%d\n", f, di)
	case "c":
		lead = fmt.Sprintf("# lead f%dd%d\n", f, di)
	}
	id := fmt.Sprintf("f%dd%d", f, di)
	switch d.Kind {
	case "map":
		k := 0
		if (f+di)%2 == 1 {
			k = 1
		}
		return lead + fmt.Sprintf("v: %sv\nw: %sw\nk: %d\nl: [%s2, %s1]\n", id, id, k, id, id)
	case "scalar":
		return lead + id + "s\n"
	}
	return fmt.Sprintf("# only f%d\n", f) // comment-only file
}

// expected lines of result k of class x on document (f, d) of the given kind ("none": the no-document fallback)
func expectedLines(x, kind string, f, d, k int, filename string) []string {
	id := fmt.Sprintf("f%dd%d", f, d)
	sel := 0
	if (f+d)%2 == 1 {
		sel = 1
	}
	switch x {
	case "id":
		switch kind {
		case "map":
			return []string{"v: " + id + "v", "w: " + id + "w", fmt.Sprintf("k: %d", sel), "l: [" + id + "2, " + id + "1]"}
		case "scalar":
			return []string{id + "s"}
		}
		return nil
	case "one", "two":
		if kind == "map" {
			return []string{id + map[int]string{1: "v", 2: "w"}[k]}
		}
		return []string{"null"}
	case "var", "sel":
		return []string{id + "v"}
	case "obj":
		if kind == "map" {
			return []string{"v: " + id + "v"}
		}
		return []string{"v: null"}
	case "fi", "objfi":
		return []string{fmt.Sprint(f)}
	case "di", "coldi":
		return []string{fmt.Sprint(d)}
	case "fn", "objfn":
		if filename == "" {
			return nil
		}
		return []string{filename}
	case "srt":
		return []string{id + "1"}
	}
	return nil
}

func runYq(dir string, args ...string) (stdout string, code int, err error) {
	ctx, cancel := context.WithTimeout(context.Background(), 30*time.Second)
	defer cancel()
	cmd := exec.CommandContext(ctx, filepath.Join(verifHome, "out", "bin", "yq"), args...)
	cmd.Dir = dir
	var out, errb bytes.Buffer
	cmd.Stdout = &out
	cmd.Stderr = &errb
	e := cmd.Run()
	if ctx.Err() != nil {
		return "", -1, fmt.Errorf("timeout")
	}
	if e != nil {
		if ee, ok := e.(*exec.ExitError); ok {
			return out.String(), ee.ExitCode(), nil
		}
		return "", -1, e
	}
	return out.String(), 0, nil
}

// tokenise stdout into "---" separators and content lines (comment and blank lines are presentation, dropped - except the
// leading comments of map documents, which name their document: keep lists them)
func tokeniseOut(s string, keep ...map[string]bool) []string {
	var toks []string
	for _, l := range strings.Split(s, "\n") {
		t := strings.TrimRight(l, " ")
		if len(keep) > 0 && keep[0][t] {
			toks = append(toks, t)
			continue
		}
		if t == "" || strings.HasPrefix(strings.TrimSpace(t), "#") {
			continue
		}
		toks = append(toks, t)
	}
	for len(toks) > 0 && toks[0] == "---" {
		toks = toks[1:] // an explicit `---` before the first document is re-emitted: not a separator BETWEEN documents
	}
	return toks
}

func parseToks(x interface{}) []sTok {
	var out []sTok
	if x == nil {
		return out
	}
	for _, e := range x.([]interface{}) {
		m := e.(M)
		c, _ := m["c"].(bool)
		out = append(out, sTok{Sep: m["sep"].(bool), F: int(num(m["f"])), D: int(num(m["d"])), K: int(num(m["k"])), C: c})
	}
	return out
}

func checkC10(rc *Run) error {
	rc.Level = "model_checking"
	level := rc.Pick(1, 2)
	var vecs []sVec
	var mu sync.Mutex
	res, err := RunTLC(rc, TLCOpts{Name: "gen", Module: "Gen_Stream", Cfg: fmt.Sprintf("CONSTANTS\n Dev = {}\n Level = %d\nINIT GInit\nNEXT Next\nINVARIANTS Refines IdentityCount Emit\nCHECK_DEADLOCK FALSE\n", level),
		Timeout: time.Duration(rc.Pick(10, 40)) * time.Minute, HeapGB: 12,
		OnVector: func(js []byte) {
			var m M
			if json.Unmarshal(js, &m) != nil {
				return
			}
			v := sVec{X: m["x"].(string), NoSep: m["noSep"].(bool), Out: parseToks(m["out"]), Ref: parseToks(m["ref"])}
			if fs, ok := m["files"].([]interface{}); ok {
				for _, f := range fs {
					var docs []sDoc
					if f != nil {
						for _, d := range f.([]interface{}) {
							dm := d.(M)
							docs = append(docs, sDoc{dm["kind"].(string), dm["lead"].(string)})
						}
					}
					v.Files = append(v.Files, docs)
				}
			}
			mu.Lock()
			vecs = append(vecs, v)
			mu.Unlock()
		}})
	if err != nil {
		return err
	}
	if res.InvariantViolated != "" {
		return machinery("the stream machine does not refine its reference on the model: %s\n%s", res.InvariantViolated, res.ErrorText)
	}
	if len(vecs) == 0 {
		return machinery("Gen_Stream produced no vectors")
	}
	rc.Logf("TLC: stream machine refines RefOut on %d states; %d layouts x classes x -N", res.Distinct, len(vecs))
	// quick tier: a seed-chosen half of the vectors (the space is fixed, the seed picks the shard)
	nsh := rc.Pick(2, 1)
	compared, eaCompared, jsonCompared := 0, 0, 0
	jobs := make(chan [2]int, 256)
	var wg sync.WaitGroup
	for w := 0; w < runtime.NumCPU(); w++ {
		wg.Add(1)
		go func(w int) {
			defer wg.Done()
			for j := range jobs {
				v := vecs[j[0]]
				dir := filepath.Join(rc.Out, fmt.Sprintf("w%d", w))
				os.RemoveAll(dir)
				os.MkdirAll(dir, 0o755)
				var names []string
				kinds := map[[2]int]string{}
				ndocs := 0
				hasCommentOnly := false
				leadOf := map[string]bool{} // the leading comments of map documents: each is printed with its own document only
				for fi, f := range v.Files {
					name := fmt.Sprintf("f%d.yml", fi)
					var sb strings.Builder
					for di, d := range f {
						sb.WriteString(renderDoc(d, fi, di))
						kinds[[2]int{fi, di}] = d.Kind
						if d.Kind == "map" && (d.Lead == "sepc" || d.Lead == "c") {
							leadOf[fmt.Sprintf("# lead f%dd%d", fi, di)] = true
						}
						ndocs++
						if d.Kind == "comment" {
							hasCommentOnly = true // zero YAML documents; eval keeps it as a blank node, eval-all does not
						}
					}
					os.WriteFile(filepath.Join(dir, name), []byte(sb.String()), 0o644)
					names = append(names, name)
				}
				var want []string
				for _, t := range v.Ref {
					if t.Sep {
						want = append(want, "---")
						continue
					}
					kind := kinds[[2]int{t.F, t.D}]
					fn := ""
					if ndocs == 0 {
						kind = "none"
					} else {
						fn = fmt.Sprintf("f%d.yml", t.F)
					}
					if t.C {
						want = append(want, fmt.Sprintf("# lead f%dd%d", t.F, t.D))
					}
					want = append(want, expectedLines(v.X, kind, t.F, t.D, t.K, fn)...)
				}
				for len(want) > 0 && want[0] == "---" {
					want = want[1:] // results without visible lines (comment-only documents) leave a leading separator: same normalisation as the output
				}
				args := []string{}
				if v.NoSep {
					args = append(args, "-N")
				}
				args = append(args, streamExpr[v.X])
				args = append(args, names...)
				out, code, err := runYq(dir, args...)
				mu.Lock()
				compared++
				if compared%3000 == 1 {
					rc.Sample(M{"argv": args, "files": v.Files, "expected_tokens": want})
				}
				mu.Unlock()
				if err != nil {
					rc.Add("machinery_run_errors", 1)
					continue
				}
				got := tokeniseOut(out, leadOf)
				if code != 0 || strings.Join(got, "\n") != strings.Join(want, "\n") {
					out2, code2, _ := runYq(dir, args...)
					if out2 != out || code2 != code {
						rc.Add("flaky_mismatches", 1)
						continue
					}
					kind := "content"
					if code != 0 {
						kind = "exit-status"
					} else if countSep(got) > countSep(want) {
						kind = "extra-separator"
					} else if countSep(got) < countSep(want) {
						kind = "missing-separator"
					} else if len(got) != len(want) {
						kind = "result-count"
						if strings.Join(tokeniseOut(out), "\n") == strings.Join(tokeniseOut(strings.Join(want, "\n")), "\n") {
							kind = "leading-comment-of-another-document"
						}
					}
					fp := fmt.Sprintf("stream-%s:%s:files=%d:N=%v", kind, v.X, len(v.Files), v.NoSep)
					inputs := M{}
					for _, n := range names {
						b, _ := os.ReadFile(filepath.Join(dir, n))
						inputs[n] = string(b)
					}
					rc.Report(fp, fmt.Sprintf("yq %s: expected tokens %q, got %q (exit %d)", strings.Join(args, " "), want, got, code),
						M{"machine": "Stream", "concrete": M{"argv": append([]string{"yq"}, args...), "inputs": inputs}, "expected": want, "observed": got, "exit": code})
					continue
				}
				// the same layout as a JSON stream (one document per line): document indices and separators must not depend on the decoder
				if v.X != "id" && !hasCommentOnly && plainLeads(v.Files) {
					var jnames []string
					for fi, f := range v.Files {
						name := fmt.Sprintf("f%d.json", fi)
						var sb strings.Builder
						for di, d := range f {
							sb.WriteString(renderJSONDoc(d, fi, di))
						}
						os.WriteFile(filepath.Join(dir, name), []byte(sb.String()), 0o644)
						jnames = append(jnames, name)
					}
					jargs := []string{"-p=json", "-o=yaml"}
					if v.NoSep {
						jargs = append(jargs, "-N")
					}
					jargs = append(jargs, streamExpr[v.X])
					jargs = append(jargs, jnames...)
					jout, jcode, jerr := runYq(dir, jargs...)
					jwant := make([]string, len(want))
					for i, w := range want {
						jwant[i] = strings.ReplaceAll(w, ".yml", ".json")
					}
					mu.Lock()
					jsonCompared++
					mu.Unlock()
					if jerr == nil && (jcode != 0 || strings.Join(tokeniseOut(jout), "\n") != strings.Join(jwant, "\n")) {
						rc.Report(fmt.Sprintf("stream-json-input:%s:files=%d:N=%v", v.X, len(v.Files), v.NoSep), fmt.Sprintf("yq %s: expected tokens %q, got %q (exit %d)", strings.Join(jargs, " "), jwant, tokeniseOut(jout), jcode),
							M{"machine": "Stream", "concrete": M{"argv": append([]string{"yq"}, jargs...)}, "expected": jwant, "observed": tokeniseOut(jout)})
					}
				}
				// single-document input: eval-all agrees with eval
				if ndocs == 1 && !hasCommentOnly && v.X != "fn" {
					eaArgs := append([]string{"ea"}, args...)
					outEa, codeEa, err := runYq(dir, eaArgs...)
					mu.Lock()
					eaCompared++
					mu.Unlock()
					if err == nil && (codeEa != code || strings.Join(tokeniseOut(outEa, leadOf), "\n") != strings.Join(got, "\n")) {
						rc.Report(fmt.Sprintf("ea-differs-from-eval:%s", v.X), fmt.Sprintf("yq ea %s: %q, yq eval: %q", strings.Join(args, " "), tokeniseOut(outEa), got),
							M{"machine": "Stream", "concrete": M{"argv": append([]string{"yq"}, eaArgs...)}, "expected": got, "observed": tokeniseOut(outEa)})
					}
				}
			}
		}(w)
	}
	shard := int(rc.Seed % int64(nsh))
	if shard < 0 {
		shard = -shard
	}
	for i := range vecs {
		if i%nsh == shard {
			jobs <- [2]int{i, 0}
		}
	}
	close(jobs)
	wg.Wait()
	// the same clause through the other OUTPUT encoders: a stream of documents (with leading comments) printed as xml / json /
	// props / lua / csv is what each document printed alone gives, in order - an encoder keeps nothing from one document to the next
	{
		odir := filepath.Join(rc.Out, "outfmt")
		os.MkdirAll(odir, 0o755)
		docs := []string{"# lead one\na: 1\nb: x\n", "c: 2\n", "# lead three\nd:\n  e: 3\n", "f: [4, 5]\n"}
		for _, of := range []string{"xml", "json", "props", "lua", "yaml", "shell", "toml"} {
			for _, order := range [][]int{{0, 1}, {1, 0, 1}, {0, 1, 2, 3}, {2, 1, 0}, {0, 0}} {
				if of == "toml" { // the TOML encoder prints scalars only
					continue
				}
				var stream strings.Builder
				var alone []string
				bad := false
				for i, di := range order {
					if i > 0 {
						stream.WriteString("---\n")
					}
					stream.WriteString(docs[di])
					os.WriteFile(filepath.Join(odir, "one.yml"), []byte(docs[di]), 0o644)
					out, code, err := runYq(odir, "-o="+of, ".", "one.yml")
					if err != nil || code != 0 {
						bad = true
						break
					}
					alone = append(alone, out)
				}
				if bad {
					continue
				}
				os.WriteFile(filepath.Join(odir, "stream.yml"), []byte(stream.String()), 0o644)
				out, code, err := runYq(odir, "-o="+of, ".", "stream.yml")
				if err != nil {
					continue
				}
				compared++
				strip := func(s string) string { // document separators are the printer's business (Stream.tla), not the encoder's
					var keep []string
					for _, l := range strings.Split(s, "\n") {
						if l != "---" {
							keep = append(keep, l)
						}
					}
					return strings.Join(keep, "\n")
				}
				// comment lines: none may be invented or repeated (a later document's comment may be dropped by an encoder that
				// only prints the comment in front of the FIRST document of a file: presentation, C05)
				isComment := func(l string) bool {
					t := strings.TrimSpace(l)
					return strings.HasPrefix(t, "#") || strings.HasPrefix(t, "<!--") || strings.HasPrefix(t, "--")
				}
				split := func(s string) (content []string, comments map[string]int) {
					comments = map[string]int{}
					for _, l := range strings.Split(strip(s), "\n") {
						if isComment(l) {
							comments[strings.TrimSpace(l)]++
						} else {
							content = append(content, l)
						}
					}
					return
				}
				gotC, gotCm := split(out)
				wantC, wantCm := split(strings.Join(alone, ""))
				invented := ""
				for c, n := range gotCm {
					if n > wantCm[c] {
						invented = c
					}
				}
				if code != 0 || strings.Join(gotC, "\n") != strings.Join(wantC, "\n") || invented != "" {
					rc.Report("encoder-carries-state-across-documents:"+of, fmt.Sprintf("yq -o=%s . on the stream %q prints %q (exit %d); the documents alone give %q", of, stream.String(), out, code, alone),
						M{"machine": "Stream", "concrete": M{"argv": []string{"yq", "-o=" + of, ".", "stream.yml"}, "inputs": M{"stream.yml": stream.String()}}, "expected": strings.Join(alone, ""), "observed": out})
				}
			}
		}
	}
	// the first clause on the other input formats: files f1 f2 f3 of one format yield, in order, what each yields alone
	type fmtFiles struct {
		format, ext string
		texts       []string
	}
	for _, ff := range []fmtFiles{
		{"json", "json", []string{"{\"a\": 1}\n", "{\"b\": [2]}\n", "3\n"}},
		{"csv", "csv", []string{"a,b\n1,2\n", "c\nx\n", "a,b\n3,4\n"}},
		{"tsv", "tsv", []string{"a\tb\n1\t2\n", "c\nx\n", "a\tb\n3\t4\n"}},
		{"props", "properties", []string{"a = 1\n", "b.c = two\n", "d = 3\n"}},
		{"xml", "xml", []string{"<a>1</a>\n", "<b><c>2</c></b>\n", "<d/>\n"}},
		{"toml", "toml", []string{"a = 1\n", "[b]\nc = 2\n", "d = [3]\n"}},
		{"lua", "lua", []string{"return {a = 1}\n", "return {b = {2}}\n", "return {d = \"3\"}\n"}},
	} {
		fdir := filepath.Join(rc.Out, "formats", ff.format)
		os.MkdirAll(fdir, 0o755)
		var names []string
		var alone []string
		for i, t := range ff.texts {
			n := fmt.Sprintf("f%d.%s", i, ff.ext)
			os.WriteFile(filepath.Join(fdir, n), []byte(t), 0o644)
			names = append(names, n)
			out, code, err := runYq(fdir, "-p="+ff.format, "-o=json", "-I0", ".", n)
			if err != nil || code != 0 {
				return machinery("yq cannot read the %s sample %q alone", ff.format, t)
			}
			alone = append(alone, strings.TrimSpace(out))
		}
		for _, sub := range []string{"", "ea"} {
			args := []string{}
			if sub != "" {
				args = append(args, sub)
			}
			args = append(append(args, "-p="+ff.format, "-o=json", "-I0", "."), names...)
			out, code, err := runYq(fdir, args...)
			if err != nil {
				continue
			}
			got := strings.Fields(strings.ReplaceAll(out, "---", ""))
			if code != 0 || strings.Join(got, " ") != strings.Join(alone, " ") {
				rc.Report("files-of-format:"+ff.format+":"+sub, fmt.Sprintf("yq %s prints %q (exit %d); each file alone gives %q", strings.Join(args, " "), out, code, alone),
					M{"machine": "Stream", "concrete": M{"argv": append([]string{"yq"}, args...), "files": ff.texts}})
			}
		}
	}
	rc.Set("states", res.Distinct)
	rc.Set("transitions", res.Generated)
	rc.Set("traces_validated_against_impl", compared)
	rc.Set("eval_all_vs_eval_comparisons", eaCompared)
	rc.Set("json_stream_variants_compared", jsonCompared)
	rc.Set("layouts_x_classes", len(vecs))
	rc.Set("invariants_checked_on_model", []string{"Refines", "IdentityCount"})
	rc.Set("exhaustive", nsh == 1)
	rc.Assume("stdout is compared as a token stream: `---` lines and content lines; comment and blank lines are presentation (C05), a `---` before the first document is not a separator between documents")
	return nil
}

func plainLeads(files [][]sDoc) bool {
	for _, f := range files {
		for _, d := range f {
			if d.Lead == "sepc" || d.Lead == "c" {
				return false
			}
		}
	}
	return true
}

func renderJSONDoc(d sDoc, f, di int) string {
	id := fmt.Sprintf("f%dd%d", f, di)
	if d.Kind == "map" {
		k := 0
		if (f+di)%2 == 1 {
			k = 1
		}
		return fmt.Sprintf(`{"v":"%sv","w":"%sw","k":%d,"l":["%s2","%s1"]}`+"\n", id, id, k, id, id)
	}
	return `"` + id + `s"` + "\n"
}

func countSep(t []string) int {
	n := 0
	for _, x := range t {
		if x == "---" {
			n++
		}
	}
	return n
}
