package main

import (
	"bufio"
	"context"
	"encoding/json"
	"fmt"
	"io"
	"os"
	"os/exec"
	"path/filepath"
	"regexp"
	"runtime"
	"strconv"
	"strings"
	"syscall"
	"time"
)

const tlaJars = "/opt/veriftools/tla/tla2tools.jar:/opt/veriftools/tla/CommunityModules-deps.jar"

type TLCOpts struct {
	Name     string            // scratch sub-directory name
	Module   string            // module to run (file Module.tla in /verif/spec or Extra)
	Cfg      string            // contents of the .cfg file
	Extra    map[string]string // extra files (name -> contents) written next to the specs (traces, generated modules)
	Workers  int
	Timeout  time.Duration
	HeapGB   int
	Simulate string // e.g. "num=1000" -> -simulate num=1000
	Depth    int
	Seed     int64
	Deque    bool // depth-first queue (trace validation with branching)
	Coverage bool
	OnLine   func(line string) // every stdout line
	OnVector func(js []byte)   // every `@@` vector line, JSON-unquoted
}

type TLCResult struct {
	Generated, Distinct int64
	Diameter            int
	ExitCode            int
	InvariantViolated   string // name of violated invariant / property, "" if none
	ErrorText           string // first TLC "Error:" block
	Vectors             int64
	Tail                []string
	Wall                time.Duration
	CoverageZero        []string
}

var reStates = regexp.MustCompile(`^(\d+) states generated, (\d+) distinct states found`)
var reDepth = regexp.MustCompile(`^The depth of the complete state graph search is (\d+)`)
var reInv = regexp.MustCompile(`^Error: Invariant (\S+) is violated`)
var reProp = regexp.MustCompile(`^Error: (Action property|Temporal properties|Property) (.*)`)

func specDir() string { return filepath.Join(verifHome, "spec") }

// RunTLC runs TLC on a module of /verif/spec in a private scratch directory.
// A non-nil error is always a machinery problem (TLC could not run, timed out, spec error);
// invariant violations are reported in the result, not as errors.
func RunTLC(rc *Run, o TLCOpts) (*TLCResult, error) {
	dir := filepath.Join(rc.Out, "tlc-"+o.Name)
	os.RemoveAll(dir)
	if err := os.MkdirAll(dir, 0o755); err != nil {
		return nil, machinery("mkdir: %v", err)
	}
	defer func() {
		os.RemoveAll(filepath.Join(dir, "meta"))
		os.RemoveAll(filepath.Join(dir, "states"))
	}()
	files, _ := filepath.Glob(filepath.Join(specDir(), "*.tla"))
	for _, f := range files {
		b, err := os.ReadFile(f)
		if err != nil {
			return nil, machinery("read spec: %v", err)
		}
		os.WriteFile(filepath.Join(dir, filepath.Base(f)), b, 0o644)
	}
	for n, c := range o.Extra {
		os.WriteFile(filepath.Join(dir, n), []byte(c), 0o644)
	}
	cfg := o.Cfg
	if cfg == "" {
		b, err := os.ReadFile(filepath.Join(specDir(), o.Module+".cfg"))
		if err != nil {
			return nil, machinery("no cfg for %s: %v", o.Module, err)
		}
		cfg = string(b)
	}
	os.WriteFile(filepath.Join(dir, o.Module+".cfg"), []byte(cfg), 0o644)
	if o.Workers <= 0 {
		o.Workers = runtime.NumCPU()
	}
	if o.Timeout <= 0 {
		o.Timeout = 10 * time.Minute
	}
	if o.HeapGB <= 0 {
		o.HeapGB = 8
	}
	args := []string{"-XX:+UseParallelGC", "-Xss256m", fmt.Sprintf("-Xmx%dg", o.HeapGB)}
	if o.Deque {
		args = append(args, "-Dtlc2.tool.queue.IStateQueue=StateDeque")
	}
	args = append(args, "-cp", tlaJars, "tlc2.TLC", "-metadir", filepath.Join(dir, "meta"), "-workers", strconv.Itoa(o.Workers), "-noGenerateSpecTE")
	if o.Simulate != "" {
		args = append(args, "-simulate", o.Simulate)
		if o.Depth > 0 {
			args = append(args, "-depth", strconv.Itoa(o.Depth))
		}
		if o.Seed != 0 {
			args = append(args, "-seed", strconv.FormatInt(o.Seed, 10))
		}
	}
	if o.Coverage {
		args = append(args, "-coverage", "1")
	}
	args = append(args, "-config", o.Module+".cfg", o.Module+".tla")
	ctx, cancel := context.WithTimeout(context.Background(), o.Timeout)
	defer cancel()
	cmd := exec.CommandContext(ctx, "java", args...)
	cmd.Dir = dir
	cmd.SysProcAttr = &syscall.SysProcAttr{Setpgid: true}
	cmd.Cancel = func() error { return syscall.Kill(-cmd.Process.Pid, syscall.SIGKILL) }
	env := []string{}
	for _, e := range os.Environ() {
		if !strings.HasPrefix(e, "JAVA_TOOL_OPTIONS=") {
			env = append(env, e)
		}
	}
	cmd.Env = env
	stdout, err := cmd.StdoutPipe()
	if err != nil {
		return nil, machinery("pipe: %v", err)
	}
	cmd.Stderr = cmd.Stdout
	logf, _ := os.Create(filepath.Join(dir, "tlc.log"))
	defer logf.Close()
	start := time.Now()
	if err := cmd.Start(); err != nil {
		return nil, machinery("cannot start java: %v", err)
	}
	res := &TLCResult{}
	rd := bufio.NewReaderSize(stdout, 1<<20)
	inErr := false
	for {
		line, err := readLongLine(rd)
		if len(line) > 0 {
			if strings.HasPrefix(line, "\"@@") {
				res.Vectors++
				if o.OnVector != nil {
					var s string
					if e := json.Unmarshal([]byte(line), &s); e == nil {
						o.OnVector([]byte(s[2:]))
					} else {
						res.ErrorText += "unparsable vector line: " + e.Error() + "\n"
					}
				}
			} else {
				fmt.Fprintln(logf, line)
				if o.OnLine != nil {
					o.OnLine(line)
				}
				if m := reStates.FindStringSubmatch(line); m != nil {
					res.Generated, _ = strconv.ParseInt(m[1], 10, 64)
					res.Distinct, _ = strconv.ParseInt(m[2], 10, 64)
				} else if m := reDepth.FindStringSubmatch(line); m != nil {
					res.Diameter, _ = strconv.Atoi(m[1])
				} else if m := reInv.FindStringSubmatch(line); m != nil {
					res.InvariantViolated = m[1]
				} else if m := reProp.FindStringSubmatch(line); m != nil && res.InvariantViolated == "" {
					res.InvariantViolated = m[2]
				}
				if strings.HasPrefix(line, "Error:") {
					inErr = true
				}
				if inErr && len(res.ErrorText) < 4000 {
					res.ErrorText += line + "\n"
				}
				if strings.HasSuffix(line, ": 0") && strings.HasPrefix(line, "<") {
					res.CoverageZero = append(res.CoverageZero, line)
				}
				res.Tail = append(res.Tail, line)
				if len(res.Tail) > 40 {
					res.Tail = res.Tail[1:]
				}
			}
		}
		if err != nil {
			break
		}
	}
	werr := cmd.Wait()
	res.Wall = time.Since(start)
	if ctx.Err() == context.DeadlineExceeded {
		return res, machinery("TLC %s timed out after %v", o.Name, o.Timeout)
	}
	if werr != nil {
		if ee, ok := werr.(*exec.ExitError); ok {
			res.ExitCode = ee.ExitCode()
		} else {
			return res, machinery("TLC %s: %v", o.Name, werr)
		}
	}
	// exit codes: 0 ok, 12 safety violation, 13 liveness violation; everything else is a spec/tool error
	switch res.ExitCode {
	case 0, 12, 13:
		return res, nil
	}
	return res, machinery("TLC %s failed (exit %d):\n%s\n%s", o.Name, res.ExitCode, res.ErrorText, strings.Join(res.Tail, "\n"))
}

func readLongLine(rd *bufio.Reader) (string, error) {
	var sb strings.Builder
	for {
		chunk, isPrefix, err := rd.ReadLine()
		sb.Write(chunk)
		if err != nil {
			if err == io.EOF {
				return sb.String(), err
			}
			return sb.String(), err
		}
		if !isPrefix {
			return sb.String(), nil
		}
	}
}
