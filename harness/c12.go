package main

import (
	"bufio"
	"bytes"
	"context"
	"encoding/json"
	"fmt"
	"os"
	"os/exec"
	"path/filepath"
	"regexp"
	"runtime"
	"strings"
	"sync"
	"syscall"
	"time"
)

func init() { register("C12", checkC12) }

// ---- concrete (expression, content) pairs per evaluation kind of InPlace.tla

type ipCase struct {
	Eval    string
	Expr    string
	Content string
	Flags   []string
}

var ipCases = []ipCase{
	{"ok", `.a = 2`, "# head\na: 1\nb: [1, 2]\n# foot\n", nil},
	{"ok", `del(.b) | del(.c)`, "a: 1\nb: [1, 2, 3, 4, 5, 6, 7, 8, 9, 10]\nc: \"a long string that makes the old content much longer than the new one ....................\"\n", nil},
	{"ok", `.c = "` + strings.Repeat("x", 300) + `"`, "a: 1\n", nil},
	{"ok", `.x = 1`, "a: 1\n---\nb: 2\n", nil},
	{"okempty", `select(.a == 5)`, "a: 1\n", nil}, // no result at all: the same command without -i prints nothing, so the file becomes empty
	{"okempty", `.nothing[]`, "a: 1\nb: 2\n", []string{"-o=json"}},
	{"parsefail", `.a = = 2`, "a: 1\n", nil},
	{"parsefail", `.a)(`, "a: 1\n", nil},
	{"decodefail", `.a = 2`, "a: [1\nb: 2\n", nil},
	{"decodefail", `.a = 2`, "a: 1\n---\nb: [\n", nil},
	{"evalfail", `.a + {"x": 1}`, "a: 1\n", nil},
	{"evalfail", `.b | error("boom")`, "a: 1\n", nil},
	{"encodefail", `.`, "a: 1\nb:\n  c: 2\n", []string{"-o=csv"}},
	{"nomatch", `.missing`, "a: 1\n", []string{"-e"}},
	{"nomatch", `.a == 2`, "a: 1\n", []string{"-e"}},
}

// protocol step -> system call of the unmodified binary
var ipSyscall = map[string]string{
	"CreateTemp": "openat", "StatTarget": "newfstatat", "ChmodTemp": "fchmodat", "ChownTemp": "fchownat", "Write": "write", "CloseTemp": "close",
	"Rename": "renameat", "OpenSrc": "openat", "CreateDstTruncate": "openat", "Copy": "copy_file_range", "Sync": "fsync", "RemoveTemp": "unlinkat",
}
var ipErrno = map[string]string{
	"CreateTemp": "EACCES", "StatTarget": "EACCES", "ChmodTemp": "EPERM", "ChownTemp": "EPERM", "Write": "ENOSPC", "CloseTemp": "EIO",
	"Rename": "EXDEV", "OpenSrc": "EACCES", "CreateDstTruncate": "EACCES", "Copy": "ENOSPC", "Sync": "EIO", "RemoveTemp": "EPERM",
}

type ipEvent struct {
	Step string `json:"step"`
	Res  string `json:"res"`
}

type ipSchedule struct {
	Eval     string
	Hist     []ipEvent
	Target   string
	Mode     string
	Exit     int
	Alive    bool
	TempLeft bool
}

type straceLine struct {
	pid, call, args, ret string
	injected             bool
}

var reStrace = regexp.MustCompile(`^(\d+)\s+(\w+)\((.*)\)\s+= (-?\d+|\?)(.*)$`)
var reUnfinished = regexp.MustCompile(`^(\d+)\s+(\w+)\((.*) <unfinished \.\.\.>$`)
var reResumed = regexp.MustCompile(`^(\d+)\s+<\.\.\. (\w+) resumed>(.*)\)\s+= (-?\d+|\?)(.*)$`)

func parseStrace(path string) ([]straceLine, error) {
	f, err := os.Open(path)
	if err != nil {
		return nil, err
	}
	defer f.Close()
	pending := map[string]string{}
	var out []straceLine
	sc := bufio.NewScanner(f)
	sc.Buffer(make([]byte, 1<<20), 1<<24)
	for sc.Scan() {
		line := sc.Text()
		if m := reUnfinished.FindStringSubmatch(line); m != nil {
			pending[m[1]+":"+m[2]] = m[3]
			continue
		}
		if m := reResumed.FindStringSubmatch(line); m != nil {
			args := pending[m[1]+":"+m[2]] + m[3]
			delete(pending, m[1]+":"+m[2])
			out = append(out, straceLine{m[1], m[2], args, m[4], strings.Contains(m[5], "(INJECTED)")})
			continue
		}
		if m := reStrace.FindStringSubmatch(line); m != nil {
			out = append(out, straceLine{m[1], m[2], m[3], m[4], strings.Contains(m[5], "(INJECTED)")})
			continue
		}
		if strings.Contains(line, "+++ killed by SIGKILL") {
			out = append(out, straceLine{call: "KILLED"})
		}
	}
	return out, nil
}

// projectTrace maps the system calls of one run to protocol events. It also reports which protocol step (if any)
// an injected fault or the kill hit, so that the caller can verify the injection struck the intended call.
func projectTrace(lines []straceLine, target, tmpdir string, partial bool) (events []ipEvent, injectedAt string) {
	tempPrefix := tmpdir + "/temp"
	res := func(l straceLine) string {
		if l.ret == "?" {
			return "kill" // the process was killed at the entry of this call
		}
		if strings.HasPrefix(l.ret, "-") {
			return "fail"
		}
		return "ok"
	}
	seen := map[string]bool{}
	add := func(step string, l straceLine) {
		r := res(l)
		if l.injected {
			injectedAt = step
		}
		// Write and Copy may be several system calls: collapse
		if step == "RemoveTemp" && seen[step] {
			// os.Remove tries unlink and then rmdir: one protocol step
			for i := range events {
				if events[i].Step == step && r == "ok" {
					events[i].Res = "ok"
				}
			}
			return
		}
		if (step == "Write" || step == "Copy") && seen[step] {
			for i := range events {
				if events[i].Step == step {
					if step == "Copy" {
						events[i].Res = r // copy_file_range may fail (EXDEV) and fall back to read/write: the last call decides
					} else if r != "ok" {
						events[i].Res = r
					}
				}
			}
			return
		}
		if r == "kill" && len(events) > 0 && events[len(events)-1].Step == step && events[len(events)-1].Res == "kill" {
			return // strace can print the call the kill struck twice (unfinished / resumed by another thread): one protocol step
		}
		seen[step] = true
		events = append(events, ipEvent{step, r})
	}
	for _, l := range lines {
		a := l.args
		switch l.call {
		case "openat":
			switch {
			case strings.Contains(a, `"`+tempPrefix) && strings.Contains(a, "O_EXCL"):
				add("CreateTemp", l)
			case strings.Contains(a, `"`+tempPrefix) && seen["Rename"]:
				add("OpenSrc", l)
			case strings.Contains(a, `"`+target+`"`) && strings.Contains(a, "O_TRUNC"):
				add("CreateDstTruncate", l)
			}
		case "newfstatat":
			if strings.Contains(a, `"`+target+`"`) && (seen["CreateTemp"] || partial) && !seen["StatTarget"] {
				add("StatTarget", l)
			}
		case "fchmodat":
			if strings.Contains(a, `"`+tempPrefix) {
				add("ChmodTemp", l)
			}
		case "fchownat":
			if strings.Contains(a, `"`+tempPrefix) {
				add("ChownTemp", l)
			}
		case "write", "pwrite64":
			if strings.Contains(a, "<"+tempPrefix) {
				add("Write", l)
			} else if strings.Contains(a, "<"+target+">") && seen["CreateDstTruncate"] {
				add("Copy", l)
			}
		case "read":
			// the read/write fallback of the copy ends with a read that returns 0 (for an empty temporary file it is all there is)
			if strings.Contains(a, "<"+tempPrefix) && seen["CreateDstTruncate"] && strings.TrimSpace(l.ret) == "0" {
				add("Copy", l)
			}
		case "copy_file_range", "sendfile":
			if strings.Contains(a, "<"+target+">") || strings.Contains(a, "<"+tempPrefix) {
				add("Copy", l)
			}
		case "close":
			if strings.Contains(a, "<"+tempPrefix) && !seen["CloseTemp"] && !seen["Rename"] && seen["ChownTemp"] {
				add("CloseTemp", l)
			}
		case "renameat", "renameat2", "rename":
			if strings.Contains(a, `"`+tempPrefix) {
				add("Rename", l)
			}
		case "fsync":
			if strings.Contains(a, "<"+target+">") {
				add("Sync", l)
			}
		case "unlinkat", "unlink":
			if strings.Contains(a, `"`+tempPrefix) {
				add("RemoveTemp", l)
			}
		case "ftruncate", "truncate":
			if strings.Contains(a, target) {
				add("CreateDstTruncate", l)
			}
		}
	}
	return events, injectedAt
}

type ipRunResult struct {
	Exit       int
	Killed     bool
	TargetKind string // Old | New | Trunc | Other
	TargetMode os.FileMode
	TempLeft   bool
	Events     []ipEvent
	InjectedAt string
	Stderr     string
	Log        string
	Partial    bool // the trace holds only the calls on the target (path filter): judged, not trace-validated
}

type ipInjection struct {
	Step string // protocol step
	Kill bool
	When int // ordinal among the system calls of that name (learned by a dry run)
}

// system calls that occur once per run (or whose every occurrence belongs to the step): struck without an ordinal,
// which is immune to the Go runtime moving the main goroutine between threads (strace counts per thread)
var ipUnique = map[string]bool{"ChmodTemp": true, "ChownTemp": true, "Write": true, "Rename": true, "Copy": true, "Sync": true, "RemoveTemp": true}

func (i ipInjection) arg() string {
	sc := ipSyscall[i.Step]
	when := fmt.Sprintf(":when=%d", i.When)
	if ipUnique[i.Step] {
		when = ""
	}
	if i.Kill {
		return fmt.Sprintf("inject=%s:signal=KILL%s", sc, when)
	}
	return fmt.Sprintf("inject=%s:error=%s%s", sc, ipErrno[i.Step], when)
}

// runs whose injection depends on a per-thread ordinal are executed alone (no other strace'd process competing for the
// CPUs), which keeps the main goroutine on one thread

const ipTrace = "trace=openat,newfstatat,fchmodat,fchownat,read,write,pwrite64,close,rename,renameat,renameat2,copy_file_range,sendfile,fsync,unlinkat,unlink,ftruncate,truncate"

type ipSetup struct {
	otherFS      bool // TMPDIR on another file system (real EXDEV)
	tmpdirIsFile bool // TMPDIR names a regular file: creating the temporary file fails
	immutable    bool // chattr +i on the target: rename over it and opening it for writing fail
	pathFilter   bool // strace -P target: only calls on the target are traced and counted
}

// runInPlaceWith executes `yq -i` once under strace with the given set-up and injections.
func runInPlaceWith(rc *Run, id int, c ipCase, su ipSetup, injs []ipInjection, expectedNew []byte) (*ipRunResult, error) {
	dir := filepath.Join(rc.Out, fmt.Sprintf("run-%d", id))
	os.RemoveAll(dir)
	tmpdir := filepath.Join(dir, "tmp")
	if su.otherFS {
		tmpdir = fmt.Sprintf("/dev/shm/verif-c12-%d-%d", os.Getpid(), id)
		os.RemoveAll(tmpdir)
	}
	os.MkdirAll(dir, 0o755)
	if su.tmpdirIsFile {
		os.WriteFile(tmpdir, []byte("not a directory"), 0o644)
	} else if err := os.MkdirAll(tmpdir, 0o755); err != nil {
		return nil, err
	}
	defer os.RemoveAll(tmpdir)
	target := filepath.Join(dir, "f.yml")
	os.WriteFile(target, []byte(c.Content), 0o640)
	os.Chmod(target, 0o640)
	if su.immutable {
		if err := exec.Command("chattr", "+i", target).Run(); err != nil {
			return nil, fmt.Errorf("chattr +i: %v", err)
		}
		defer exec.Command("chattr", "-i", target).Run()
	}
	logf := filepath.Join(dir, "strace.log")
	args := []string{"-f", "-y", "-s", "64", "-o", logf, "-e", ipTrace}
	if su.pathFilter {
		args = append(args, "-P", target)
	}
	for _, in := range injs {
		args = append(args, "-e", in.arg())
	}
	args = append(args, filepath.Join(verifHome, "out", "bin", "yq"), "-i")
	args = append(args, c.Flags...)
	args = append(args, c.Expr, target)
	ctx, cancel := context.WithTimeout(context.Background(), 60*time.Second)
	defer cancel()
	cmd := exec.CommandContext(ctx, "strace", args...)
	cmd.Env = append(os.Environ(), "TMPDIR="+tmpdir, "GOMAXPROCS=1")
	var stderr bytes.Buffer
	cmd.Stderr = &stderr
	err := cmd.Run()
	r := &ipRunResult{Stderr: stderr.String(), Log: logf}
	if ctx.Err() != nil {
		return nil, fmt.Errorf("timeout")
	}
	if err != nil {
		if ee, ok := err.(*exec.ExitError); ok {
			r.Exit = ee.ExitCode()
			if ws, ok := ee.Sys().(syscall.WaitStatus); ok && ws.Signaled() {
				r.Killed = true
				r.Exit = 137
			}
		} else {
			return nil, err
		}
	}
	lines, err := parseStrace(logf)
	if err != nil {
		return nil, err
	}
	for _, l := range lines {
		if l.call == "KILLED" {
			r.Killed = true
			r.Exit = 137
		}
	}
	r.Events, r.InjectedAt = projectTrace(lines, target, tmpdir, su.pathFilter)
	if r.Events == nil {
		r.Events = []ipEvent{}
	}
	got, _ := os.ReadFile(target)
	st, _ := os.Stat(target)
	if st != nil {
		r.TargetMode = st.Mode().Perm()
	}
	switch {
	case bytes.Equal(got, []byte(c.Content)):
		r.TargetKind = "Old"
	case expectedNew != nil && bytes.Equal(got, expectedNew):
		r.TargetKind = "New"
	case expectedNew != nil && len(got) < len(expectedNew) && bytes.HasPrefix(expectedNew, got):
		r.TargetKind = "Trunc"
	default:
		r.TargetKind = "Other"
	}
	left, _ := filepath.Glob(tmpdir + "/temp*")
	r.TempLeft = len(left) > 0
	if su.immutable {
		exec.Command("chattr", "-i", target).Run()
	}
	return r, nil
}

// expectedNewContent: what the same command without -i writes to stdout.
func expectedNewContent(c ipCase, dir string) ([]byte, int) {
	os.MkdirAll(dir, 0o755)
	f := filepath.Join(dir, "in.yml")
	os.WriteFile(f, []byte(c.Content), 0o644)
	args := append([]string{}, c.Flags...)
	args = append(args, c.Expr, f)
	cmd := exec.Command(filepath.Join(verifHome, "out", "bin", "yq"), args...)
	var out bytes.Buffer
	cmd.Stdout = &out
	err := cmd.Run()
	code := 0
	if err != nil {
		code = 1
	}
	return out.Bytes(), code
}

func histKey(h []ipEvent) string {
	parts := []string{}
	for _, e := range h {
		if e.Step == "Evaluate" || e.Step == "ExitCheck" {
			continue
		}
		parts = append(parts, e.Step+"="+e.Res)
	}
	return strings.Join(parts, ",")
}

func checkC12(rc *Run) error {
	rc.Level = "model_checking"
	if _, err := exec.LookPath("strace"); err != nil {
		return machinery("strace not available")
	}
	// 1. the reference protocol satisfies the property (exhaustive); the pinned deviation violates it on the model
	mcRef, err := RunTLC(rc, TLCOpts{Name: "mc-ref", Module: "InPlace", Cfg: "CONSTANTS\n Dev = {}\n MaxFaults = 3\n GenHist = FALSE\nSPECIFICATION Spec\nINVARIANTS AllOrNothing ExitTruth TypeOK\nCHECK_DEADLOCK FALSE\n", Timeout: 5 * time.Minute})
	if err != nil {
		return err
	}
	if mcRef.InvariantViolated != "" {
		return machinery("the reference in-place protocol violates %s on the model", mcRef.InvariantViolated)
	}
	mcDev, err := RunTLC(rc, TLCOpts{Name: "mc-dev", Module: "InPlace", Cfg: "CONSTANTS\n Dev = {\"truncating-fallback\"}\n MaxFaults = 3\n GenHist = FALSE\nSPECIFICATION Spec\nINVARIANTS AllOrNothing ExitTruth TypeOK\nCHECK_DEADLOCK FALSE\n", Timeout: 5 * time.Minute})
	if err != nil {
		return err
	}
	rc.Logf("TLC: reference protocol: %d states, AllOrNothing/ExitTruth hold; with the truncating fallback: %s violated on the model", mcRef.Distinct, mcDev.InvariantViolated)

	// 2. every schedule of the model of the pinned tree
	maxFaults := rc.Pick(1, 2)
	var scheds []ipSchedule
	var mu sync.Mutex
	gen, err := RunTLC(rc, TLCOpts{Name: "gen", Module: "Gen_InPlace", Cfg: fmt.Sprintf("CONSTANTS\n Dev = {\"truncating-fallback\"}\n MaxFaults = %d\n GenHist = TRUE\nSPECIFICATION Spec\nINVARIANTS Emit\nCHECK_DEADLOCK FALSE\n", maxFaults), Timeout: 5 * time.Minute,
		OnVector: func(js []byte) {
			var m M
			if json.Unmarshal(js, &m) != nil {
				return
			}
			s := ipSchedule{Eval: m["eval"].(string), Target: m["target"].(string), Mode: m["mode"].(string), Exit: int(num(m["exit"])), Alive: m["alive"].(bool), TempLeft: m["tempLeft"].(bool)}
			if h, ok := m["hist"].([]interface{}); ok {
				for _, x := range h {
					e := x.(M)
					s.Hist = append(s.Hist, ipEvent{e["step"].(string), e["res"].(string)})
				}
			}
			mu.Lock()
			scheds = append(scheds, s)
			mu.Unlock()
		}})
	if err != nil {
		return err
	}
	if len(scheds) == 0 {
		return machinery("Gen_InPlace produced no schedules")
	}
	rc.Logf("TLC: %d fault/crash schedules (<= %d faults)", len(scheds), maxFaults)

	// expected new content per case
	newOf := map[int][]byte{}
	for i, c := range ipCases {
		b, _ := expectedNewContent(c, filepath.Join(rc.Out, fmt.Sprintf("plain-%d", i)))
		newOf[i] = b
	}

	type job struct {
		s       ipSchedule
		ci      int
		otherFS bool
	}
	var jobsList []job
	done := map[string]bool{}
	for _, s := range scheds {
		for ci, c := range ipCases {
			if c.Eval != s.Eval {
				continue
			}
			if !rc.Thorough() && ci > 0 && ipCases[ci-1].Eval == c.Eval && len(s.Hist) > 0 && hasFault(s.Hist) {
				// quick tier: faulted schedules on the first case of each kind only (seed rotates which)
				if (ci+int(rc.Seed))%2 == 0 {
					continue
				}
			}
			key := fmt.Sprintf("%d|%s", ci, histKey(s.Hist))
			if done[key] {
				continue
			}
			done[key] = true
			jobsList = append(jobsList, job{s, ci, false})
			// real cross-device temp directory: only meaningful for schedules whose Rename fails (EXDEV for real)
			if renameFails(s.Hist) {
				jobsList = append(jobsList, job{s, ci, true})
			}
		}
	}

	var traces []M
	runs, discarded, judged, unrealised := 0, 0, 0, 0
	idc := 0
	jobs := make(chan job, 64)
	var wg sync.WaitGroup
	workers := runtime.NumCPU()
	for w := 0; w < workers; w++ {
		wg.Add(1)
		go func() {
			defer wg.Done()
			for j := range jobs {
				mu.Lock()
				idc++
				id := idc
				mu.Unlock()
				c := ipCases[j.ci]
				r, why := replayInPlace(rc, id, c, j.s, j.otherFS, newOf[j.ci])
				mu.Lock()
				runs++
				mu.Unlock()
				if r == nil && why == "" {
					mu.Lock()
					unrealised++
					mu.Unlock()
					continue
				}
				if r == nil {
					mu.Lock()
					discarded++
					mu.Unlock()
					if why != "" && rc.Count("discard_logged") < 6 {
						rc.Add("discard_logged", 1)
						rc.Logf("discarded run (%s): case %d %s", why, j.ci, histKey(j.s.Hist))
					}
					continue
				}
				mu.Lock()
				judged++
				if judged%40 == 1 {
					rc.Sample(M{"expr": c.Expr, "flags": c.Flags, "schedule": histKey(j.s.Hist), "other_fs_tmpdir": j.otherFS, "observed": M{"exit": r.Exit, "target": r.TargetKind, "temp_left": r.TempLeft}})
				}
				if !r.Partial {
					traces = append(traces, M{"id": id, "eval": c.Eval, "events": r.Events, "target": r.TargetKind, "exit": r.Exit, "tempLeft": r.TempLeft,
						"mode": map[bool]string{true: "orig", false: "changed"}[r.TargetMode == 0o640], "case": j.ci, "sched": histKey(j.s.Hist), "otherfs": j.otherFS})
				}
				mu.Unlock()
				judgeInPlace(rc, c, j.s, j.otherFS, r)
			}
		}()
	}
	for _, j := range jobsList {
		jobs <- j
	}
	close(jobs)
	wg.Wait()
	if judged == 0 {
		return machinery("no in-place run could be judged (%d discarded)", discarded)
	}
	if discarded*3 > runs {
		return machinery("too many discarded runs (%d of %d): fault injection is not hitting the intended system calls", discarded, runs)
	}

	// 3. code -> model: every recorded system-call trace must be a behaviour of the specification (model of the pinned tree)
	var nd strings.Builder
	for _, t := range traces {
		b, _ := json.Marshal(t)
		nd.Write(b)
		nd.WriteString("\n")
	}
	accepted := map[int]bool{}
	tv, err := RunTLC(rc, TLCOpts{Name: "trace", Module: "Trace_InPlace", Extra: map[string]string{"inplace_traces.ndjson": nd.String()},
		Cfg: "CONSTANTS\n Dev = {\"truncating-fallback\"}\n MaxFaults = 6\n GenHist = TRUE\nINIT TInit\nNEXT TNext\nINVARIANTS Report\nCHECK_DEADLOCK FALSE\n", Timeout: 10 * time.Minute,
		OnLine: func(line string) {
			var n int
			if _, e := fmt.Sscanf(line, "<<\"ACCEPT\", %d>>", &n); e == nil {
				mu.Lock()
				accepted[n] = true
				mu.Unlock()
			}
		}})
	if err != nil {
		return err
	}
	rejected := 0
	for i, t := range traces {
		if !accepted[i+1] {
			rejected++
			ev, _ := json.Marshal(t["events"])
			fp := fmt.Sprintf("trace-rejected:%v:%s", t["target"], classifyTrace(t))
			rc.Report(fp, fmt.Sprintf("the system-call trace of `yq -i %s` (schedule %v) is not a behaviour of InPlace.tla: events=%s target=%v exit=%v tempLeft=%v", ipCases[t["case"].(int)].Expr, t["sched"], ev, t["target"], t["exit"], t["tempLeft"]),
				M{"machine": "InPlace", "events": t["events"], "concrete": M{"expr": ipCases[t["case"].(int)].Expr, "flags": ipCases[t["case"].(int)].Flags, "content": ipCases[t["case"].(int)].Content, "schedule": t["sched"], "other_fs_tmpdir": t["otherfs"]}, "observed": M{"target": t["target"], "exit": t["exit"]}})
		}
	}
	_ = tv
	if err := checkFrontMatter(rc); err != nil {
		return err
	}
	if err := checkTargetKinds(rc); err != nil {
		return err
	}
	rc.Set("states", mcRef.Distinct+gen.Distinct)
	rc.Set("transitions", mcRef.Generated+gen.Generated)
	rc.Set("schedules_enumerated", len(scheds))
	rc.Set("runs_under_strace", runs)
	rc.Set("runs_discarded_injection_missed", discarded)
	rc.Set("schedules_not_realisable_on_the_unmodified_binary", unrealised)
	rc.Set("traces_validated_against_impl", judged)
	rc.Set("traces_rejected_by_spec", rejected)
	rc.Set("model_counterexample_with_fallback", mcDev.InvariantViolated)
	rc.Set("max_faults", maxFaults)
	rc.Set("exhaustive", true)
	rc.Assume("a kill is delivered at system-call granularity (SIGKILL injected at the entry of the call that implements the next protocol step)")
	rc.Assume("fault injection by strace on the unmodified binary; a run whose injection did not strike the intended call is discarded, never judged")
	return nil
}

func hasFault(h []ipEvent) bool {
	for _, e := range h {
		if e.Res == "fail" || e.Res == "kill" {
			return true
		}
	}
	return false
}

func renameFails(h []ipEvent) bool {
	for _, e := range h {
		if e.Step == "Rename" && e.Res == "fail" {
			return true
		}
	}
	return false
}

func classifyTrace(t M) string {
	evs, _ := t["events"].([]ipEvent)
	parts := []string{}
	for _, e := range evs {
		parts = append(parts, e.Step)
	}
	return strings.Join(parts, ">")
}

// replayInPlace realises one schedule on the unmodified binary. Faults are realised
//   - by striking every occurrence of a system call that belongs to exactly one protocol step (ipUnique),
//   - by a path-filtered injection (strace -P target counts only calls on the target) for StatTarget,
//   - naturally: TMPDIR that is a regular file (CreateTemp fails), an immutable target (Rename and CreateDstTruncate fail),
//     TMPDIR on another file system (Rename fails with EXDEV).
//
// Schedules that cannot be realised this way are reported as unrealised ("" reason, nil result), never judged.
func replayInPlace(rc *Run, id int, c ipCase, s ipSchedule, otherFS bool, expectedNew []byte) (*ipRunResult, string) {
	var injs []ipInjection
	setup := ipSetup{otherFS: otherFS}
	var want []ipEvent
	for _, e := range s.Hist {
		if e.Res != "fail" && e.Res != "kill" {
			continue
		}
		step := e.Step
		if e.Res == "kill" {
			// a crash before a step that is not a system call has the file state of a crash before the next system call
			switch step {
			case "Evaluate":
				if s.Eval != "ok" && s.Eval != "nomatch" {
					return nil, ""
				}
				step = "Write"
			case "ExitCheck":
				if s.Eval == "nomatch" {
					return nil, ""
				}
				step = "Rename" // CloseTemp cannot be struck by path; a crash before Rename has the same file state
			case "CloseTemp":
				step = "Rename"
			case "Done", "CreateTemp", "OpenSrc", "CreateDstTruncate":
				return nil, ""
			}
		} else if step == "Evaluate" || step == "ExitCheck" {
			continue // realised by the (expression, content) pair
		}
		switch {
		case step == "Rename" && e.Res == "fail" && otherFS:
			// fails for real with EXDEV
		case step == "CreateTemp" && e.Res == "fail":
			setup.tmpdirIsFile = true
		case step == "CreateDstTruncate" && e.Res == "fail":
			setup.immutable = true // the rename fails for the same reason, which the schedule must contain
			if !renameFails(s.Hist) {
				return nil, ""
			}
		case step == "Rename" && e.Res == "fail" && createDstFails(s.Hist):
			// realised by the immutable target
		case step == "StatTarget":
			setup.pathFilter = true
			injs = append(injs, ipInjection{Step: step, Kill: e.Res == "kill", When: 1})
		case ipUnique[step]:
			injs = append(injs, ipInjection{Step: step, Kill: e.Res == "kill"})
		default:
			return nil, "" // CloseTemp / OpenSrc faults: not realisable without per-thread ordinals
		}
		want = append(want, ipEvent{step, e.Res})
	}
	if setup.pathFilter && len(want) > 1 {
		return nil, ""
	}
	for attempt := 0; attempt < 3; attempt++ {
		r, err := runInPlaceWith(rc, id*10+attempt, c, setup, injs, expectedNew)
		if err != nil {
			continue
		}
		ok := true
		for _, w := range want {
			if w.Res == "kill" {
				if !stepOccurs(r.Events, w.Step) {
					os.RemoveAll(filepath.Dir(r.Log))
					return nil, ""
				}
				if !r.Killed || len(r.Events) == 0 || r.Events[len(r.Events)-1].Step != w.Step || r.Events[len(r.Events)-1].Res != "kill" {
					ok = false
				}
				continue
			}
			found, occurs := false, false
			for _, ev := range r.Events {
				if ev.Step == w.Step {
					occurs = true
					if ev.Res == "fail" {
						found = true
					}
				}
			}
			if !occurs {
				// this (expression, content) pair never reaches the step (e.g. it fails before writing anything)
				os.RemoveAll(filepath.Dir(r.Log))
				return nil, ""
			}
			if !found {
				ok = false
			}
		}
		if len(want) == 0 && r.Killed {
			ok = false
		}
		r.Partial = setup.pathFilter
		if ok {
			if os.Getenv("VERIF_DEBUG") == "" {
				os.RemoveAll(filepath.Dir(r.Log))
			}
			return r, ""
		}
		if os.Getenv("VERIF_DEBUG") != "" {
			fmt.Printf("DEBUG discard: want=%v injs=%v events=%v killed=%v exit=%d stderr=%q log=%s\n", want, injs, r.Events, r.Killed, r.Exit, r.Stderr, r.Log)
		} else {
			os.RemoveAll(filepath.Dir(r.Log))
		}
	}
	return nil, "injection did not strike the intended call"
}

func stepOccurs(evs []ipEvent, step string) bool {
	for _, e := range evs {
		if e.Step == step {
			return true
		}
	}
	return false
}

func createDstFails(h []ipEvent) bool {
	for _, e := range h {
		if e.Step == "CreateDstTruncate" && e.Res == "fail" {
			return true
		}
	}
	return false
}

// judgeInPlace compares the observed terminal state with the property (not with the model of the pinned tree).
func judgeInPlace(rc *Run, c ipCase, s ipSchedule, otherFS bool, r *ipRunResult) {
	concrete := M{"argv": append(append([]string{"yq", "-i"}, c.Flags...), c.Expr, "f.yml"), "content": c.Content, "schedule": histKey(s.Hist), "other_fs_tmpdir": otherFS}
	obs := M{"exit": r.Exit, "target": r.TargetKind, "mode": fmt.Sprintf("%o", r.TargetMode), "temp_left": r.TempLeft}
	site := "none"
	for _, e := range s.Hist {
		if e.Res == "fail" || e.Res == "kill" {
			site = e.Step + "=" + e.Res
		}
	}
	switch {
	case r.TargetKind != "Old" && r.TargetKind != "New":
		rc.Report(fmt.Sprintf("not-all-or-nothing:%s:%s", r.TargetKind, site), fmt.Sprintf("`yq -i %s` with schedule [%s]: the file holds neither the old nor the complete new content (exit %d)", c.Expr, histKey(s.Hist), r.Exit),
			M{"machine": "InPlace", "concrete": concrete, "expected": "target in {Old, New}", "observed": obs})
	case r.Exit == 0 && r.TargetKind != "New":
		rc.Report("exit0-target-not-new:"+site, fmt.Sprintf("`yq -i %s` with schedule [%s] exits 0 but the file does not hold the new content (%s)", c.Expr, histKey(s.Hist), r.TargetKind),
			M{"machine": "InPlace", "concrete": concrete, "expected": "exit 0 => New", "observed": obs})
	case r.Exit == 0 && r.TargetMode != 0o640:
		rc.Report("exit0-mode-changed:"+site, fmt.Sprintf("`yq -i %s`: permission bits changed from 640 to %o", c.Expr, r.TargetMode),
			M{"machine": "InPlace", "concrete": concrete, "expected": "mode 640", "observed": obs})
	case r.Exit != 0 && !r.Killed && r.TargetKind != "Old":
		rc.Report("failed-but-modified:"+site, fmt.Sprintf("`yq -i %s` with schedule [%s] exits %d but the file changed (%s)", c.Expr, histKey(s.Hist), r.Exit, r.TargetKind),
			M{"machine": "InPlace", "concrete": concrete, "expected": "exit != 0 => Old", "observed": obs})
	case !r.Killed && s.Alive && (r.Exit == 0) != (s.Exit == 0):
		rc.Report("exit-status:"+site, fmt.Sprintf("`yq -i %s` with schedule [%s]: exit %d, the protocol defines %d", c.Expr, histKey(s.Hist), r.Exit, s.Exit),
			M{"machine": "InPlace", "concrete": concrete, "expected": fmt.Sprintf("exit %d", s.Exit), "observed": obs})
	}
}
