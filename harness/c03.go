package main

func init() {
	register("C03", func(rc *Run) error {
		return genEvalCheck(rc, "Gen_Delete", "INVARIANTS UnionLaw ExactLaw", []string{"UnionLaw", "ExactLaw"}, 1)
	})
}
