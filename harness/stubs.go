package main

import "fmt"

func replayFile(path string) int   { fmt.Println("replay not implemented yet:", path); return 2 }
func selftest(args []string) int   { fmt.Println("selftest not implemented yet"); return 0 }
func workerMain(args []string) int { return 2 }
