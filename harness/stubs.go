package main

import "fmt"

func replayFile(path string) int   { fmt.Println("replay not implemented yet:", path); return 2 }
func selftest(args []string) int   { fmt.Println("selftest not implemented yet"); return 0 }
func workerMain(args []string) int {
	if len(args) > 0 && args[0] == "c18" {
		return c18Worker(args[1:])
	}
	return 2
}
