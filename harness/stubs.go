package main

import (
	"encoding/json"
	"fmt"
	"os"
	"path/filepath"
	"strings"
	"time"

	"github.com/mikefarah/yq/v4/pkg/yqlib"
)

// replayFile re-executes the concrete input of a replay file against the code as it is now and prints what happens.
// exit 1: the recorded observation reproduces; exit 0: the code now behaves differently; exit 2: cannot replay.
func replayFile(path string) int {
	raw, err := os.ReadFile(path)
	if err != nil {
		fmt.Println("replay:", err)
		return 2
	}
	var m M
	if err := json.Unmarshal(raw, &m); err != nil {
		fmt.Println("replay: not a replay file:", err)
		return 2
	}
	fmt.Printf("property=%v fingerprint=%v\nrecorded: %v\n", m["property"], m["fingerprint"], m["what"])
	conc, _ := m["concrete"].(M)
	if conc == nil {
		fmt.Println("replay: no concrete input recorded; re-run ./check", m["property"], "quick")
		return 2
	}
	recorded, _ := m["observed"].(string)
	if expr, ok := conc["expr"].(string); ok {
		if doc, ok := conc["input_json"].(string); ok {
			yqlib.InitExpressionParser()
			tog, _ := conc["together"].(bool)
			o := evalWithTimeout(expr, doc, tog)
			now := strings.TrimSpace(o.St + " " + avListJSON(o.Res))
			if o.St != "ok" {
				now = strings.TrimSpace(o.St + " " + o.ErrText)
			}
			fmt.Printf("now: yqlib evaluates %s on %s -> %s", expr, doc, now)
			if o.After != nil {
				fmt.Printf("  (document afterwards %s)", o.After.JSON())
			}
			fmt.Println()
			if exp, ok := m["expected"].(string); ok {
				fmt.Println("specification:", exp)
			}
			if recorded != "" && strings.HasPrefix(now, strings.TrimSpace(recorded)) {
				fmt.Println("REPRODUCED")
				return 1
			}
			return 0
		}
	}
	if argvI, ok := conc["argv"].([]interface{}); ok {
		var argv []string
		for _, a := range argvI {
			argv = append(argv, fmt.Sprint(a))
		}
		if len(argv) > 0 && argv[0] == "yq" {
			argv = argv[1:]
		}
		stdin, _ := conc["stdin"].(string)
		if y, ok := conc["input_yaml"].(string); ok && stdin == "" {
			stdin = y
		}
		dir, _ := os.MkdirTemp(filepath.Join(verifHome, "out"), "replay-")
		defer os.RemoveAll(dir)
		for i, a := range argv { // checks that ran on a file d.yml
			if a == "d.yml" {
				os.WriteFile(filepath.Join(dir, "d.yml"), []byte(stdin), 0o644)
				argv[i] = "d.yml"
			}
		}
		p := runProc(dir, []byte(stdin), argv...)
		fmt.Printf("now: yq %s  (stdin %q)\n  exit=%d hang=%v\n  stdout=%q\n  stderr=%q\n", strings.Join(argv, " "), stdin, p.Code, p.Hang, p.Stdout, firstLine(p.Stderr))
		if recorded != "" && (recorded == p.Stdout || strings.TrimSpace(recorded) == strings.TrimSpace(p.Stdout)) {
			fmt.Println("REPRODUCED")
			return 1
		}
		if recorded == "" {
			fmt.Println("no recorded observation to compare with: judge by the output above, or re-run ./check", m["property"], "quick")
			return 2
		}
		return 0
	}
	fmt.Println("replay: this kind of case (", m["machine"], ") is re-run by ./check", m["property"], "quick")
	return 2
}

// selftest demonstrates that the trace specifications are bound to what they judge: a correct record is accepted, the
// same record with one corrupted field is rejected.
func selftest(args []string) int {
	rc := newRun("SELFTEST", "quick")
	fail := 0
	expect := func(name string, bad map[int]string, idx int, wantBad bool) {
		_, isBad := bad[idx]
		status := "ok"
		if isBad != wantBad {
			status = "UNEXPECTED"
			fail++
		}
		fmt.Printf("selftest %-58s line %d rejected=%v expected=%v  %s %s\n", name, idx, isBad, wantBad, status, bad[idx])
	}
	// ---- Trace_Json: {"a": 9007199254740993, "s": "x\"y"}
	want := []interface{}{M{"k": "map", "m": []interface{}{[]interface{}{cps("a"), M{"k": "ytext", "t": cps("9007199254740993")}}, []interface{}{cps("s"), M{"k": "str", "s": cps(`x"y`)}}}}}
	lines := []string{`{"a":9007199254740993,"s":"x\"y"}`, `{"a":9007199254740992,"s":"x\"y"}`, `{"a":9007199254740993,"s":"x"y"}`, `{"s":"x\"y","a":9007199254740993}`}
	var nd strings.Builder
	for _, l := range lines {
		b, _ := json.Marshal(M{"err": false, "out": cps(l + "\n"), "wants": want})
		nd.Write(b)
		nd.WriteString("\n")
	}
	bad := map[int]string{}
	_, err := RunTLC(rc, TLCOpts{Name: "selftest-json", Module: "Trace_Json", Extra: map[string]string{"json_pairs.ndjson": nd.String()},
		Cfg: "CONSTANTS\n Chunk = 8\nINIT Init\nNEXT Next\nINVARIANTS Judge\nCHECK_DEADLOCK FALSE\n", Timeout: 5 * time.Minute,
		OnLine: func(line string) {
			var i, f int
			var why string
			if n, _ := fmt.Sscanf(line, "<<\"BAD\", %d, %q, %d>>", &i, &why, &f); n >= 2 {
				bad[i] = why
			}
		}})
	if err != nil {
		fmt.Println("selftest: TLC failed:", err)
		return 2
	}
	expect("Trace_Json accepts the exact value", bad, 1, false)
	expect("Trace_Json rejects an integer that lost its last digit", bad, 2, true)
	expect("Trace_Json rejects ill-formed JSON", bad, 3, true)
	expect("Trace_Json rejects reordered keys", bad, 4, true)
	// ---- Trace_ShQuote
	var nd2 strings.Builder
	for _, out := range []string{`'a b'`, `a b`, `'a b`} {
		b, _ := json.Marshal(M{"kind": "sh", "s": cps("a b"), "out": cps(out)})
		nd2.Write(b)
		nd2.WriteString("\n")
	}
	bad2 := map[int]string{}
	_, err = RunTLC(rc, TLCOpts{Name: "selftest-sh", Module: "Trace_ShQuote", Extra: map[string]string{"shquote_pairs.ndjson": nd2.String()},
		Cfg: "CONSTANTS\n Chunk = 500\nINIT Init\nNEXT Next\nINVARIANTS Judge\nCHECK_DEADLOCK FALSE\n", Timeout: 5 * time.Minute,
		OnLine: func(line string) {
			var i int
			var why string
			if n, _ := fmt.Sscanf(line, "<<\"BAD\", %d, %q>>", &i, &why); n == 2 {
				bad2[i] = why
			}
		}})
	if err != nil {
		fmt.Println("selftest: TLC failed:", err)
		return 2
	}
	expect("Trace_ShQuote accepts 'a b'", bad2, 1, false)
	expect("Trace_ShQuote rejects the unquoted word a b", bad2, 2, true)
	expect("Trace_ShQuote rejects an unterminated quote", bad2, 3, true)
	// ---- Trace_Eval: the recorded handler steps of one real evaluation, then the same with one corrupted result
	yqlib.InitExpressionParser()
	ast := M{"op": "PIPE", "l": M{"op": "TRAVERSE_PATH", "key": []interface{}{"a"}}, "r": M{"op": "LENGTH"}}
	doc := &AV{K: "map", MK: []string{"a"}, MV: []*AV{{K: "seq", E: []*AV{{K: "num", Int: true, N: 1, D: 1}, {K: "num", Int: true, N: 2, D: 1}}}}}
	steps, traced := traceOne(ast, doc, false)
	if !traced || len(steps) < 3 {
		fmt.Println("selftest: the handler tracer recorded", len(steps), "steps")
		return 2
	}
	var nd3 strings.Builder
	for _, st := range steps {
		nd3.Write(st.line)
		nd3.WriteString("\n")
	}
	corrupt := strings.Replace(string(steps[len(steps)-1].line), `"n":2`, `"n":3`, 1) // the final result 2 -> 3
	nd3.WriteString(corrupt + "\n")
	bad3 := map[int]string{}
	_, err = RunTLC(rc, TLCOpts{Name: "selftest-eval", Module: "Trace_Eval", Extra: map[string]string{"eval_events.ndjson": nd3.String()},
		Cfg: "CONSTANTS\n Dev = {}\n Chunk = 200\nINIT Init\nNEXT Next\nINVARIANTS Judge\nCHECK_DEADLOCK FALSE\n", Timeout: 5 * time.Minute,
		OnLine: func(line string) {
			var i int
			var why string
			if n, _ := fmt.Sscanf(line, "<<\"BAD\", %d, %q>>", &i, &why); n == 2 {
				bad3[i] = why
			}
		}})
	if err != nil {
		fmt.Println("selftest: TLC failed:", err)
		return 2
	}
	for i := 1; i <= len(steps); i++ {
		expect(fmt.Sprintf("Trace_Eval accepts recorded step %d (%s)", i, steps[i-1].op), bad3, i, false)
	}
	expect("Trace_Eval rejects the last step with its result changed", bad3, len(steps)+1, true)
	// ---- the attribute table of C05: dropping one comment / changing one style is seen
	in, _ := extractTable("# lead\na: 'x' # lc\nb: [1, 2]\n")
	out1, _ := extractTable("# lead\na: 'x' # lc\nb: [1, 2]\n")
	out2, _ := extractTable("# lead\na: x # lc\nb: [1, 2]\n")
	out3, _ := extractTable("a: 'x' # lc\nb: [1, 2]\n")
	f1, _ := compareRows(in.Rows, out1.Rows)
	f2, _ := compareRows(in.Rows, out2.Rows)
	c3 := strings.Join(in.Comments, "|") != strings.Join(out3.Comments, "|")
	report := func(name string, got, want bool) {
		status := "ok"
		if got != want {
			status = "UNEXPECTED"
			fail++
		}
		fmt.Printf("selftest %-58s rejected=%v expected=%v  %s\n", name, got, want, status)
	}
	report("attribute table accepts the identical stream", f1 != "", false)
	report("attribute table rejects a dropped quoting style ("+f2+")", f2 != "", true)
	report("comment list rejects a dropped leading comment", c3, true)
	if fail > 0 {
		fmt.Println("selftest: FAILED")
		return 1
	}
	fmt.Println("selftest: all bindings behave as expected")
	return 0
}

func workerMain(args []string) int {
	if len(args) > 0 && args[0] == "c18" {
		return c18Worker(args[1:])
	}
	if len(args) > 0 && args[0] == "replay" {
		yqlib.InitExpressionParser()
		return replayWorker(args[1:])
	}
	return 2
}
