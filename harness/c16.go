package main

import (
	"fmt"
	"os"
	"path/filepath"
	"strings"
	"time"

	"github.com/mikefarah/yq/v4/pkg/yqlib"
)

func init() { register("C16", checkC16) }

// pathsOf: positions of a value in document order (pre-order), as JSON arrays
func pathsOf(v *AV, prefix []string, out *[]string) {
	*out = append(*out, "["+strings.Join(prefix, ",")+"]")
	switch v.K {
	case "map":
		for i, k := range v.MK {
			pathsOf(v.MV[i], append(append([]string{}, prefix...), fmt.Sprintf("%q", k)), out)
		}
	case "seq":
		for i, e := range v.E {
			pathsOf(e, append(append([]string{}, prefix...), fmt.Sprint(i)), out)
		}
	}
}

func rootOpOf(e M) string {
	// the rebuilding operator of `.a | F` or `F`
	if opOf(e) == "PIPE" && opOf(sub(e, "l")) == "TRAVERSE_PATH" {
		return rootOpOf(sub(e, "r"))
	}
	if opOf(e) == "TRAVERSE_ARRAY" {
		return "SLICE"
	}
	return opOf(e)
}

var deriveOps = map[string]bool{"REVERSE": true, "SORT": true, "SORT_BY": true, "UNIQUE": true, "TRAVERSE_ARRAY": true, "MAP": true, "FILTER": true, "COLLECT": true,
	"ADD": true, "FLATTEN_BY": true, "UNIQUE_BY": true, "GROUP_BY": true, "TO_ENTRIES": true, "WITH_ENTRIES": true, "PICK": true, "OMIT": true, "MULTIPLY": true}

// isDerive: `F` or `.a | F` for a rebuilding operator F (family (b) of Gen_Paths)
func isDerive(e M) bool {
	if opOf(e) == "PIPE" && opOf(sub(e, "l")) == "TRAVERSE_PATH" {
		return deriveOps[opOf(sub(e, "r"))]
	}
	return deriveOps[opOf(e)] && !(opOf(e) == "COLLECT" && opOf(sub(e, "r")) == "PIPE" && opOf(sub(sub(e, "r"), "r")) != "SELECT" && opOf(sub(sub(e, "r"), "l")) != "TRAVERSE_ARRAY")
}

func evalList(expr, doc string) ([]*AV, string, string) {
	o := evalWithTimeout(expr, doc, false)
	return o.Res, o.St, o.ErrText
}

func checkC16(rc *Run) error {
	rc.Level = "model_checking"
	yqlib.InitExpressionParser()
	big := "FALSE"
	if rc.Thorough() {
		big = "TRUE"
	}
	cfg := "CONSTANTS\n Dev = {}\n Big = " + big + "\n NShards = 1\n Shard = 0\nINIT Init\nNEXT Next\nINVARIANTS PathTruth\nCHECK_DEADLOCK FALSE\n"
	g, err := runGenEval(rc, "Gen_Paths", "gen", cfg, 20*time.Minute)
	if err != nil {
		return err
	}
	rc.Logf("TLC: PathTruth holds on %d states; %d vectors (%d expressions x %d documents)", g.TLC.Distinct, len(g.Vectors), len(g.Exprs), len(g.Docs))
	// (a) absolute law on document nodes: plain replay (results are the claimed paths / keys / parents)
	stats := replayEvalVectors(rc, g, "C16")

	// (b) relative law on derived containers
	relChecked := 0
	for _, v := range g.Vectors {
		e, d := g.Exprs[v.Ei], g.Docs[v.Di]
		if v.St != "ok" || len(v.Res) != 1 || !(v.Res[0].K == "seq" || v.Res[0].K == "map") {
			continue
		}
		if !isDerive(e) {
			continue // family (a)
		}
		F := exprText(e)
		doc := d.JSON()
		site := rootOpOf(e)
		V := v.Res[0]
		concrete := func(x string) M { return M{"machine": "Paths", "concrete": M{"expr": x, "input_json": doc}} }
		// the value itself must be what the specification defines (otherwise C01 speaks, not C16)
		if got, st, _ := evalList(F, doc); st != "ok" || len(got) != 1 || !got[0].Equal(V) {
			continue
		}
		relChecked++
		// mount := path(c)
		mountRes, st, _ := evalList("("+F+") | path", doc)
		if st != "ok" || len(mountRes) != 1 || mountRes[0].K != "seq" {
			rc.Report("path-of-derived-container:"+site, fmt.Sprintf("(%s) | path on %s: %s", F, doc, st), concrete("("+F+") | path"))
			continue
		}
		mount := []string{}
		for _, pe := range mountRes[0].E {
			mount = append(mount, pe.JSON())
		}
		// P1: [F | .. | path] == [mount ++ position]
		var want []string
		pathsOf(V, mount, &want)
		got, st, _ := evalList("["+"("+F+") | .. | path"+"]", doc)
		if st == "ok" && len(got) == 1 {
			var gs []string
			for _, p := range got[0].E {
				parts := []string{}
				for _, pe := range p.E {
					parts = append(parts, pe.JSON())
				}
				gs = append(gs, "["+strings.Join(parts, ",")+"]")
			}
			if strings.Join(gs, " ") != strings.Join(want, " ") {
				rc.Report("stale-path:"+site, fmt.Sprintf("[(%s) | .. | path] on %s: positions give %v, yq claims %v", F, doc, want, gs), concrete("[("+F+") | .. | path]"))
			}
		}
		// P2: keys of the children are their positions
		var wantKeys []string
		if V.K == "seq" {
			for i := range V.E {
				wantKeys = append(wantKeys, fmt.Sprint(i))
			}
		} else {
			for _, k := range V.MK {
				wantKeys = append(wantKeys, fmt.Sprintf("%q", k))
			}
		}
		if got, st, _ := evalList("[("+F+") | .[] | key]", doc); st == "ok" && len(got) == 1 {
			var gs []string
			for _, k := range got[0].E {
				gs = append(gs, k.JSON())
			}
			if strings.Join(gs, " ") != strings.Join(wantKeys, " ") {
				rc.Report("stale-key:"+site, fmt.Sprintf("[(%s) | .[] | key] on %s: positions %v, yq claims %v", F, doc, wantKeys, gs), concrete("[("+F+") | .[] | key]"))
			}
		}
		// P3: the parent of every child is the container
		if got, st, _ := evalList("[("+F+") | .[] | parent]", doc); st == "ok" && len(got) == 1 {
			for _, p := range got[0].E {
				if !p.Equal(V) {
					rc.Report("wrong-parent:"+site, fmt.Sprintf("[(%s) | .[] | parent] on %s: a child's parent is %s, the container is %s", F, doc, p.JSON(), V.JSON()), concrete("[("+F+") | .[] | parent]"))
					break
				}
			}
		}
		// P4: keys and to_entries enumerate the positions
		if got, st, _ := evalList("("+F+") | keys", doc); st == "ok" && len(got) == 1 {
			var gs []string
			for _, k := range got[0].E {
				gs = append(gs, k.JSON())
			}
			if strings.Join(gs, " ") != strings.Join(wantKeys, " ") {
				rc.Report("keys-disagree:"+site, fmt.Sprintf("(%s) | keys on %s: %v, positions %v", F, doc, gs, wantKeys), concrete("("+F+") | keys"))
			}
		}
		if got, st, _ := evalList("[("+F+") | to_entries | .[] | .key]", doc); st == "ok" && len(got) == 1 {
			var gs []string
			for _, k := range got[0].E {
				gs = append(gs, k.JSON())
			}
			if strings.Join(gs, " ") != strings.Join(wantKeys, " ") {
				rc.Report("to_entries-keys-disagree:"+site, fmt.Sprintf("(%s) | to_entries keys on %s: %v, positions %v", F, doc, gs, wantKeys), concrete("[("+F+") | to_entries | .[] | .key]"))
			}
		}
		// P5: traversing the claimed path of every node from the container returns that node
		for i := range wantKeys {
			sel := ".[" + wantKeys[i] + "]"
			if got, st, _ := evalList("("+F+") | "+sel, doc); st == "ok" && len(got) == 1 {
				var child *AV
				if V.K == "seq" {
					child = V.E[i]
				} else {
					child = V.MV[i]
				}
				if !got[0].Equal(child) {
					rc.Report("retraversal:"+site, fmt.Sprintf("(%s) | %s on %s: %s, the child there is %s", F, sel, doc, got[0].JSON(), child.JSON()), concrete("("+F+") | "+sel))
				}
			}
		}
	}
	// ---- the law on values the generators of Gen_Paths do not build (they need YAML features, or operators outside Eval.tla):
	// path(n) is where n is reached, key(n) is the last element of path(n), keys() names what key() reports
	type extraCase struct{ name, stdin, expr, want string }
	extraDir := filepath.Join(rc.Out, "extra")
	os.MkdirAll(extraDir, 0o755)
	for _, ec := range []extraCase{
		// a key node collected into a sequence is an element of that sequence, not a key any more
		{"key-node-collected-into-a-sequence", "a: {b: 1, c: 2}\n", `(.x = ["p", (.a.c | key)]) | .x[1] | [path, key]`, `[["x",1],1]`},
		// the index that `key` reports for an element of a sequence is a copy: assigning to it does not move the element
		{"index-key-is-not-writable", "a: [10, 20]\n", `((.a[1] | key) = 7) | [.a[] | path]`, `[["a",0],["a",1]]`},
		// after explode the entries of a map that had a merge key are entries: renaming a key through `key` renames the entry
		{"explode-of-a-merge-keeps-entries", "a: &A {x: 1}\nb: {<<: *A, z: 1}\n", `explode(.) | ((.b.z | key) = "q") | [(.b | keys), [.b[] | key], [.b[] | path]]`, `[["x","q"],["x","q"],[["b","x"],["b","q"]]]`},
		{"explode-of-a-merge-numbers-nothing", "a: &A {x: 1}\nb: {<<: *A, z: 1}\n", `explode(.) | [.b | ... | select(is_key) | path]`, `[["b","x"],["b","z"]]`},
		// the elements of a decoded TOML array of tables sit at 0, 1, 2
		{"toml-array-of-tables-indices", "@toml@[[t]]\nq=1\n[[t]]\nq=2\n[[t]]\nq=3\n", `[.t[] | path]`, `[["t",0],["t",1],["t",2]]`},
		// a document made by split_doc is a root: its path is empty, paths below it start there
		{"split_doc-makes-roots", "d: [{e: 1}, {e: 2}]\n", `[.d[] | split_doc | [path, (.e | path)]]`, `[[[],["e"]],[[],["e"]]]`},
	} {
		xargs := []string{"-o=json", "-I0", ec.expr}
		if strings.HasPrefix(ec.stdin, "@toml@") {
			ec.stdin = strings.TrimPrefix(ec.stdin, "@toml@")
			xargs = append([]string{"-p=toml"}, xargs...)
		}
		p := runProc(extraDir, []byte(ec.stdin), xargs...)
		if got := strings.TrimSpace(p.Stdout); p.Hang || p.Code != 0 || got != ec.want {
			rc.Report("extra:"+ec.name, fmt.Sprintf("yq '%s' on %q prints %q (exit %d, %s); the positions give %s", ec.expr, ec.stdin, p.Stdout, p.Code, firstLine(p.Stderr), ec.want),
				M{"machine": "Paths", "concrete": M{"argv": []string{"yq", "-o=json", "-I0", ec.expr}, "stdin": ec.stdin}, "expected": ec.want, "observed": p.Stdout})
		}
	}
	rc.Set("states", g.TLC.Distinct)
	rc.Set("transitions", g.TLC.Generated)
	rc.Set("traces_validated_against_impl", stats.compared+relChecked)
	rc.Set("derived_containers_checked_for_the_relative_law", relChecked)
	rc.Set("vectors_unspec_not_compared", stats.unspec)
	rc.Set("laws_checked_on_model", []string{"PathTruth"})
	rc.Set("exhaustive", true)
	rc.Assume("for a derived container the law is relative to the container's own path (the statement speaks of the root of the value the node belongs to)")
	return nil
}
