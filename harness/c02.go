package main

import (
	"fmt"
	"time"
)

func init() {
	register("C02", func(rc *Run) error {
		return genEvalCheck(rc, "Gen_Assign", "INVARIANTS PutGet GetPut PutPut Frame WithLaw", []string{"PutGet", "GetPut", "PutPut", "Frame", "WithLaw"}, 1)
	})
}

// genEvalCheck: a Gen_* module over the evaluator machine with laws checked as invariants and e/d/v vectors replayed on yqlib.
func genEvalCheck(rc *Run, module, invLine string, laws []string, quickShards int) error {
	rc.Level = "model_checking"
	nsh := rc.Pick(quickShards, 1)
	shard := int(rc.Seed % int64(nsh))
	if shard < 0 {
		shard = -shard
	}
	big := "FALSE"
	if rc.Thorough() {
		big = "TRUE"
	}
	cfg := fmt.Sprintf("CONSTANTS\n Dev = {}\n Big = "+big+"\n NShards = %d\n Shard = %d\nINIT Init\nNEXT Next\n%s\nCHECK_DEADLOCK FALSE\n", nsh, shard, invLine)
	g, err := runGenEval(rc, module, "gen", cfg, time.Duration(rc.Pick(10, 40))*time.Minute)
	if err != nil {
		return err
	}
	rc.Logf("TLC: laws %v hold on %d states; %d vectors (%d expressions x %d documents)", laws, g.TLC.Distinct, len(g.Vectors), len(g.Exprs), len(g.Docs))
	stats := replayEvalVectors(rc, g, rc.ID)
	// code -> model: the handler steps of a sample of the real evaluations, judged by TLC (Trace_Eval.tla)
	if err := validateHandlerSteps(rc, g, rc.Pick(4, 16), rc.ID); err != nil {
		return err
	}
	rc.Set("states", g.TLC.Distinct)
	rc.Set("transitions", g.TLC.Generated)
	rc.Set("traces_validated_against_impl", stats.compared)
	rc.Set("vectors_unspec_not_compared", stats.unspec)
	rc.Set("expressions", len(g.Exprs))
	rc.Set("documents", len(g.Docs))
	rc.Set("operators_covered", stats.ops)
	rc.Set("laws_checked_on_model", laws)
	rc.Set("exhaustive", nsh == 1)
	return nil
}
