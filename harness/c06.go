package main

import (
	"bytes"
	"encoding/json"
	"fmt"
	"io"
	"os"
	"path/filepath"
	"reflect"
	"regexp"
	"runtime"
	"sort"
	"strings"
	"sync"
	"time"
	"unicode/utf8"
)

func init() { register("C06", checkC06) }

// ---- concrete documents: leaves carry the SPELLING fed to yq, the specification derives the value from it

type cv struct {
	K  string // ytext (plain YAML scalar), jnum (JSON number), str, null, bool, seq, map
	T  string // spelling / string content / "true"
	E  []*cv
	MK []string
	MV []*cv
}

func cps(s string) []int {
	out := []int{}
	for _, r := range s {
		out = append(out, int(r))
	}
	return out
}

// the tree handed to TLC (Trace_Json.tla)
func (c *cv) want() interface{} {
	switch c.K {
	case "ytext", "jnum":
		return M{"k": c.K, "t": cps(c.T)}
	case "str":
		return M{"k": "str", "s": cps(c.T)}
	case "null":
		return M{"k": "null"}
	case "bool":
		return M{"k": "bool", "b": c.T == "true"}
	case "seq":
		e := []interface{}{}
		for _, x := range c.E {
			e = append(e, x.want())
		}
		return M{"k": "seq", "e": e}
	}
	m := []interface{}{}
	for i, k := range c.MK {
		m = append(m, []interface{}{cps(k), c.MV[i].want()})
	}
	return M{"k": "map", "m": m}
}

var yamlPools = map[string][]string{
	"null":     {"null", "~", "Null", "NULL"},
	"bool":     {"true", "false", "True", "FALSE", "TRUE", "False"},
	"int":      {"0", "7", "-1", "+5", "42", "1000000", "-0", "017", "-2147483649"},
	"bigint":   {"9007199254740993", "-9007199254740993", "9223372036854775807", "-9223372036854775808", "9223372036854775808", "18446744073709551615", "18446744073709551616", "123456789012345678901234567890", "-99999999999999999999"},
	"hexoct":   {"0x1F", "0xff", "0x0", "0x7FFFFFFFFFFFFFFF", "0o17", "0o777", "0xFFFFFFFFFFFFFFFF"},
	"float":    {"1.5", "0.1", "-2.25", "3.14159", "0.30000000000000004", "1.0", "100.0", "2.50", "-0.0", "123456.789"},
	"expfloat": {"1e3", "1E3", "1.5e300", "1e-7", "5e-324", "1.7976931348623157e308", "6.02e+23", "15e-1", "1e0", "2.5E-3"},
	"oddfloat": {".5", "5.", "+1.5", "-.5"},
	"inf":      {".inf", "-.inf", ".Inf", "+.inf"},
	"nan":      {".nan", ".NaN", ".NAN"},
}
var jsonNumPools = map[string][]string{
	"int":      {"0", "7", "-1", "42", "-0", "1000000", "-2147483649"},
	"bigint":   {"9007199254740993", "-9007199254740993", "9223372036854775807", "-9223372036854775808", "9223372036854775808", "18446744073709551615", "18446744073709551616", "123456789012345678901234567890", "-99999999999999999999"},
	"float":    {"1.5", "0.1", "-2.25", "1.0", "-0.0", "100000000000000000000.0", "0.30000000000000004", "2.50", "123456.789"},
	"expfloat": {"1e3", "1E+3", "1.5e300", "1e-7", "5e-324", "6.02e+23", "1e0", "2.5E-3", "1.7976931348623157e308"},
}
var strPools = map[string][]string{
	"str":       {"abc", "hello world", "x-y_z", "CamelCase 42"},
	"emptystr":  {""},
	"ctrl":      {"a\x01b", "\x1f", "tab\there", "cr\rlf", "\b\f", "\x7f", "nul\x00mid", "\x1b[0m", "\u0085", " x"},
	"quote":     {`a"b`, `\`, `a\b`, `/`, `</script>`, `it's`, `"`, `\"`, `\\n`, `''`},
	"unicode":   {"é", "中文", " ", " ", "ñandú", "�", "​z"},
	"nonbmp":    {"😀", "a𝄞b", "😀😀"},
	"html":      {"<>&", "<a href='x'>", "&amp;"},
	"lookalike": {"true", "null", "123", "1e3", "0x1F", "~", ".inf", "-", "yes", "1_000", " lead", "trail ", "#c", "a: b", "- x", "[x", "{x", "*x", "&x", "!x", "|", ">", "%x", "@x", "`x", "? x", ": x", "x #y", "null ", "1.0", "+1", "<<", "=", "0o17", ".nan", "False", "2001-01-01", "12:30:45"},
	"multiline": {"a\nb", "a\nb\n", "line1\n\nline3", "\nlead", "  indented\nnext", "trailing space \nx", "a\n\n", "\ta\nb", "\n", "\n\n", "\n x", "a\n\tb", "\n#c", "- a\nb", "a\n---\nb", "a\r\nb"},
}
var keyPools = map[string][]string{
	"plain":     {"a", "b", "key", "k2"},
	"digits":    {"1", "007", "42"},
	"empty":     {""},
	"special":   {"a b", "x:y", `q"r`, "it's", "k,k", "#h", "a: b", "[", "tab\tkey", "new\nline"},
	"unicode":   {"é", "中", "😀"},
	"lookalike": {"true", "null", "~", "1.5", "<<", "no", "0x1F"},
}

func pick(pool []string, n int) string { return pool[((n%len(pool))+len(pool))%len(pool)] }

// concretise a filled structure of Gen_Json; json selects the JSON-side pools
func concretise(f M, n int, forJSON bool) *cv {
	switch f["k"] {
	case "leaf":
		c := f["c"].(string)
		if p, ok := strPools[c]; ok {
			return &cv{K: "str", T: pick(p, n)}
		}
		if forJSON {
			switch c {
			case "null":
				return &cv{K: "null"}
			case "bool":
				return &cv{K: "bool", T: pick([]string{"true", "false"}, n)}
			}
			p, ok := jsonNumPools[c]
			if !ok {
				p = jsonNumPools["int"]
			}
			return &cv{K: "jnum", T: pick(p, n)}
		}
		return &cv{K: "ytext", T: pick(yamlPools[c], n)}
	case "seq":
		out := &cv{K: "seq"}
		if es, ok := f["e"].([]interface{}); ok {
			for i, e := range es {
				out.E = append(out.E, concretise(e.(M), n+i+1, forJSON))
			}
		}
		return out
	}
	out := &cv{K: "map"}
	if ms, ok := f["m"].([]interface{}); ok {
		used := map[string]bool{}
		for i, e := range ms {
			em := e.(M)
			pool := keyPools[em["key"].(string)]
			k := pick(pool, n+i)
			for j := 1; used[k] && j < 8; j++ {
				k = pick(keyPools["plain"], n+i+j)
			}
			used[k] = true
			out.MK = append(out.MK, k)
			out.MV = append(out.MV, concretise(em["v"].(M), n+3*(i+1), forJSON))
		}
	}
	return out
}

func (c *cv) unrepresentable() bool {
	switch c.K {
	case "ytext":
		t := strings.ToLower(strings.TrimLeft(c.T, "+-"))
		return t == ".inf" || t == ".nan"
	case "seq":
		for _, e := range c.E {
			if e.unrepresentable() {
				return true
			}
		}
	case "map":
		for _, e := range c.MV {
			if e.unrepresentable() {
				return true
			}
		}
	}
	return false
}

// ---- YAML rendering (the renderer is trusted; strings rendered PLAIN are handed to the specification as ytext)

var rePlainSafe = regexp.MustCompile(`^[A-Za-z_][A-Za-z0-9_]*( [A-Za-z0-9_]+)*$`)
var reservedPlain = map[string]bool{"null": true, "true": true, "false": true, "yes": true, "no": true, "on": true, "off": true, "y": true, "n": true, "nan": true, "inf": true}

func yamlDQ(s string, n int) string {
	var sb strings.Builder
	sb.WriteByte('"')
	for _, r := range s {
		switch {
		case r == '"':
			sb.WriteString(`\"`)
		case r == '\\':
			sb.WriteString(`\\`)
		case r == '\n':
			sb.WriteString(`\n`)
		case r == '\t':
			sb.WriteString(`\t`)
		case r < 0x20 || (r >= 0x7f && r <= 0xa0):
			sb.WriteString(fmt.Sprintf(`\x%02X`, r))
		case r == 0x2028 || r == 0x2029 || r == 0xfeff || r == 0x200b:
			sb.WriteString(fmt.Sprintf(`\u%04X`, r))
		case r > 0x7e && n%2 == 0 && r < 0x10000:
			sb.WriteString(fmt.Sprintf(`\u%04X`, r))
		case r >= 0x10000 && n%2 == 0:
			sb.WriteString(fmt.Sprintf(`\U%08X`, r))
		default:
			sb.WriteRune(r)
		}
	}
	sb.WriteByte('"')
	return sb.String()
}

func printableASCII(s string) bool {
	for _, r := range s {
		if r < 0x20 || r > 0x7e {
			return false
		}
	}
	return true
}

// renders a string scalar in style n%4; mutates the node to ytext when rendered plain
func (c *cv) yamlScalar(n int) string {
	switch c.K {
	case "ytext":
		return c.T
	case "null":
		return "null"
	case "bool":
		return c.T
	}
	s := c.T
	switch n % 4 {
	case 1:
		if s != "" && printableASCII(s) {
			return "'" + strings.ReplaceAll(s, "'", "''") + "'"
		}
	case 2:
		if rePlainSafe.MatchString(s) && !reservedPlain[strings.ToLower(s)] {
			c.K = "ytext"
			return s
		}
	}
	return yamlDQ(s, n)
}

func literalOK(s string) bool {
	if !strings.Contains(s, "\n") || strings.HasPrefix(s, "\n") || strings.HasPrefix(s, " ") || strings.HasSuffix(s, "\n\n") {
		return false
	}
	for _, line := range strings.Split(s, "\n") {
		if strings.HasSuffix(line, " ") || strings.HasPrefix(line, " ") || strings.HasPrefix(line, "\t") {
			return false
		}
		for _, r := range line {
			if r < 0x20 || r == 0x7f {
				return false
			}
		}
	}
	return true
}

func yamlKey(k string, n int) string {
	if rePlainSafe.MatchString(k) && !reservedPlain[strings.ToLower(k)] && n%3 != 0 {
		return k
	}
	if n%3 == 1 && k != "" && printableASCII(k) {
		return "'" + strings.ReplaceAll(k, "'", "''") + "'"
	}
	return yamlDQ(k, n)
}

func (c *cv) yamlFlow(n int) string {
	switch c.K {
	case "seq":
		parts := []string{}
		for i, e := range c.E {
			parts = append(parts, e.yamlFlow(n+i))
		}
		return "[" + strings.Join(parts, ", ") + "]"
	case "map":
		parts := []string{}
		for i, k := range c.MK {
			parts = append(parts, yamlKey(k, n+i)+": "+c.MV[i].yamlFlow(n+i+1))
		}
		return "{" + strings.Join(parts, ", ") + "}"
	}
	if c.K == "str" && n%4 == 2 { // no plain strings inside flow collections (commas, brackets)
		return c.yamlScalar(n + 1)
	}
	return c.yamlScalar(n)
}

func (c *cv) isEmptyOrScalar() bool {
	return !(c.K == "seq" && len(c.E) > 0) && !(c.K == "map" && len(c.MK) > 0)
}

// block rendering; returns lines without indentation of the first level
func (c *cv) yamlBlock(n int) []string {
	inline := func(x *cv, n int, ind string) []string {
		if x.K == "str" && n%4 == 3 && literalOK(x.T) {
			hdr := "|-"
			body := x.T
			if strings.HasSuffix(body, "\n") {
				hdr = "|"
				body = strings.TrimSuffix(body, "\n")
			}
			out := []string{hdr}
			for _, l := range strings.Split(body, "\n") {
				if l == "" {
					out = append(out, "")
				} else {
					out = append(out, ind+"  "+l)
				}
			}
			return out
		}
		if x.K == "seq" || x.K == "map" {
			return []string{x.yamlFlow(n)} // empty container
		}
		return []string{x.yamlScalar(n)}
	}
	var lines []string
	switch c.K {
	case "map":
		for i, k := range c.MK {
			v := c.MV[i]
			if v.isEmptyOrScalar() {
				r := inline(v, n+i+1, "")
				lines = append(lines, yamlKey(k, n+i)+": "+r[0])
				lines = append(lines, r[1:]...)
			} else {
				lines = append(lines, yamlKey(k, n+i)+":")
				for _, l := range v.yamlBlock(n + i + 1) {
					lines = append(lines, "  "+l)
				}
			}
		}
	case "seq":
		for i, v := range c.E {
			if v.isEmptyOrScalar() {
				r := inline(v, n+i, "")
				lines = append(lines, "- "+r[0])
				lines = append(lines, r[1:]...)
			} else {
				sub := v.yamlBlock(n + i)
				lines = append(lines, "- "+sub[0])
				for _, l := range sub[1:] {
					lines = append(lines, "  "+l)
				}
			}
		}
	default:
		return []string{c.yamlFlow(n)}
	}
	return lines
}

func (c *cv) yamlDoc(n int) string {
	if c.isEmptyOrScalar() || n%2 == 0 {
		return c.yamlFlow(n) + "\n"
	}
	return strings.Join(c.yamlBlock(n), "\n") + "\n"
}

// ---- JSON rendering (input side)
func jsonStr(s string, n int) string {
	var sb strings.Builder
	sb.WriteByte('"')
	for _, r := range s {
		switch {
		case r == '"':
			sb.WriteString(`\"`)
		case r == '\\':
			sb.WriteString(`\\`)
		case r == '/' && n%2 == 1:
			sb.WriteString(`\/`)
		case r == '\n' && n%2 == 0:
			sb.WriteString(`\n`)
		case r < 0x20:
			sb.WriteString(fmt.Sprintf(`\u%04x`, r))
		case r >= 0x10000 && n%2 == 1:
			r -= 0x10000
			sb.WriteString(fmt.Sprintf(`\ud%03x\ud%03x`, 0x800+(r>>10), 0xc00+(r&0x3ff)))
		case r > 0x7e && r < 0x10000 && n%2 == 1:
			sb.WriteString(fmt.Sprintf(`\u%04X`, r))
		default:
			sb.WriteRune(r)
		}
	}
	sb.WriteByte('"')
	return sb.String()
}

func (c *cv) jsonText(n int) string {
	sp := []string{"", " ", "\n  "}[n%3]
	switch c.K {
	case "jnum", "ytext":
		return c.T
	case "null":
		return "null"
	case "bool":
		return c.T
	case "str":
		return jsonStr(c.T, n)
	case "seq":
		parts := []string{}
		for i, e := range c.E {
			parts = append(parts, e.jsonText(n+i))
		}
		return "[" + sp + strings.Join(parts, ","+sp) + sp + "]"
	}
	parts := []string{}
	for i, k := range c.MK {
		parts = append(parts, jsonStr(k, n+i)+":"+sp+c.MV[i].jsonText(n+i+1))
	}
	return "{" + sp + strings.Join(parts, ","+sp) + sp + "}"
}

// label: the rarest class of a filled structure (fingerprints)
func caseLabel(f M) string {
	set := map[string]bool{}
	var walk func(x M)
	walk = func(x M) {
		switch x["k"] {
		case "leaf":
			set[x["c"].(string)] = true
		case "seq":
			if es, ok := x["e"].([]interface{}); ok {
				for _, e := range es {
					walk(e.(M))
				}
			}
		case "map":
			if ms, ok := x["m"].([]interface{}); ok {
				for _, e := range ms {
					em := e.(M)
					if em["key"] != "plain" {
						set["key-"+em["key"].(string)] = true
					}
					walk(em["v"].(M))
				}
			}
		}
	}
	walk(f)
	var names []string
	for k := range set {
		if k != "int" && k != "str" {
			names = append(names, k)
		}
	}
	sort.Strings(names)
	if len(names) == 0 {
		return "default"
	}
	return strings.Join(names, "+")
}

// the look-alike key classes name the concrete key (a finding about one key must not hide another)
func refineLabel(label string, c *cv) string {
	if !strings.Contains(label, "key-lookalike") {
		return label
	}
	found := ""
	var walk func(x *cv)
	walk = func(x *cv) {
		for i, k := range x.MK {
			for _, p := range keyPools["lookalike"] {
				if k == p {
					found = k
				}
			}
			walk(x.MV[i])
		}
		for _, e := range x.E {
			walk(e)
		}
	}
	walk(c)
	return strings.Replace(label, "key-lookalike", "key-lookalike("+found+")", 1)
}

type jrun struct {
	dir     string // y2j | j2j | j2y2j
	args    []string
	input   string
	cases   []int // indices into docs
	docs    []*cv
	inputs  []string
	labels  []string
	out     string
	errText string
	err     bool
}

func checkC06(rc *Run) error {
	rc.Level = "model_checking"
	type jcase struct {
		Shape int
		F     M
	}
	var cases []jcase
	var mu sync.Mutex
	res, err := RunTLC(rc, TLCOpts{Name: "gen", Module: "Gen_Json", Cfg: "CONSTANTS\n Lanes = 16\nINIT Init\nNEXT Next\nINVARIANTS WriterReaderLaw StringLaw ResolveLaw ReaderRejects\nCHECK_DEADLOCK FALSE\n", Timeout: 20 * time.Minute,
		OnVector: func(js []byte) {
			var m M
			if json.Unmarshal(js, &m) != nil {
				return
			}
			mu.Lock()
			cases = append(cases, jcase{int(num(m["shape"])), m["f"].(M)})
			mu.Unlock()
		}})
	if err != nil {
		return err
	}
	if res.InvariantViolated != "" {
		return machinery("JsonText.tla violates its own law %s\n%s", res.InvariantViolated, res.ErrorText)
	}
	if len(cases) < 1000 {
		return machinery("Gen_Json produced %d cases", len(cases))
	}
	sort.Slice(cases, func(i, j int) bool {
		a, _ := json.Marshal(cases[i].F)
		b, _ := json.Marshal(cases[j].F)
		if cases[i].Shape != cases[j].Shape {
			return cases[i].Shape < cases[j].Shape
		}
		return string(a) < string(b)
	})
	rc.Logf("TLC: WriterReaderLaw/StringLaw/ResolveLaw/ReaderRejects hold; %d cases over %d shapes", len(cases), res.Distinct)
	nsh := rc.Pick(4, 1)
	shard := int(((rc.Seed % int64(nsh)) + int64(nsh)) % int64(nsh))
	seed := int(rc.Seed%1000) * 7

	// ---- build the runs
	var runs []*jrun
	flagSets := [][]string{{"-o=json", "-I0"}, {"-o=json", "-I2"}, {"-o=json", "-I7"}, {"-o=json", "-I0", "--unwrapScalar=false"}, {"-o=json"}}
	const batch = 24
	var ybatch, jbatch *jrun
	nb := 0
	flush := func(b **jrun) {
		if *b != nil && len((*b).docs) > 0 {
			runs = append(runs, *b)
		}
		*b = nil
	}
	for i, c := range cases {
		if !inShard(i, nsh, shard) {
			continue
		}
		for rot := 0; rot < rc.Pick(1, 4); rot++ {
			n := i + seed + rot*11
			label := caseLabel(c.F)
			ylabel, jlabel := label, label
			// YAML -> JSON
			y := concretise(c.F, n, false)
			ylabel = refineLabel(label, y)
			ytext := y.yamlDoc(n)
			if y.unrepresentable() {
				runs = append(runs, &jrun{dir: "y2j", args: flagSets[n%len(flagSets)], input: ytext, inputs: []string{ytext}, docs: []*cv{y}, labels: []string{ylabel}})
			} else {
				if ybatch == nil {
					ybatch = &jrun{dir: "y2j", args: flagSets[nb%len(flagSets)]}
					nb++
				}
				ybatch.input += "---\n" + ytext
				ybatch.inputs = append(ybatch.inputs, ytext)
				ybatch.docs = append(ybatch.docs, y)
				ybatch.labels = append(ybatch.labels, ylabel)
				if len(ybatch.docs) >= batch {
					flush(&ybatch)
				}
			}
			// JSON -> JSON and JSON -> YAML -> JSON
			j := concretise(c.F, n, true)
			jlabel = refineLabel(label, j)
			if jbatch == nil {
				jbatch = &jrun{dir: "j2j", args: []string{"-p=json", "-o=json", "-I0"}}
			}
			jbatch.input += j.jsonText(n) + "\n"
			jbatch.inputs = append(jbatch.inputs, j.jsonText(n)+"\n")
			jbatch.docs = append(jbatch.docs, j)
			jbatch.labels = append(jbatch.labels, jlabel)
			if len(jbatch.docs) >= batch {
				j2 := *jbatch
				j2.dir = "j2y2j"
				j2.args = []string{"-p=json", "-o=yaml", "--unwrapScalar=false"}
				runs = append(runs, &j2)
				flush(&jbatch)
			}
		}
	}
	flush(&ybatch)
	if jbatch != nil {
		j2 := *jbatch
		j2.dir = "j2y2j"
		j2.args = []string{"-p=json", "-o=yaml", "--unwrapScalar=false"}
		runs = append(runs, &j2)
		flush(&jbatch)
	}

	// ---- execute
	dir := filepath.Join(rc.Out, "run")
	os.MkdirAll(dir, 0o755)
	exec1 := func(r *jrun) {
		p := runProc(dir, []byte(r.input), append(append([]string{}, r.args...), ".")...)
		if p.Hang || p.crashed() {
			r.err, r.errText = true, "crash/hang: "+firstLine(p.Stderr)
			return
		}
		if p.Code != 0 {
			r.err, r.errText = true, firstLine(p.Stderr)
			return
		}
		r.out = p.Stdout
		if r.dir == "j2y2j" {
			p2 := runProc(dir, []byte(p.Stdout), "-o=json", "-I0", ".")
			if p2.Code != 0 || p2.Hang {
				r.err, r.errText = true, "second pass: "+firstLine(p2.Stderr)+" on YAML "+p.Stdout
				return
			}
			r.out = p2.Stdout
		}
	}
	parallel := func(rs []*jrun) {
		ch := make(chan *jrun, len(rs))
		var wg sync.WaitGroup
		for w := 0; w < runtime.NumCPU(); w++ {
			wg.Add(1)
			go func() {
				defer wg.Done()
				for r := range ch {
					exec1(r)
				}
			}()
		}
		for _, r := range rs {
			ch <- r
		}
		close(ch)
		wg.Wait()
	}
	parallel(runs)
	// a batch that failed although every document is representable is split to attribute the failure
	var final []*jrun
	var split []*jrun
	for _, r := range runs {
		if r.err && len(r.docs) > 1 {
			split = append(split, r)
		} else {
			final = append(final, r)
		}
	}
	if err := checkC06Aliases(rc); err != nil {
		return err
	}
	return checkC06Judge(rc, res, final, split, parallel, len(cases))
}

// aliases and merge keys are resolved on the way to JSON, also when only a PART of the document is printed (the anchors
// then live outside the selection): documents and resolved values of Gen_Anchors / Anchors.tla. Divergences that the
// named deviations of Anchors.tla explain are C13's known findings and are not judged here.
func checkC06Aliases(rc *Run) error {
	vecs, _, err := loadAnchorVectors(rc, false)
	if err != nil {
		return err
	}
	nsh := rc.Pick(6, 1)
	shard := int(((rc.Seed % int64(nsh)) + int64(nsh)) % int64(nsh))
	type sel struct {
		expr string
		get  func(v *AV) *AV
	}
	field := func(v *AV, k string) *AV {
		if v == nil || v.K != "map" {
			return nil
		}
		for i, mk := range v.MK {
			if mk == k {
				return v.MV[i]
			}
		}
		return nil
	}
	sels := []sel{
		{".", func(v *AV) *AV { return v }},
		{".m", func(v *AV) *AV { return field(v, "m") }},
		{"[.m]", func(v *AV) *AV { return &AV{K: "seq", E: []*AV{field(v, "m")}} }},
		{"{\"x\": .m, \"y\": .c}", func(v *AV) *AV { return &AV{K: "map", MK: []string{"x", "y"}, MV: []*AV{field(v, "m"), field(v, "c")}} }},
		{".c", func(v *AV) *AV { return field(v, "c") }},
	}
	var mu sync.Mutex
	judged, deviations := 0, 0
	jobs := make(chan int, 64)
	var wg sync.WaitGroup
	for w := 0; w < runtime.NumCPU(); w++ {
		wg.Add(1)
		go func(w int) {
			defer wg.Done()
			dir := filepath.Join(rc.Out, fmt.Sprintf("a%d", w))
			os.MkdirAll(dir, 0o755)
			for i := range jobs {
				v := vecs[i]
				text := renderATree(v.Doc) + "\n"
				for _, s := range sels {
					want := s.get(v.Resolved)
					if want == nil || (want.K == "seq" && want.E[0] == nil) {
						continue
					}
					p := runProc(dir, []byte(text), "-o=json", "-I0", s.expr)
					mu.Lock()
					judged++
					mu.Unlock()
					concrete := M{"machine": "Anchors", "concrete": M{"argv": []string{"yq", "-o=json", "-I0", s.expr}, "stdin": text}}
					if p.Code != 0 || p.Hang {
						rc.Report("alias-json:error:"+s.expr, fmt.Sprintf("yq -o=json %s on %s fails: %s", s.expr, strings.TrimSpace(text), firstLine(p.Stderr)), concrete)
						continue
					}
					got, err := decodeJSON(strings.TrimSpace(p.Stdout))
					if err != nil {
						rc.Report("alias-json:invalid-json:"+s.expr, fmt.Sprintf("yq -o=json %s on %s prints %q", s.expr, strings.TrimSpace(text), p.Stdout), concrete)
						continue
					}
					g := canon(alpha(got))
					if g == canon(want) {
						continue
					}
					if (v.DevExpl != nil && g == canon(s.get(v.DevExpl))) || (v.DevTrav != nil && g == canon(s.get(v.DevTrav))) {
						mu.Lock()
						deviations++
						mu.Unlock()
						continue
					}
					rc.Report("alias-json:different-value:"+s.expr, fmt.Sprintf("yq -o=json -I0 '%s' on %s: the merge-key rules give %s, yq prints %s", s.expr, strings.TrimSpace(text), canon(want), g), concrete)
				}
			}
		}(w)
	}
	for i := range vecs {
		if inShard(i, nsh, shard) {
			jobs <- i
		}
	}
	close(jobs)
	wg.Wait()
	rc.Set("alias_documents_x_selections_judged", judged)
	rc.Set("alias_reads_explained_by_C13_known_deviations", deviations)
	return nil
}

func checkC06Judge(rc *Run, res *TLCResult, final, split []*jrun, parallel func([]*jrun), ncases int) error {
	// split failed batches: inputs are re-rendered document by document
	var solos []*jrun
	for _, r := range split {
		inputs := r.inputs
		for i, d := range r.docs {
			solos = append(solos, &jrun{dir: r.dir, args: r.args, input: inputs[i], inputs: []string{inputs[i]}, docs: []*cv{d}, labels: []string{r.labels[i]}})
		}
	}
	parallel(solos)
	final = append(final, solos...)

	// ---- trace file, judged by TLC
	var nd bytes.Buffer
	docsJudged := 0
	for _, r := range final {
		wants := []interface{}{}
		for _, d := range r.docs {
			wants = append(wants, d.want())
		}
		docsJudged += len(r.docs)
		if !r.err && !utf8.ValidString(r.out) {
			rc.Report("invalid-utf8:"+r.dir+":"+r.labels[0], fmt.Sprintf("yq %s prints invalid UTF-8 for %q", strings.Join(r.args, " "), r.input),
				M{"machine": "JsonText", "concrete": M{"argv": r.args, "stdin": r.input}})
		}
		b, _ := json.Marshal(M{"err": r.err, "out": cps(r.out), "wants": wants})
		nd.Write(b)
		nd.WriteString("\n")
	}
	type badv struct {
		why   string
		first int
	}
	bad := map[int]badv{}
	var mu sync.Mutex
	reBad := regexp.MustCompile(`^<<"BAD", (\d+), "([^"]+)", (\d+)>>`)
	tv, err := RunTLC(rc, TLCOpts{Name: "trace", Module: "Trace_Json", Extra: map[string]string{"json_pairs.ndjson": nd.String()},
		Cfg: "CONSTANTS\n Chunk = 8\nINIT Init\nNEXT Next\nINVARIANTS Judge\nCHECK_DEADLOCK FALSE\n", Timeout: 40 * time.Minute, HeapGB: 12,
		OnLine: func(line string) {
			if m := reBad.FindStringSubmatch(line); m != nil {
				var i, f int
				fmt.Sscan(m[1], &i)
				fmt.Sscan(m[3], &f)
				mu.Lock()
				bad[i] = badv{m[2], f}
				mu.Unlock()
			}
		}})
	if err != nil {
		return err
	}
	if tv.InvariantViolated != "" {
		return machinery("Trace_Json: %s %s", tv.InvariantViolated, tv.ErrorText)
	}
	for i, b := range bad {
		r := final[i-1]
		k := b.first - 1
		if k < 0 || k >= len(r.docs) {
			k = 0
		}
		solo := r
		if len(r.docs) > 1 { // re-run the offending document alone for the report
			solo = &jrun{dir: r.dir, args: r.args, input: r.inputs[k], inputs: []string{r.inputs[k]}, docs: []*cv{r.docs[k]}, labels: []string{r.labels[k]}}
			parallel([]*jrun{solo})
		}
		what := fmt.Sprintf("%s: yq %s . on %q", b.why, strings.Join(solo.args, " "), solo.input)
		if solo.dir == "j2y2j" {
			what += " | yq -o=json -I0 ."
		}
		if solo.err {
			what += " fails: " + solo.errText
		} else {
			what += fmt.Sprintf(" prints %q", solo.out)
		}
		r = solo
		rc.Report(r.dir+":"+b.why+":"+r.labels[0], what, M{"machine": "JsonText", "concrete": M{"argv": append(append([]string{"yq"}, r.args...), "."), "stdin": r.input}, "observed": r.out})
	}
	// ---- encoding/json as the independent reader: every accepted output must be valid for it too
	for i, r := range final {
		if r.err {
			continue
		}
		if _, isBad := bad[i+1]; isBad {
			continue
		}
		dec := json.NewDecoder(strings.NewReader(r.out))
		dec.UseNumber()
		n := 0
		for {
			var v interface{}
			if err := dec.Decode(&v); err == io.EOF {
				break
			} else if err != nil {
				rc.Report(r.dir+":rejected-by-encoding/json:"+r.labels[0], fmt.Sprintf("yq %s on %q prints %q: %v", strings.Join(r.args, " "), r.input, r.out, err),
					M{"machine": "JsonText", "concrete": M{"argv": r.args, "stdin": r.input}})
				break
			}
			n++
		}
	}
	rc.Sample(M{"direction": final[0].dir, "argv": final[0].args, "stdin": final[0].input, "stdout": final[0].out})
	rc.Sample(M{"direction": final[len(final)-1].dir, "argv": final[len(final)-1].args, "stdin": final[len(final)-1].input, "stdout": final[len(final)-1].out})
	// ---- JSON strings whose YAML spelling the pools do not reach: a multi-line text holding U+2028 / U+2029 / U+0085 (line breaks
	// of their own to a YAML reader) must come back from JSON -> YAML -> JSON as it was
	{
		xdir := filepath.Join(rc.Out, "extra")
		os.MkdirAll(xdir, 0o755)
		for _, js := range []string{`["\u2028\na"]`, `["a\n\u2029b\n"]`, `{"k":"x\u0085\ny"}`, `["\u2028"]`, `["plain\nlines\n"]`} {
			y := runProc(xdir, []byte(js), "-p=json", "-o=yaml", "--unwrapScalar=false", ".")
			back := runProc(xdir, []byte(y.Stdout), "-p=yaml", "-o=json", "-I0", ".")
			var want, got interface{}
			if json.Unmarshal([]byte(js), &want) != nil {
				continue
			}
			if y.Code != 0 || back.Code != 0 || json.Unmarshal([]byte(back.Stdout), &got) != nil || !reflect.DeepEqual(want, got) {
				rc.Report("extra:j2y2j:unicode-line-breaks", fmt.Sprintf("%s converted to YAML (%q) and back gives %q", js, y.Stdout, back.Stdout),
					M{"machine": "JsonText", "concrete": M{"argv": []string{"yq", "-p=json", "-o=yaml", "."}, "stdin": js}, "expected": js, "observed": back.Stdout})
			}
		}
	}
	// ---- a custom tag does not change what a scalar denotes: the value, read as YAML resolves it, is what JSON gets
	{
		xdir := filepath.Join(rc.Out, "extra")
		for _, xc := range []struct{ yaml, want string }{
			{"a: !custom false\nb: !t true\nc: !x 12\nd: !y 1.5\ne: !z ~\nf: !w text\n", `{"a":false,"b":true,"c":12,"d":1.5,"e":null,"f":"text"}`},
		} {
			p := runProc(xdir, []byte(xc.yaml), "-o=json", "-I0", ".")
			if got := strings.TrimSpace(p.Stdout); p.Code != 0 || got != xc.want {
				rc.Report("extra:y2j:custom-tagged-scalars", fmt.Sprintf("yq -o=json on %q prints %q (exit %d); the scalars denote %s", xc.yaml, p.Stdout, p.Code, xc.want),
					M{"machine": "JsonText", "concrete": M{"argv": []string{"yq", "-o=json", "-I0", "."}, "stdin": xc.yaml}, "expected": xc.want, "observed": p.Stdout})
			}
		}
	}
	rc.Set("states", res.Distinct+tv.Distinct)
	rc.Set("transitions", res.Generated+tv.Generated)
	rc.Set("traces_validated_against_impl", docsJudged)
	rc.Set("cases_enumerated_by_TLC", ncases)
	rc.Set("runs_of_the_binary", len(final))
	rc.Set("laws_checked_on_model", []string{"WriterReaderLaw", "StringLaw", "ResolveLaw", "ReaderRejects"})
	rc.Set("exhaustive", rc.Pick(4, 1) == 1)
	rc.Assume("the harness' YAML/JSON input renderers are trusted; the VALUE every spelling denotes and the validity/value of every output are decided by JsonText.tla (encoding/json confirms validity)")
	rc.Assume("floats are drawn with at most 17 significant digits in their shortest round-trip spelling, so value-exactness of the decimal is the shortest-round-trip requirement")
	rc.Assume("JSON -> YAML is run with --unwrapScalar=false: with the default a top-level scalar is printed raw by design")
	rc.Assume("alias / merge-key divergences explained by the named deviations of Anchors.tla are C13's known findings and are not judged again here")
	return nil
}
