package main

import (
	"bytes"
	"context"
	"encoding/base64"
	"encoding/json"
	"fmt"
	"github.com/mikefarah/yq/v4/pkg/yqlib"
	"net/url"
	"os"
	"os/exec"
	"path/filepath"
	"regexp"
	"runtime"
	"strings"
	"sync"
	"time"
)

func init() { register("C19", checkC19) }

type cliRun struct {
	Stdout, Stderr string
	Code           int
	Hang           bool
}

// runCli runs the yq binary with explicit stdin/stdout handling. sink: "" normal, "full" = /dev/full.
func runCli(dir string, sink string, stdinOpenForever bool, args ...string) (*cliRun, error) {
	ctx, cancel := context.WithTimeout(context.Background(), 20*time.Second)
	defer cancel()
	cmd := exec.CommandContext(ctx, filepath.Join(verifHome, "out", "bin", "yq"), args...)
	cmd.Dir = dir
	var out, errb bytes.Buffer
	cmd.Stderr = &errb
	if sink == "full" {
		f, err := os.OpenFile("/dev/full", os.O_WRONLY, 0)
		if err != nil {
			return nil, err
		}
		defer f.Close()
		cmd.Stdout = f
	} else {
		cmd.Stdout = &out
	}
	if stdinOpenForever {
		pr, pw, err := os.Pipe()
		if err != nil {
			return nil, err
		}
		defer pw.Close()
		defer pr.Close()
		cmd.Stdin = pr // a pipe nobody writes to or closes: reading it blocks
	}
	e := cmd.Run()
	r := &cliRun{Stdout: out.String(), Stderr: errb.String()}
	if ctx.Err() != nil {
		r.Hang = true
		r.Code = -1
		return r, nil
	}
	if e != nil {
		if ee, ok := e.(*exec.ExitError); ok {
			r.Code = ee.ExitCode()
			return r, nil
		}
		return nil, e
	}
	return r, nil
}

var falsySpellings = []string{"false", "null", "~", "False", "FALSE"}

func contentLines(s string) []string {
	var out []string
	for _, l := range strings.Split(s, "\n") {
		if l == "" || l == "---" {
			continue
		}
		out = append(out, l)
	}
	return out
}

// concretise one configuration of Cli.tla; returns argv, files, expected stdout lines
func cliConcretise(cfg M, dir string, variant int) (args []string, want []string, sink string) {
	layout := cfg["layout"].([]interface{})
	fail := cfg["fail"].(M)
	kind := fail["kind"].(string)
	at := int(num(fail["at"]))
	truth := cfg["truth"].(string)
	eflag := cfg["e"].(bool)
	k := 0
	var names []string
	printedLimit := 1 << 30
	if kind == "decode" || kind == "eval" || kind == "encode" {
		printedLimit = at - 1
	}
	if kind == "parse" || kind == "sink" {
		printedLimit = 0
	}
	for fi, n := range layout {
		var sb strings.Builder
		for d := 0; d < int(num(n)); d++ {
			k++
			if d > 0 {
				sb.WriteString("---\n")
			}
			sel := 1
			if truth == "none" {
				sel = 0
			}
			v := fmt.Sprintf("t%d", k)
			ndocsTotal := 0
			for _, nn := range layout {
				ndocsTotal += int(num(nn))
			}
			if truth == "falsy" || (truth == "tf" && k != 1) || (truth == "ft" && k != ndocsTotal) {
				v = falsySpellings[(k+variant)%len(falsySpellings)]
			}
			switch {
			case kind == "decode" && k == at:
				sb.WriteString(fmt.Sprintf("sel: %d\nv: [unterminated, %d\n", sel, k))
			case kind == "eval" && k == at:
				sb.WriteString(fmt.Sprintf("sel: %d\nu: 1\nw: {cannot: add}\nv: %s\nr: [a%d, b%d]\n", sel, v, k, k))
			case kind == "encode" && k == at:
				sb.WriteString(fmt.Sprintf("sel: %d\nv: %s\nr: {x: {y: nested%d}}\n", sel, v, k))
			default:
				sb.WriteString(fmt.Sprintf("sel: %d\nu: 1\nv: %s\nr: [a%d, b%d]\n", sel, v, k, k))
			}
			if truth != "none" && k <= printedLimit {
				if kind == "encode" {
					want = append(want, fmt.Sprintf("a%d,b%d", k, k))
				} else {
					want = append(want, v)
				}
			}
		}
		name := fmt.Sprintf("in%d.yml", fi)
		os.WriteFile(filepath.Join(dir, name), []byte(sb.String()), 0o644)
		names = append(names, name)
	}
	expr := `(.u + .w) as $y | select(.sel == 1) | .v`
	if kind == "encode" {
		expr = `select(.sel == 1) | .r`
		args = append(args, "-o=csv")
	}
	if kind == "parse" {
		expr = `select(.sel == 1) | | .v`
	}
	if eflag {
		args = append(args, "-e")
	}
	args = append(args, expr)
	args = append(args, names...)
	if kind == "sink" {
		sink = "full"
	}
	return args, want, sink
}

var fmtInputs = map[string]string{
	"yaml":  "- a: L1\n  b: L2\n",
	"json":  `[{"a":"L1","b":"L2"}]` + "\n",
	"xml":   "<r><a>L1</a><b>L2</b></r>\n",
	"props": "a = L1\nb = L2\n",
	"csv":   "a,b\nL1,L2\n",
	"tsv":   "a\tb\nL1\tL2\n",
	"toml":  "a = \"L1\"\nb = \"L2\"\n",
	"lua":   "return {a=\"L1\",b=\"L2\"}\n",
}

// expression that maps the decoded input of format `in` to {a: L1, b: L2} and shapes it for format `out`
func fmtExpr(in, out string) string {
	norm := "."
	switch in {
	case "yaml", "json", "csv", "tsv":
		norm = ".[0]"
	case "xml":
		norm = ".r"
	}
	switch out {
	case "csv", "tsv":
		return "[" + norm + "]"
	case "xml":
		return `{"r": ` + norm + `}`
	}
	return norm
}

var fmtSignature = map[string]*regexp.Regexp{
	"yaml":  regexp.MustCompile(`(?m)^a: L1\nb: L2$`),
	"json":  regexp.MustCompile(`"a":\s*"L1",\s*"b":\s*"L2"`),
	"xml":   regexp.MustCompile(`<a>L1</a>\s*<b>L2</b>`),
	"props": regexp.MustCompile(`(?m)^a = L1\nb = L2$`),
	"csv":   regexp.MustCompile(`(?m)^a,b\nL1,L2$`),
	"tsv":   regexp.MustCompile(`(?m)^a\tb\nL1\tL2$`),
	"lua":   regexp.MustCompile(`\["a"\] = "L1";\s*\["b"\] = "L2"`),
}

var shapeDocs = map[string]struct {
	yaml   string
	leaves []string
}{
	"string":     {"LEAFA\n", []string{"LEAFA"}},
	"flatmap":    {"a: LEAFA\nb: LEAFB\n", []string{"LEAFA", "LEAFB"}},
	"nestedmap":  {"a:\n  b: LEAFA\n  c: LEAFB\nd: LEAFC\n", []string{"LEAFA", "LEAFB", "LEAFC"}},
	"seqscalars": {"- LEAFA\n- LEAFB\n", []string{"LEAFA", "LEAFB"}},
	"seqmaps":    {"- a: LEAFA\n  b: LEAFB\n- a: LEAFC\n  b: LEAFD\n", []string{"LEAFA", "LEAFB", "LEAFC", "LEAFD"}},
	"mapwithseq": {"a: [LEAFA, LEAFB]\nb: LEAFC\n", []string{"LEAFA", "LEAFB", "LEAFC"}},
	"xmlattrseq": {"a:\n  +@id: [LEAFA, LEAFB]\n  b: LEAFC\n", []string{"LEAFA", "LEAFB", "LEAFC"}},
	"seqmapskey": {"- ? [LEAFK, 2]\n  : LEAFA\n  b: LEAFB\n", []string{"LEAFK", "LEAFA", "LEAFB"}}, // the first map has a key that is a sequence
	"specials":   {"- .nan\n- .inf\n- LEAFA\n", []string{"LEAFA"}},
}

func checkC19(rc *Run) error {
	rc.Level = "model_checking"
	type fmtRow struct{ Ext, P, O, In, Out string }
	type shapeRow struct {
		Fmt, Shape string
		MustFail   bool
	}
	var runs []M
	var fmts []fmtRow
	var shapes []shapeRow
	var mu sync.Mutex
	res, err := RunTLC(rc, TLCOpts{Name: "gen", Module: "Gen_Cli", Cfg: "INIT GInit\nNEXT Next\nINVARIANTS TellsTheTruth Emit\nCHECK_DEADLOCK FALSE\n", Timeout: 10 * time.Minute,
		OnVector: func(js []byte) {
			var m M
			if json.Unmarshal(js, &m) != nil {
				return
			}
			mu.Lock()
			defer mu.Unlock()
			switch m["t"] {
			case "run":
				runs = append(runs, m)
			case "fmt":
				fmts = append(fmts, fmtRow{m["ext"].(string), m["p"].(string), m["o"].(string), m["in"].(string), m["out"].(string)})
			case "shape":
				shapes = append(shapes, shapeRow{m["fmt"].(string), m["shape"].(string), m["mustfail"].(bool)})
			}
		}})
	if err != nil {
		return err
	}
	if res.InvariantViolated != "" {
		return machinery("Cli.tla: the machine contradicts its declarative rule: %s\n%s", res.InvariantViolated, res.ErrorText)
	}
	if len(runs) == 0 || len(fmts) == 0 || len(shapes) == 0 {
		return machinery("Gen_Cli produced no vectors")
	}
	rc.Logf("TLC: TellsTheTruth holds on %d states; %d run configurations, %d format rows, %d shape rows", res.Distinct, len(runs), len(fmts), len(shapes))

	type job func(w int)
	var jobsList []job
	compared := 0
	count := func() {
		mu.Lock()
		compared++
		mu.Unlock()
	}
	variant := int(rc.Seed % 5)
	if variant < 0 {
		variant = -variant
	}
	// (a) run configurations
	for i := range runs {
		m := runs[i]
		jobsList = append(jobsList, func(w int) {
			dir := filepath.Join(rc.Out, fmt.Sprintf("w%d", w))
			os.RemoveAll(dir)
			os.MkdirAll(dir, 0o755)
			cfg := m["cfg"].(M)
			args, want, sink := cliConcretise(cfg, dir, variant)
			r, err := runCli(dir, sink, false, args...)
			count()
			if err != nil || r.Hang {
				rc.Add("machinery_run_errors", 1)
				return
			}
			wantExit := int(num(m["exit"]))
			kind := cfg["fail"].(M)["kind"].(string)
			site := fmt.Sprintf("%s:e=%v:truth=%s", kind, cfg["e"], cfg["truth"])
			concrete := M{"argv": append([]string{"yq"}, args...), "stdout_to": sink}
			if compared%60 == 1 {
				rc.Sample(M{"argv": args, "cfg": cfg, "expected_exit": wantExit, "expected_stdout_lines": want})
			}
			got := contentLines(r.Stdout)
			switch {
			case (r.Code == 0) != (wantExit == 0):
				rc.Report("exit-status:"+site, fmt.Sprintf("yq %s: exit %d, the command layer defines %d (stdout %q stderr %q)", strings.Join(args, " "), r.Code, wantExit, r.Stdout, r.Stderr),
					M{"machine": "Cli", "concrete": concrete, "expected": M{"exit": wantExit}, "observed": M{"exit": r.Code, "stdout": r.Stdout, "stderr": r.Stderr}})
			case r.Code != 0 && strings.TrimSpace(r.Stderr) == "":
				rc.Report("silent-failure:"+site, fmt.Sprintf("yq %s: exit %d without a message on stderr", strings.Join(args, " "), r.Code),
					M{"machine": "Cli", "concrete": concrete, "expected": "stderr non-empty", "observed": M{"exit": r.Code}})
			case sink == "" && strings.Join(got, "\n") != strings.Join(want, "\n"):
				rc.Report("stdout-results:"+site, fmt.Sprintf("yq %s: stdout results %q, defined %q (exit %d)", strings.Join(args, " "), got, want, r.Code),
					M{"machine": "Cli", "concrete": concrete, "expected": want, "observed": got})
			}
			// -n variant of single-document, failure-free configurations: no input is read
			if kind == "none" && int(num(cfg["ndocs"])) == 1 {
				lit := map[string]string{"truthy": `"t1"`, "tf": `"t1"`, "ft": `"t1"`, "falsy": falsySpellings[variant%3], "none": "select(false)"}[cfg["truth"].(string)] // one document: tf / ft mean truthy
				for _, sub := range []string{"", "ea"} {
					nargs := []string{}
					if sub != "" {
						nargs = append(nargs, sub)
					}
					nargs = append(nargs, "-n")
					if cfg["e"].(bool) {
						nargs = append(nargs, "-e")
					}
					nargs = append(nargs, lit)
					rn, err := runCli(dir, "", true, nargs...)
					count()
					if err != nil {
						continue
					}
					if rn.Hang {
						rc.Report("null-input-reads-stdin", fmt.Sprintf("yq %s did not finish while stdin stayed open: it reads input", strings.Join(nargs, " ")), M{"machine": "Cli", "concrete": M{"argv": nargs}})
					} else if (rn.Code == 0) != (wantExit == 0) {
						rc.Report(fmt.Sprintf("exit-status:null-input:%s:e=%v:truth=%s", sub, cfg["e"], cfg["truth"]), fmt.Sprintf("yq %s: exit %d, defined %d", strings.Join(nargs, " "), rn.Code, wantExit),
							M{"machine": "Cli", "concrete": M{"argv": append([]string{"yq"}, nargs...)}, "expected": M{"exit": wantExit}, "observed": M{"exit": rn.Code}})
					}
				}
			}
		})
	}
	// -n together with files is an error
	jobsList = append(jobsList, func(w int) {
		dir := filepath.Join(rc.Out, fmt.Sprintf("w%d", w))
		os.MkdirAll(dir, 0o755)
		os.WriteFile(filepath.Join(dir, "x.yml"), []byte("a: 1\n"), 0o644)
		r, err := runCli(dir, "", false, "-n", ".a", "x.yml")
		count()
		if err == nil && (r.Code == 0 || strings.TrimSpace(r.Stderr) == "") {
			rc.Report("null-input-with-files", "yq -n .a x.yml must fail with a message", M{"machine": "Cli", "concrete": M{"argv": []string{"yq", "-n", ".a", "x.yml"}}, "observed": M{"exit": r.Code, "stdout": r.Stdout}})
		}
	})
	// (b) format auto-detection
	nshF := rc.Pick(1, 1) // the whole decision table in both tiers (768 rows, a few seconds)
	for i := range fmts {
		if i%nshF != int(rc.Seed%int64(nshF)) {
			continue
		}
		f := fmts[i]
		if f.Out == "toml" || f.In == "unknown" || f.Out == "unknown" {
			continue
		}
		jobsList = append(jobsList, func(w int) {
			dir := filepath.Join(rc.Out, fmt.Sprintf("w%d", w))
			os.RemoveAll(dir)
			os.MkdirAll(dir, 0o755)
			name := "in." + f.Ext
			if f.Ext == "none" {
				name = "in"
			}
			os.WriteFile(filepath.Join(dir, name), []byte(fmtInputs[f.In]), 0o644)
			args := []string{}
			if f.P != "auto" {
				args = append(args, "-p="+f.P)
			}
			if f.O != "auto" {
				args = append(args, "-o="+f.O)
			}
			args = append(args, fmtExpr(f.In, f.Out), name)
			r, err := runCli(dir, "", false, args...)
			count()
			if err != nil || r.Hang {
				return
			}
			if r.Code != 0 || !fmtSignature[f.Out].MatchString(r.Stdout) {
				rc.Report(fmt.Sprintf("format-detection:ext=%s:p=%s:o=%s", f.Ext, f.P, f.O), fmt.Sprintf("yq %s on a %s document: expected %s output, got exit %d %q %q", strings.Join(args, " "), f.In, f.Out, r.Code, r.Stdout, r.Stderr),
					M{"machine": "Cli", "concrete": M{"argv": append([]string{"yq"}, args...), "input": fmtInputs[f.In]}, "expected": M{"in": f.In, "out": f.Out}, "observed": M{"exit": r.Code, "stdout": r.Stdout}})
			}
		})
	}
	// (c) results an output format cannot represent
	for i := range shapes {
		s := shapes[i]
		jobsList = append(jobsList, func(w int) {
			dir := filepath.Join(rc.Out, fmt.Sprintf("w%d", w))
			os.RemoveAll(dir)
			os.MkdirAll(dir, 0o755)
			sd := shapeDocs[s.Shape]
			os.WriteFile(filepath.Join(dir, "s.yml"), []byte(sd.yaml), 0o644)
			args := []string{"-o=" + s.Fmt, ".", "s.yml"}
			r, err := runCli(dir, "", false, args...)
			count()
			if err != nil || r.Hang {
				return
			}
			concrete := M{"argv": append([]string{"yq"}, args...), "input": sd.yaml}
			if r.Code != 0 {
				if strings.TrimSpace(r.Stderr) == "" {
					rc.Report("silent-failure:encode:"+s.Fmt+":"+s.Shape, "non-zero exit without a message", M{"machine": "Cli", "concrete": concrete})
				}
				return
			}
			text := r.Stdout
			switch s.Fmt {
			case "base64":
				if b, e := base64.StdEncoding.DecodeString(strings.TrimSpace(text)); e == nil {
					text = string(b)
				}
			case "uri":
				if u, e := url.QueryUnescape(strings.TrimSpace(text)); e == nil {
					text = u
				}
			}
			missing := []string{}
			for _, l := range sd.leaves {
				if !strings.Contains(text, l) {
					missing = append(missing, l)
				}
			}
			// the same with NUL-separated output (-0): the result's bytes, its final line break replaced by NUL - nothing may be lost
			if !s.MustFail && len(missing) == 0 {
				args0 := append([]string{"-0"}, args...)
				r0, err0 := runCli(dir, "", false, args0...)
				count()
				if err0 == nil && !r0.Hang {
					lost := []string{}
					for _, l := range sd.leaves {
						if !strings.Contains(r0.Stdout, l) && s.Fmt != "base64" && s.Fmt != "uri" {
							lost = append(lost, l)
						}
					}
					if r0.Code == 0 && len(lost) > 0 {
						rc.Report(fmt.Sprintf("silently-dropped-with-nul-separator:%s:%s", s.Fmt, s.Shape), fmt.Sprintf("yq %s exits 0 but the output %q does not hold the value (missing leaves %v); without -0 it prints %q", strings.Join(args0, " "), r0.Stdout, lost, r.Stdout),
							M{"machine": "Cli", "concrete": M{"argv": append([]string{"yq"}, args0...), "input": sd.yaml}, "expected": "every leaf in the output, or an error", "observed": M{"exit": 0, "stdout": r0.Stdout}})
					} else if r0.Code != 0 && strings.TrimSpace(r0.Stderr) == "" {
						rc.Report("silent-failure:encode-nul:"+s.Fmt+":"+s.Shape, "non-zero exit without a message", M{"machine": "Cli", "concrete": M{"argv": append([]string{"yq"}, args0...), "input": sd.yaml}})
					}
				}
			}
			if s.MustFail || len(missing) > 0 {
				rc.Report(fmt.Sprintf("silently-dropped:%s:%s", s.Fmt, s.Shape), fmt.Sprintf("yq %s exits 0 but the output %q does not hold the value (missing leaves %v; not representable: %v)", strings.Join(args, " "), r.Stdout, missing, s.MustFail),
					M{"machine": "Cli", "concrete": concrete, "expected": "an error, or every leaf in the output", "observed": M{"exit": 0, "stdout": r.Stdout}})
			}
		})
	}
	// (d) every name yq knows a format by, as input format and as the first file's extension: a result or an error message, never an abort
	for _, f := range yqlib.Formats {
		for _, name := range append([]string{f.FormalName}, f.Names...) {
			if name == "" {
				continue
			}
			nm := name
			jobsList = append(jobsList, func(w int) {
				dir := filepath.Join(rc.Out, fmt.Sprintf("w%d", w))
				os.RemoveAll(dir)
				os.MkdirAll(dir, 0o755)
				os.WriteFile(filepath.Join(dir, "in.txt"), []byte("a: 1\n"), 0o644)
				os.WriteFile(filepath.Join(dir, "in."+nm), []byte("a: 1\n"), 0o644)
				for _, args := range [][]string{{"-p=" + nm, ".", "in.txt"}, {".", "in." + nm}, {"ea", "-p=" + nm, ".", "in.txt"}, {"-p=" + nm, "-n", "1"}} {
					r, err := runCli(dir, "", false, args...)
					count()
					if err != nil || r.Hang {
						continue
					}
					if strings.Contains(r.Stderr, "panic:") || strings.Contains(r.Stderr, "goroutine ") {
						rc.Report("abort-on-input-format-name:"+nm, fmt.Sprintf("yq %s aborts: %s", strings.Join(args, " "), firstLine(r.Stderr)), M{"machine": "Cli", "concrete": M{"argv": append([]string{"yq"}, args...), "input": "a: 1\n"}})
					} else if r.Code != 0 && strings.TrimSpace(r.Stderr) == "" {
						rc.Report("silent-failure:input-format-name:"+nm, fmt.Sprintf("yq %s: exit %d without a message", strings.Join(args, " "), r.Code), M{"machine": "Cli", "concrete": M{"argv": append([]string{"yq"}, args...)}})
					}
				}
			})
		}
	}
	jobs := make(chan job, 64)
	var wg sync.WaitGroup
	for w := 0; w < runtime.NumCPU(); w++ {
		wg.Add(1)
		go func(w int) {
			defer wg.Done()
			for j := range jobs {
				j(w)
			}
		}(w)
	}
	for _, j := range jobsList {
		jobs <- j
	}
	close(jobs)
	wg.Wait()
	// decode failures of the other input formats (the concretisation of fail.kind = "decode" beyond YAML): a well-formed
	// file and a malformed one, the malformed one first / second, eval and eval-all, with and without -e: the failure of
	// ANY file must give a non-zero exit and a message - a reader that takes a malformed record for the end of the input
	// reports success
	type badInput struct{ format, ext, good, bad string }
	badInputs := []badInput{
		{"csv", "csv", "a,b\n1,2\n", "a,b\n1,2\n3\n4,5\n"},
		{"csv", "csv", "a,b\n1,2\n", "a,b\n1,\"unterminated\n"},
		{"tsv", "tsv", "a\tb\n1\t2\n", "a\tb\n1\t2\n3\n"},
		{"json", "json", "{\"a\": 1}\n", "{\"a\": 1}\n{\"a\": \n"},
		{"json", "json", "{\"a\": 1}\n", "{\"a\": [1, 2}\n"},
		{"json", "json", "{\"a\": 1}\n", "{\"a\": 1}\n]\n{\"c\": 3}\n"}, // a stray closing bracket between documents
		{"json", "json", "{\"a\": 1}\n", "]\n"},
		{"json", "json", "{\"a\": 1}\n", "[1, 2]]\n"},
		{"json", "json", "{\"a\": 1}\n", "{\"a\": 1}}\n"},
		{"json", "json", "{\"a\": 1}\n", "{\"a\": 1} x\n"},
		{"xml", "xml", "<a>1</a>\n", "<a><b>1</a>\n"},
		{"toml", "toml", "a = 1\n", "a = 1\nb = \n"},
		{"lua", "lua", "return {a = 1}\n", "return {a = 1\n"},
		{"base64", "txt", "aGVsbG8=\n", "aGVs*G8=\n"},
		{"yaml", "yml", "a: 1\n", "a: 1\n---\nb: [1, 2\n"},
		{"props", "properties", "a = 1\n", "a = \\u00zz\n"},
	}
	bdir := filepath.Join(rc.Out, "badinput")
	os.MkdirAll(bdir, 0o755)
	badRuns := 0
	for bi, b := range badInputs {
		os.WriteFile(filepath.Join(bdir, "good."+b.ext), []byte(b.good), 0o644)
		os.WriteFile(filepath.Join(bdir, "bad."+b.ext), []byte(b.bad), 0o644)
		for _, order := range [][]string{{"bad." + b.ext}, {"good." + b.ext, "bad." + b.ext}, {"bad." + b.ext, "good." + b.ext}} {
			for _, sub := range []string{"", "ea"} {
				for _, e := range []bool{false, true} {
					args := []string{}
					if sub != "" {
						args = append(args, sub)
					}
					args = append(args, "-p="+b.format, "-o=json")
					if b.format == "xml" {
						args = append(args, "--xml-strict-mode") // by default the XML reader closes open elements itself, by design
					}
					if e {
						args = append(args, "-e")
					}
					args = append(args, ".")
					args = append(args, order...)
					r, err := runCli(bdir, "", false, args...)
					if err != nil {
						continue
					}
					badRuns++
					if r.Code == 0 {
						rc.Report(fmt.Sprintf("decode-failure-reported-as-success:%s:%d", b.format, bi), fmt.Sprintf("yq %s: exit 0 although %s holds %q (stdout %q)", strings.Join(args, " "), "bad."+b.ext, b.bad, r.Stdout),
							M{"machine": "Cli", "concrete": M{"argv": append([]string{"yq"}, args...), "bad_file": b.bad}})
					} else if strings.TrimSpace(r.Stderr) == "" {
						rc.Report(fmt.Sprintf("silent-failure:decode:%s", b.format), fmt.Sprintf("yq %s: exit %d without a message", strings.Join(args, " "), r.Code), M{"machine": "Cli", "concrete": M{"argv": append([]string{"yq"}, args...)}})
					}
				}
			}
		}
	}
	rc.Set("malformed_input_runs", badRuns)
	rc.Set("states", res.Distinct)
	rc.Set("transitions", res.Generated)
	rc.Set("traces_validated_against_impl", compared)
	rc.Set("run_configurations", len(runs))
	rc.Set("format_rows", len(fmts))
	rc.Set("shape_rows", len(shapes))
	rc.Set("invariant_checked_on_model", "TellsTheTruth")
	rc.Set("exhaustive", nshF == 1)
	rc.Assume("failure kinds are realised by construction of (expression, content) pairs, an output format that cannot represent the result, and /dev/full as stdout")
	return nil
}
