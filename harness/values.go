package main

import (
	"encoding/json"
	"fmt"
	"math"
	"math/big"
	"strconv"
	"strings"

	"github.com/mikefarah/yq/v4/pkg/yqlib"
)

// AV is the Go image of a Value of spec/Values.tla.
//
//	null | bool b | num (int?, n/d dyadic) | str s | seq e | map (ordered keys)
//
// K can also be "foreign" (alpha met something outside the model domain): never equal to anything.
type AV struct {
	K   string
	B   bool
	Int bool
	N   int64
	D   int64
	S   string
	E   []*AV
	MK  []string
	MV  []*AV
	Why string // for foreign
}

type M = map[string]interface{}

func atomsOf(s string) []interface{} {
	r := make([]interface{}, 0, len(s))
	for _, c := range s {
		if c == 'é' { // TLC prints text beyond ASCII as `?`: the specification's one non-ASCII character is the atom U+E9
			r = append(r, "U+E9")
			continue
		}
		r = append(r, string(c))
	}
	return r
}

func strOfAtoms(x interface{}) string {
	if x == nil {
		return ""
	}
	if s, ok := x.(string); ok {
		return s
	}
	var sb strings.Builder
	for _, c := range x.([]interface{}) {
		if c.(string) == "U+E9" {
			sb.WriteString("é")
			continue
		}
		sb.WriteString(c.(string))
	}
	return sb.String()
}

func num(x interface{}) int64 {
	switch v := x.(type) {
	case float64:
		return int64(v)
	case json.Number:
		i, _ := v.Int64()
		return i
	case int:
		return int64(v)
	case int64:
		return v
	}
	panic(fmt.Sprintf("not a number: %T %v", x, x))
}

// fromSpec converts the generic-JSON form of a spec Value into an AV.
func fromSpec(x interface{}) *AV {
	m := x.(M)
	switch m["k"] {
	case "null":
		return &AV{K: "null"}
	case "bool":
		return &AV{K: "bool", B: m["b"].(bool)}
	case "num":
		return &AV{K: "num", Int: m["int"].(bool), N: num(m["n"]), D: num(m["d"])}
	case "str":
		return &AV{K: "str", S: strOfAtoms(m["s"])}
	case "seq":
		v := &AV{K: "seq"}
		if m["e"] != nil {
			for _, e := range m["e"].([]interface{}) {
				v.E = append(v.E, fromSpec(e))
			}
		}
		return v
	case "map":
		v := &AV{K: "map"}
		if m["m"] != nil {
			for _, e := range m["m"].([]interface{}) {
				kv := e.([]interface{})
				v.MK = append(v.MK, strOfAtoms(kv[0]))
				v.MV = append(v.MV, fromSpec(kv[1]))
			}
		}
		return v
	}
	panic(fmt.Sprintf("bad spec value %v", x))
}

// toSpec converts an AV to the generic-JSON form TLC reads (ndJsonDeserialize).
func (v *AV) toSpec() interface{} {
	switch v.K {
	case "null":
		return M{"k": "null"}
	case "bool":
		return M{"k": "bool", "b": v.B}
	case "num":
		return M{"k": "num", "int": v.Int, "n": v.N, "d": v.D}
	case "str":
		return M{"k": "str", "s": atomsOf(v.S)}
	case "seq":
		e := []interface{}{}
		for _, c := range v.E {
			e = append(e, c.toSpec())
		}
		return M{"k": "seq", "e": e}
	case "map":
		m := []interface{}{}
		for i := range v.MK {
			m = append(m, []interface{}{atomsOf(v.MK[i]), v.MV[i].toSpec()})
		}
		return M{"k": "map", "m": m}
	}
	return M{"k": "foreign", "why": v.Why}
}

func (v *AV) hasForeign() bool {
	if v.K == "foreign" {
		return true
	}
	for _, c := range v.E {
		if c.hasForeign() {
			return true
		}
	}
	for _, c := range v.MV {
		if c.hasForeign() {
			return true
		}
	}
	return false
}

// JSON renders the value as JSON text (the concretisation used to feed yq with -p=json).
func (v *AV) JSON() string {
	switch v.K {
	case "null":
		return "null"
	case "bool":
		return strconv.FormatBool(v.B)
	case "num":
		if v.D == 1 && v.Int {
			return strconv.FormatInt(v.N, 10)
		}
		s := strconv.FormatFloat(float64(v.N)/float64(v.D), 'f', -1, 64)
		if !strings.ContainsAny(s, ".e") {
			s += ".0"
		}
		return s
	case "str":
		b, _ := json.Marshal(v.S)
		return string(b)
	case "seq":
		parts := make([]string, len(v.E))
		for i, e := range v.E {
			parts[i] = e.JSON()
		}
		return "[" + strings.Join(parts, ",") + "]"
	case "map":
		parts := make([]string, len(v.MK))
		for i := range v.MK {
			kb, _ := json.Marshal(v.MK[i])
			parts[i] = string(kb) + ":" + v.MV[i].JSON()
		}
		return "{" + strings.Join(parts, ",") + "}"
	}
	return "\"<foreign:" + v.Why + ">\""
}

func (v *AV) String() string { return v.JSON() }

// Equal is the model's value equality: numbers by value AND int/float class, maps ordered.
func (v *AV) Equal(w *AV) bool {
	if v.K != w.K || v.K == "foreign" {
		return false
	}
	switch v.K {
	case "null":
		return true
	case "bool":
		return v.B == w.B
	case "num":
		return v.Int == w.Int && v.N*w.D == w.N*v.D
	case "str":
		return v.S == w.S
	case "seq":
		if len(v.E) != len(w.E) {
			return false
		}
		for i := range v.E {
			if !v.E[i].Equal(w.E[i]) {
				return false
			}
		}
		return true
	case "map":
		if len(v.MK) != len(w.MK) {
			return false
		}
		for i := range v.MK {
			if v.MK[i] != w.MK[i] || !v.MV[i].Equal(w.MV[i]) {
				return false
			}
		}
		return true
	}
	return false
}

func avListEqual(a, b []*AV) bool {
	if len(a) != len(b) {
		return false
	}
	for i := range a {
		if !a[i].Equal(b[i]) {
			return false
		}
	}
	return true
}

func avListJSON(a []*AV) string {
	p := make([]string, len(a))
	for i, v := range a {
		p[i] = v.JSON()
	}
	return "[" + strings.Join(p, ", ") + "]"
}

// alphaNum abstracts a yq numeric scalar into an exact dyadic rational when possible.
func alphaNum(tag, val string) *AV {
	clean := strings.ReplaceAll(val, "_", "")
	if tag == "!!int" {
		var z big.Int
		s := clean
		base := 10
		neg := false
		if strings.HasPrefix(s, "-") {
			neg = true
			s = s[1:]
		} else if strings.HasPrefix(s, "+") {
			s = s[1:]
		}
		if strings.HasPrefix(s, "0x") || strings.HasPrefix(s, "0X") {
			base = 16
			s = s[2:]
		} else if strings.HasPrefix(s, "0o") {
			base = 8
			s = s[2:]
		}
		if _, ok := z.SetString(s, base); !ok {
			return &AV{K: "foreign", Why: "int spelling " + val}
		}
		if neg {
			z.Neg(&z)
		}
		if !z.IsInt64() || z.Int64() > math.MaxInt32 || z.Int64() < math.MinInt32 {
			return &AV{K: "foreign", Why: "int out of model range " + val}
		}
		return &AV{K: "num", Int: true, N: z.Int64(), D: 1}
	}
	f, err := strconv.ParseFloat(clean, 64)
	if err != nil || math.IsInf(f, 0) || math.IsNaN(f) {
		return &AV{K: "foreign", Why: "float spelling " + val}
	}
	d := int64(1)
	for f != math.Trunc(f) && d < (1<<20) {
		f *= 2
		d *= 2
	}
	if f != math.Trunc(f) || math.Abs(f) > math.MaxInt32 {
		return &AV{K: "foreign", Why: "float not dyadic in range " + val}
	}
	return &AV{K: "num", Int: false, N: int64(f), D: d}
}

// alpha abstracts a CandidateNode tree into the model domain.
func alpha(n *yqlib.CandidateNode) *AV {
	if n == nil {
		return &AV{K: "foreign", Why: "nil node"}
	}
	switch n.Kind {
	case yqlib.MappingNode:
		v := &AV{K: "map"}
		if len(n.Content)%2 != 0 {
			return &AV{K: "foreign", Why: "odd map content"}
		}
		for i := 0; i+1 < len(n.Content); i += 2 {
			if n.Content[i] == nil || n.Content[i].Kind != yqlib.ScalarNode {
				return &AV{K: "foreign", Why: "non-scalar key"}
			}
			v.MK = append(v.MK, n.Content[i].Value)
			v.MV = append(v.MV, alpha(n.Content[i+1]))
		}
		return v
	case yqlib.SequenceNode:
		v := &AV{K: "seq"}
		for _, c := range n.Content {
			v.E = append(v.E, alpha(c))
		}
		return v
	case yqlib.ScalarNode:
		switch n.Tag {
		case "!!null":
			return &AV{K: "null"}
		case "!!bool":
			switch n.Value {
			case "true", "True", "TRUE":
				return &AV{K: "bool", B: true}
			case "false", "False", "FALSE":
				return &AV{K: "bool", B: false}
			}
			return &AV{K: "foreign", Why: "bool spelling " + n.Value}
		case "!!int", "!!float":
			return alphaNum(n.Tag, n.Value)
		case "!!str":
			return &AV{K: "str", S: n.Value}
		}
		return &AV{K: "foreign", Why: "tag " + n.Tag}
	case yqlib.AliasNode:
		return &AV{K: "foreign", Why: "alias"}
	}
	return &AV{K: "foreign", Why: fmt.Sprintf("kind %v", n.Kind)}
}

// decodeJSON builds a fresh CandidateNode document from JSON text with yq's own JSON decoder.
func decodeJSON(text string) (*yqlib.CandidateNode, error) {
	dec := yqlib.NewJSONDecoder()
	if err := dec.Init(strings.NewReader(text)); err != nil {
		return nil, err
	}
	return dec.Decode()
}
