package main

import (
	"bytes"
	"context"
	"encoding/base64"
	"encoding/json"
	"fmt"
	"net/url"
	"os"
	"os/exec"
	"path/filepath"
	"regexp"
	"runtime"
	"sort"
	"strings"
	"sync"
	"time"

	"github.com/mikefarah/yq/v4/pkg/yqlib"
)

func init() { register("C11", checkC11) }

// ---- renderers of model-domain values in each input format (ok = the format can hold the value)

func renderYAMLBlock(v *AV, indent string) string {
	switch v.K {
	case "map":
		if len(v.MK) == 0 {
			return "{}"
		}
		var sb strings.Builder
		for i, k := range v.MK {
			c := v.MV[i]
			if (c.K == "map" && len(c.MK) > 0) || (c.K == "seq" && len(c.E) > 0) {
				sb.WriteString(fmt.Sprintf("%s%s:\n%s", indent, k, renderYAMLBlock(c, indent+"  ")))
			} else {
				sb.WriteString(fmt.Sprintf("%s%s: %s\n", indent, k, renderYAMLBlock(c, "")))
			}
		}
		return sb.String()
	case "seq":
		if len(v.E) == 0 {
			return "[]"
		}
		var sb strings.Builder
		for _, c := range v.E {
			if (c.K == "map" && len(c.MK) > 0) || (c.K == "seq" && len(c.E) > 0) {
				inner := renderYAMLBlock(c, indent+"  ")
				sb.WriteString(indent + "- " + strings.TrimPrefix(inner, indent+"  "))
			} else {
				sb.WriteString(fmt.Sprintf("%s- %s\n", indent, renderYAMLBlock(c, "")))
			}
		}
		return sb.String()
	case "str":
		return fmt.Sprintf("%q", v.S)
	}
	return v.JSON()
}

func renderAs(format string, v *AV) (string, bool) {
	switch format {
	case "yaml":
		s := renderYAMLBlock(v, "")
		if !strings.HasSuffix(s, "\n") {
			s += "\n"
		}
		return s, true
	case "json":
		return v.JSON() + "\n", true
	case "xml":
		if v.K != "map" || len(v.MK) == 0 {
			return "", false
		}
		var el func(name string, x *AV) string
		el = func(name string, x *AV) string {
			switch x.K {
			case "map":
				var sb strings.Builder
				sb.WriteString("<" + name + ">")
				for i, k := range x.MK {
					sb.WriteString(el(k, x.MV[i]))
				}
				sb.WriteString("</" + name + ">")
				return sb.String()
			case "seq":
				var sb strings.Builder
				for _, c := range x.E {
					sb.WriteString(el(name, c))
				}
				return sb.String()
			case "null":
				return "<" + name + "/>"
			case "str":
				return "<" + name + ">" + x.S + "</" + name + ">"
			}
			return "<" + name + ">" + x.JSON() + "</" + name + ">"
		}
		return "<?xml version=\"1.0\"?>\n" + el("root", v) + "\n", true
	case "props":
		if v.K != "map" {
			return "", false
		}
		var lines []string
		var walk func(prefix string, x *AV)
		walk = func(prefix string, x *AV) {
			switch x.K {
			case "map":
				for i, k := range x.MK {
					p := k
					if prefix != "" {
						p = prefix + "." + k
					}
					walk(p, x.MV[i])
				}
			case "seq":
				for i, c := range x.E {
					walk(fmt.Sprintf("%s.%d", prefix, i), c)
				}
			case "str":
				lines = append(lines, prefix+" = "+x.S)
			case "null":
				lines = append(lines, prefix+" = ")
			default:
				lines = append(lines, prefix+" = "+x.JSON())
			}
		}
		walk("", v)
		return strings.Join(lines, "\n") + "\n", true
	case "csv", "tsv":
		sep := ","
		if format == "tsv" {
			sep = "\t"
		}
		if v.K != "seq" || len(v.E) == 0 {
			return "", false
		}
		var rows []string
		if v.E[0].K == "map" {
			rows = append(rows, strings.Join(v.E[0].MK, sep))
			for _, r := range v.E {
				if r.K != "map" {
					return "", false
				}
				var cells []string
				for _, c := range r.MV {
					if c.K == "map" || c.K == "seq" {
						return "", false
					}
					if c.K == "str" {
						cells = append(cells, c.S)
					} else {
						cells = append(cells, c.JSON())
					}
				}
				rows = append(rows, strings.Join(cells, sep))
			}
		} else if v.E[0].K == "seq" {
			for _, r := range v.E {
				if r.K != "seq" {
					return "", false
				}
				var cells []string
				for _, c := range r.E {
					if c.K == "str" {
						cells = append(cells, c.S)
					} else {
						cells = append(cells, c.JSON())
					}
				}
				rows = append(rows, strings.Join(cells, sep))
			}
		} else {
			return "", false
		}
		return strings.Join(rows, "\n") + "\n", true
	case "toml":
		if v.K != "map" {
			return "", false
		}
		var sb strings.Builder
		var inline func(x *AV) (string, bool)
		inline = func(x *AV) (string, bool) {
			switch x.K {
			case "null":
				return "", false
			case "seq":
				parts := []string{}
				for _, c := range x.E {
					s, ok := inline(c)
					if !ok {
						return "", false
					}
					parts = append(parts, s)
				}
				return "[" + strings.Join(parts, ", ") + "]", true
			case "map":
				parts := []string{}
				for i, k := range x.MK {
					s, ok := inline(x.MV[i])
					if !ok {
						return "", false
					}
					parts = append(parts, k+" = "+s)
				}
				return "{" + strings.Join(parts, ", ") + "}", true
			}
			return x.JSON(), true
		}
		for i, k := range v.MK {
			s, ok := inline(v.MV[i])
			if !ok {
				return "", false
			}
			sb.WriteString(k + " = " + s + "\n")
		}
		return sb.String(), true
	case "lua":
		var lua func(x *AV) string
		lua = func(x *AV) string {
			switch x.K {
			case "null":
				return "nil"
			case "seq":
				parts := []string{}
				for _, c := range x.E {
					parts = append(parts, lua(c))
				}
				return "{" + strings.Join(parts, ", ") + "}"
			case "map":
				parts := []string{}
				for i, k := range x.MK {
					parts = append(parts, fmt.Sprintf("[%q] = %s", k, lua(x.MV[i])))
				}
				return "{" + strings.Join(parts, ", ") + "}"
			}
			return x.JSON()
		}
		return "return " + lua(v) + "\n", true
	case "base64":
		if v.K != "str" {
			return "", false
		}
		return base64.StdEncoding.EncodeToString([]byte(v.S)) + "\n", true
	case "uri":
		if v.K != "str" {
			return "", false
		}
		return url.QueryEscape(v.S) + "\n", true
	}
	return "", false
}

type procResult struct {
	Code   int
	Hang   bool
	Stderr string
	Stdout string
}

func runProc(dir string, stdin []byte, args ...string) procResult {
	ctx, cancel := context.WithTimeout(context.Background(), 15*time.Second)
	defer cancel()
	cmd := exec.CommandContext(ctx, filepath.Join(verifHome, "out", "bin", "yq"), args...)
	cmd.Dir = dir
	if stdin != nil {
		cmd.Stdin = bytes.NewReader(stdin)
	}
	var out, errb bytes.Buffer
	cmd.Stdout = &out
	cmd.Stderr = &errb
	err := cmd.Run()
	r := procResult{Stderr: errb.String(), Stdout: out.String()}
	if ctx.Err() != nil {
		r.Hang = true
		return r
	}
	if err != nil {
		if ee, ok := err.(*exec.ExitError); ok {
			r.Code = ee.ExitCode()
		} else {
			r.Code = -1
		}
	}
	return r
}

func (p procResult) crashed() bool {
	return p.Code == 2 || strings.Contains(p.Stderr, "panic:") || strings.Contains(p.Stderr, "goroutine 1 [") || strings.Contains(p.Stderr, "fatal error:")
}

func checkC11(rc *Run) error {
	rc.Level = "exploration"
	yqlib.InitExpressionParser()
	var mu sync.Mutex
	evaluations := 0
	distinct := map[string]bool{}
	note := func(key string) {
		mu.Lock()
		evaluations++
		distinct[key] = true
		mu.Unlock()
	}
	reportCrash := func(kind, site, what string, concrete M) {
		rc.Report(fmt.Sprintf("%s:%s", kind, site), what, M{"machine": "Totality", "concrete": concrete})
	}

	// (1) bounds logic of index / slice + the value x format product, from the specification
	vals := map[int]*AV{}
	type pair struct {
		V       int
		In, Out string
	}
	var pairsL []pair
	type sliceRow struct {
		Len, I, J int
		St        string
		Res       []*AV
		IsIdx     bool
	}
	var slices []sliceRow
	res, err := RunTLC(rc, TLCOpts{Name: "gen", Module: "Gen_Totality", Cfg: "CONSTANTS\n Dev = {}\nINIT Init\nNEXT Next\nINVARIANTS Total\nCHECK_DEADLOCK FALSE\n", Timeout: 10 * time.Minute,
		OnVector: func(js []byte) {
			var m M
			if json.Unmarshal(js, &m) != nil {
				return
			}
			mu.Lock()
			defer mu.Unlock()
			switch m["t"] {
			case "val":
				vals[int(num(m["i"]))] = fromSpec(m["v"])
			case "pair":
				pairsL = append(pairsL, pair{int(num(m["v"])), m["inf"].(string), m["outf"].(string)})
			case "idx":
				slices = append(slices, sliceRow{Len: int(num(m["len"])), I: int(num(m["i"])), St: m["st"].(string), IsIdx: true})
			case "slice":
				r := sliceRow{Len: int(num(m["len"])), I: int(num(m["i"])), J: int(num(m["j"])), St: m["st"].(string)}
				if rs, ok := m["res"].([]interface{}); ok {
					for _, x := range rs {
						r.Res = append(r.Res, fromSpec(x))
					}
				}
				slices = append(slices, r)
			}
		}})
	if err != nil {
		return err
	}
	if res.InvariantViolated != "" || len(pairsL) == 0 {
		return machinery("Gen_Totality: %s", res.InvariantViolated)
	}
	for _, s := range slices {
		items := []string{}
		for k := 0; k < s.Len; k++ {
			items = append(items, fmt.Sprint(k))
		}
		doc := "[" + strings.Join(items, ",") + "]"
		var exprs []string
		if s.IsIdx {
			exprs = []string{fmt.Sprintf(".[%d]", s.I), fmt.Sprintf("[.[%d]]", s.I), fmt.Sprintf("select(.[%d] == 1)", s.I), fmt.Sprintf(".[%d] = 9", s.I), fmt.Sprintf("del(.[%d])", s.I)}
		} else {
			exprs = []string{fmt.Sprintf(".[%d:%d]", s.I, s.J)}
			if s.J == 5 {
				exprs = append(exprs, fmt.Sprintf(".[%d:]", s.I), fmt.Sprintf("{\"a\": .} | .a[%d:]", s.I))
			}
			if s.I == -5 {
				exprs = append(exprs, fmt.Sprintf(".[:%d]", s.J))
			}
		}
		for _, ex := range exprs {
			o := evalWithTimeout(ex, doc, false)
			note("bounds:" + ex + "@" + doc)
			if o.St == "panic" || o.St == "hang" {
				reportCrash(o.St, o.PanicSite, fmt.Sprintf("%s on %s: %s", ex, doc, o.ErrText), M{"expr": ex, "input_json": doc})
			} else if !s.IsIdx && ex == fmt.Sprintf(".[%d:%d]", s.I, s.J) && s.St == "ok" && (o.St != "ok" || !avListEqual(o.Res, s.Res)) {
				rc.Report("slice-bounds", fmt.Sprintf("%s on %s: specification %s, yq %s %s", ex, doc, avListJSON(s.Res), o.St, avListJSON(o.Res)), M{"machine": "Eval", "concrete": M{"expr": ex, "input_json": doc}})
			}
		}
	}

	// (2) every vector of the evaluator grammar, including the ones whose outcome is left open
	nsh := rc.Pick(12, 2)
	shard := int(rc.Seed % int64(nsh))
	if shard < 0 {
		shard = -shard
	}
	g, err := runGenEval(rc, "Gen_Eval", "eval", fmt.Sprintf("CONSTANTS\n Dev = {}\n Level = 1\n NShards = %d\n Shard = %d\n TogEvery = 100000\nINIT Init\nNEXT Next\nCHECK_DEADLOCK FALSE\n", nsh, shard), 40*time.Minute)
	if err != nil {
		return err
	}
	jobs := make(chan evalVector, 1024)
	var wg sync.WaitGroup
	for w := 0; w < runtime.NumCPU(); w++ {
		wg.Add(1)
		go func() {
			defer wg.Done()
			for v := range jobs {
				e, d := g.Exprs[v.Ei], g.Docs[v.Di]
				text, doc := exprText(e), d.JSON()
				o := evalWithTimeout(text, doc, false)
				note("eval:" + text + "@" + doc)
				if o.St == "panic" || o.St == "hang" {
					reportCrash(o.St, o.PanicSite, fmt.Sprintf("%s on %s: %s", text, doc, o.ErrText), M{"expr": text, "input_json": doc})
				}
			}
		}()
	}
	for _, v := range g.Vectors {
		jobs <- v
	}
	close(jobs)
	wg.Wait()
	rc.Sample(M{"family": "evaluator vectors incl. open outcomes", "expr": exprText(g.Exprs[g.Vectors[0].Ei]), "doc": g.Docs[g.Vectors[0].Di].JSON()})

	// (3) token sequences, ill-formed ones included, through parser AND evaluator
	var seqs [][]string
	var table []specTok
	pres, err := RunTLC(rc, TLCOpts{Name: "parser", Module: "Gen_Parser", Cfg: fmt.Sprintf("CONSTANTS\n MaxLen = %d\n Deep = FALSE\n NShards = 1\n Shard = 0\nINIT Init\nNEXT Next\nCHECK_DEADLOCK FALSE\n", rc.Pick(3, 3)), Timeout: 40 * time.Minute, HeapGB: 12,
		OnVector: func(js []byte) {
			var m M
			if json.Unmarshal(js, &m) != nil {
				return
			}
			mu.Lock()
			defer mu.Unlock()
			if m["k"] == "table" {
				for _, x := range m["toks"].([]interface{}) {
					t := x.(M)
					table = append(table, specTok{N: t["n"].(string), Txt: t["txt"].(string)})
				}
				return
			}
			var s []string
			if ts, ok := m["toks"].([]interface{}); ok {
				for _, t := range ts {
					s = append(s, t.(string))
				}
			}
			seqs = append(seqs, s)
		}})
	if err != nil {
		return err
	}
	_ = pres
	txt := map[string]string{}
	for _, t := range table {
		txt[t.N] = t.Txt
	}
	sjobs := make(chan []string, 1024)
	for w := 0; w < runtime.NumCPU(); w++ {
		wg.Add(1)
		go func() {
			defer wg.Done()
			for s := range sjobs {
				parts := make([]string, len(s))
				for i, n := range s {
					parts[i] = txt[n]
				}
				expr := strings.Join(parts, " ")
				if strings.Contains(expr, "load") || strings.Contains(expr, "env") || strings.Contains(expr, "eval") {
					continue // would touch the file system / environment
				}
				for _, doc := range []string{`{"a":[1,{"a":2}],"b":"x"}`, `[3,1,2]`} {
					o := evalWithTimeout(expr, doc, false)
					note("tokens:" + expr + "@" + doc)
					if o.St == "panic" || o.St == "hang" {
						reportCrash(o.St, o.PanicSite, fmt.Sprintf("%q on %s: %s", expr, doc, o.ErrText), M{"expr": expr, "input_json": doc})
					}
				}
			}
		}()
	}
	for _, s := range seqs {
		sjobs <- s
	}
	close(sjobs)
	wg.Wait()
	rc.Sample(M{"family": "token sequences (ill-formed included)", "expr": strings.Join(seqs[len(seqs)/3], " ")})

	// (4) value x input format x output format through the binary; (5) every byte prefix of every rendered input
	dir := filepath.Join(rc.Out, "fmt")
	os.MkdirAll(dir, 0o755)
	type fjob struct {
		args  []string
		stdin []byte
		key   string
		desc  M
	}
	fjobs := make(chan fjob, 256)
	for w := 0; w < runtime.NumCPU(); w++ {
		wg.Add(1)
		go func() {
			defer wg.Done()
			for j := range fjobs {
				p := runProc(dir, j.stdin, j.args...)
				note(j.key)
				if p.Hang {
					reportCrash("hang", strings.Join(j.args[:2], ""), fmt.Sprintf("yq %s does not terminate", strings.Join(j.args, " ")), j.desc)
				} else if p.crashed() {
					reportCrash("panic", panicSite([]byte(p.Stderr)), fmt.Sprintf("yq %s on %q aborts: %s", strings.Join(j.args, " "), j.stdin, firstLine(p.Stderr)), j.desc)
				} else if p.Code != 0 && strings.TrimSpace(p.Stderr) == "" {
					reportCrash("silent-failure", strings.Join(j.args[:2], ""), fmt.Sprintf("yq %s exits %d without a message", strings.Join(j.args, " "), p.Code), j.desc)
				}
			}
		}()
	}
	rendered := map[string]bool{}
	for _, p := range pairsL {
		text, ok := renderAs(p.In, vals[p.V])
		if !ok {
			continue
		}
		fjobs <- fjob{[]string{"-p=" + p.In, "-o=" + p.Out, "."}, []byte(text), fmt.Sprintf("pair:%s:%s:%d", p.In, p.Out, p.V), M{"argv": []string{"yq", "-p=" + p.In, "-o=" + p.Out, "."}, "stdin": text}}
		key := p.In + "\x00" + text
		if !rendered[key] {
			rendered[key] = true
			for n := 0; n < len(text); n++ {
				if !rc.Thorough() && len(text) > 24 && n%3 != int(rc.Seed%3) {
					continue
				}
				pre := text[:n]
				fjobs <- fjob{[]string{"-p=" + p.In, "-o=json", "."}, []byte(pre), fmt.Sprintf("prefix:%s:%d:%d", p.In, p.V, n), M{"argv": []string{"yq", "-p=" + p.In, "-o=json", "."}, "stdin": pre}}
			}
		}
	}
	close(fjobs)
	wg.Wait()
	rc.Sample(M{"family": "format pairs and byte prefixes", "example": M{"argv": []string{"yq", "-p=toml", "-o=xml", "."}, "stdin": func() string { s, _ := renderAs("toml", vals[12]); return s }()}})

	// (6) anchors, aliases and merge keys, well- and ill-typed (documents of Gen_Anchors), through every reading route
	var adocs, illdocs []string
	if _, err := RunTLC(rc, TLCOpts{Name: "anchors", Module: "Gen_Anchors", Cfg: "INIT Init\nNEXT Next\nCHECK_DEADLOCK FALSE\n", Timeout: 10 * time.Minute,
		OnVector: func(js []byte) {
			var m M
			if json.Unmarshal(js, &m) != nil {
				return
			}
			mu.Lock()
			if ill, _ := m["ill"].(bool); ill {
				illdocs = append(illdocs, renderATree(m["doc"])+"\n")
			} else {
				adocs = append(adocs, renderATree(m["doc"])+"\n")
			}
			mu.Unlock()
		}}); err != nil {
		return err
	}
	if len(adocs) == 0 {
		return machinery("Gen_Anchors produced no documents")
	}
	ajobs := make(chan fjob, 256)
	for w := 0; w < runtime.NumCPU(); w++ {
		wg.Add(1)
		go func() {
			defer wg.Done()
			for j := range ajobs {
				p := runProc(dir, j.stdin, j.args...)
				note(j.key)
				if p.Hang {
					reportCrash("hang", "anchors", fmt.Sprintf("yq %s does not terminate on %s", strings.Join(j.args, " "), j.stdin), j.desc)
				} else if p.crashed() {
					reportCrash("panic", panicSite([]byte(p.Stderr)), fmt.Sprintf("yq %s on %s aborts: %s", strings.Join(j.args, " "), strings.TrimSpace(string(j.stdin)), firstLine(p.Stderr)), j.desc)
				}
			}
		}()
	}
	routes := [][]string{{"."}, {"explode(.)"}, {"-o=json", "."}, {"-o=props", "."}, {"-o=json", "[..]"}, {"-o=json", ".m.q"}, {"-o=json", "[.m[]]"}, {"-o=json", ".m | keys"},
		{"-o=json", ".m | to_entries"}, {"-o=xml", "."}, {"-o=json", ".m * .b"}, {"-o=json", ".m.new = 1"}, {"-o=json", "del(.m.q)"}, {"-o=json", ".m | has(\"q\")"}, {"-o=json", "[.. | select(has(\"q\"))]"}}
	sort.Strings(adocs)
	if len(illdocs) == 0 {
		return machinery("Gen_Anchors produced no ill-typed documents")
	}
	// anchors that refer to themselves: no finite value is defined, an error is the only answer - never an abort
	illdocs = append(illdocs, "m: &x\n  <<: *x\n  q: 1\n", "m: &x [*x]\n", "m: &x {q: *x}\n", "b: &b {<<: *c}\nc: &c {<<: *b}\nm: *b\n", "m: &x\n  <<: [*x]\n  q: 1\n")
	for i, text := range append(illdocs, adocs...) {
		if !rc.Thorough() && i >= len(illdocs) && i%4 != int(rc.Seed%4+4)%4 {
			continue
		}
		for _, r := range routes {
			ajobs <- fjob{r, []byte(text), fmt.Sprintf("anchors:%d:%s", i, strings.Join(r, " ")), M{"argv": append([]string{"yq"}, r...), "stdin": text}}
		}
	}
	close(ajobs)
	wg.Wait()
	// inputs and flags outside the generated spaces, each a way to reach code the generators do not (reported by readers of the code)
	for _, xc := range []struct {
		stdin string
		args  []string
	}{
		{"{1}\n", []string{"-p=json", "."}}, {"{\"a\":1,true:2}\n", []string{"-p=json", "."}}, {"{null:1}\n", []string{"-p=json", "."}}, {"[{1:2}]\n", []string{"-p=json", "-o=yaml", "."}},
		{"!!map [1]\n", []string{"-o=xml", "."}}, {"[!!map [1]]\n", []string{"pivot"}}, {"!!seq {a: 1}\n", []string{"-o=xml", "."}}, {"[1, 2, 3]\n", []string{"-o=xml", ". tag = \"!!map\""}},
		{"!!map [1]\n", []string{"-o=json", "."}}, {"!!map [1]\n", []string{"-o=props", "."}}, {"!!seq {a: 1}\n", []string{"-o=csv", "."}}, {"!!map [1]\n", []string{"-o=lua", "."}},
		{"a: 1\n", []string{".a alias = \"nope\" | .a.b"}}, {"a: 1\n", []string{"-o=props", ".a alias = \"nope\""}}, {"a: 1\n", []string{"-o=shell", ".a alias = \"nope\""}},
		{"a: &m {b: 1}\nc: 2\n", []string{"-o=json", ".c alias = \"m\" | .c.b"}},
		{"a: 1\n", []string{"-I=-1", "."}}, {"a: 1\n", []string{"-I=-1", "-o=json", "."}}, {"a: {b: 1}\n", []string{"-I=-5", "-o=xml", "."}},
	} {
		p := runProc(dir, []byte(xc.stdin), xc.args...)
		note("explicit:" + strings.Join(xc.args, " "))
		desc := M{"argv": append([]string{"yq"}, xc.args...), "stdin": xc.stdin}
		if p.Hang {
			reportCrash("hang", "explicit", fmt.Sprintf("yq %s does not terminate on %q", strings.Join(xc.args, " "), xc.stdin), desc)
		} else if p.crashed() {
			reportCrash("panic", panicSite([]byte(p.Stderr)), fmt.Sprintf("yq %s on %q aborts: %s", strings.Join(xc.args, " "), xc.stdin, firstLine(p.Stderr)), desc)
		}
	}
	rc.Sample(M{"family": "anchors / aliases / merge keys incl. ill-typed merge sources", "example": M{"argv": []string{"yq", "explode(.)"}, "stdin": illdocs[0]}})

	// (7) truncated and corrupted texts of every other input format: the texts the codec specification writes
	// (Gen_Codecs: base64, uri, csv, tsv, properties, xml, lua, toml), each also with one line removed, one markup
	// tag / bracketed header removed, two neighbouring lines swapped, and cut at every position (short texts) or line end
	var ctexts []struct{ f, text string }
	if _, err := RunTLC(rc, TLCOpts{Name: "codecs", Module: "Gen_Codecs", Cfg: "CONSTANTS\n Lanes = 16\nINIT Init\nNEXT Next\nCHECK_DEADLOCK FALSE\n", Timeout: 10 * time.Minute,
		OnVector: func(js []byte) {
			var c codecCase
			if json.Unmarshal(js, &c) != nil {
				return
			}
			mu.Lock()
			ctexts = append(ctexts, struct{ f, text string }{baseOf(c.F), runesOf(c.Text)})
			if len(c.Alt) > 0 {
				ctexts = append(ctexts, struct{ f, text string }{baseOf(c.F), runesOf(c.Alt)})
			}
			mu.Unlock()
		}}); err != nil {
		return err
	}
	if len(ctexts) < 500 {
		return machinery("Gen_Codecs produced %d texts", len(ctexts))
	}
	sort.Slice(ctexts, func(i, j int) bool { return ctexts[i].f+ctexts[i].text < ctexts[j].f+ctexts[j].text })
	cjobs := make(chan fjob, 256)
	for w := 0; w < runtime.NumCPU(); w++ {
		wg.Add(1)
		go func() {
			defer wg.Done()
			for j := range cjobs {
				p := runProc(dir, j.stdin, j.args...)
				note(j.key)
				if p.Hang {
					reportCrash("hang", j.args[0], fmt.Sprintf("yq %s does not terminate on %q", strings.Join(j.args, " "), j.stdin), j.desc)
				} else if p.crashed() {
					reportCrash("panic", panicSite([]byte(p.Stderr)), fmt.Sprintf("yq %s on %q aborts: %s", strings.Join(j.args, " "), j.stdin, firstLine(p.Stderr)), j.desc)
				}
			}
		}()
	}
	reTag := regexp.MustCompile(`<[^<>]*>|\[\[?[^\[\]\n]*\]\]?`)
	seenText := map[string]bool{}
	nCorrupt := 0
	for i, ct := range ctexts {
		if !rc.Thorough() && ct.f != "toml" && !inShard(i, 8, int(rc.Seed%8+8)%8) { // the structured TOML texts are few: always all of them
			continue
		}
		variants := []string{ct.text}
		lines := strings.SplitAfter(ct.text, "\n")
		for k := range lines { // one line removed; two neighbouring lines swapped; cut at the line end
			variants = append(variants, strings.Join(append(append([]string{}, lines[:k]...), lines[k+1:]...), ""))
			variants = append(variants, strings.Join(lines[:k], ""), strings.TrimSuffix(strings.Join(lines[:k+1], ""), "\n")) // ... and without the final line break
			if k+1 < len(lines) {
				sw := append([]string{}, lines...)
				sw[k], sw[k+1] = sw[k+1], sw[k]
				variants = append(variants, strings.Join(sw, ""))
			}
		}
		for k := range lines { // cut at the front (a text that starts in the middle)
			variants = append(variants, strings.Join(lines[k:], ""))
		}
		for _, loc := range reTag.FindAllStringIndex(ct.text, -1) { // one tag / header removed; the text from a tag on; a comment put in
			variants = append(variants, ct.text[:loc[0]]+ct.text[loc[1]:], ct.text[loc[0]:], ct.text[loc[1]:])
			if ct.f == "xml" {
				variants = append(variants, ct.text[:loc[0]]+"<!-- c -->"+ct.text[loc[0]:], ct.text[:loc[1]]+"<!-- c -->"+ct.text[loc[1]:], ct.text[loc[0]:]+"<!-- c -->")
			}
		}
		// the head of this text continued by the tail of the next text of the same format (line boundaries)
		if i+1 < len(ctexts) && ctexts[i+1].f == ct.f && len(lines) <= 10 {
			other := strings.SplitAfter(ctexts[i+1].text, "\n")
			if len(other) <= 10 {
				for k := 1; k <= len(lines); k++ {
					for m := 0; m < len(other); m++ {
						variants = append(variants, strings.Join(lines[:k], "")+strings.Join(other[m:], ""))
					}
				}
			}
		}
		if len(ct.text) <= 40 {
			for n := 1; n < len(ct.text); n++ {
				variants = append(variants, ct.text[:n])
			}
		}
		flag := fmtFlag[ct.f]
		for _, v := range variants {
			key := ct.f + "\x00" + v
			if seenText[key] {
				continue
			}
			seenText[key] = true
			nCorrupt++
			cjobs <- fjob{[]string{"-p=" + flag, "-o=json", "-I0", "."}, []byte(v), "corrupt:" + key, M{"argv": []string{"yq", "-p=" + flag, "-o=json", "-I0", "."}, "stdin": v}}
		}
	}
	close(cjobs)
	wg.Wait()
	rc.Set("corrupted_format_texts", nCorrupt)
	rc.Sample(M{"family": "truncated / corrupted texts of the codec specification", "example": M{"argv": []string{"yq", "-p=toml", "-o=json", "."}, "stdin": "[[t]]\n[t.k1]\n"}})

	rc.Set("evaluations", evaluations)
	rc.Set("distinct_nontrivial", len(distinct))
	rc.Set("rule", "cases = (a) every index/slice bound combination of the specification's bounds table, (b) every vector of the evaluator grammar of Gen_Eval incl. the ones whose outcome the specification leaves open, (c) every token sequence of Gen_Parser (ill-formed included) evaluated on two documents, (d) every model-domain value x input format x output format through the binary, (e) byte prefixes of every rendered input, (g) every text the codec specification writes for base64 / uri / csv / tsv / properties / xml / lua / toml, and each with one line removed, one tag or bracketed header removed, two neighbouring lines swapped, cut short at either end, an XML comment put in, and continued by the tail of the next text of the format, (f) every document of Gen_Anchors (anchors, aliases, merge keys with alias / list / in-place / ill-typed sources) x 15 reading routes; each executed under a crash/hang monitor (recover + stack for in-process cases, exit status / stderr / 15 s watchdog for the binary); distinct = distinct (expression or argv, input) pairs")
	rc.Set("states", res.Distinct)
	rc.Assume("arbitrary and mutated byte strings are not generated (a specification cannot enumerate what it does not describe): not claimed")
	return nil
}

func firstLine(s string) string {
	if i := strings.Index(s, "\n"); i >= 0 {
		return s[:i]
	}
	return s
}
