package main

import (
	"crypto/sha1"
	"encoding/json"
	"fmt"
	"os"
	"path/filepath"
	"sort"
	"strconv"
	"strings"
	"sync"
	"time"
)

var verifHome = envOr("VERIF_HOME", "/verif")
var repoDir = envOr("REPO", "/repo")

func envOr(k, d string) string {
	if v := os.Getenv(k); v != "" {
		return v
	}
	return d
}

// MachineryError marks a failure of the checking machinery itself (exit 2, never a violation).
type MachineryError struct{ Msg string }

func (e *MachineryError) Error() string { return e.Msg }

func machinery(format string, a ...interface{}) error {
	return &MachineryError{fmt.Sprintf(format, a...)}
}

type Finding struct {
	Property    string `json:"property"`
	ID          string `json:"id"`
	Fingerprint string `json:"fingerprint"` // exact, or prefix followed by '*'
	What        string `json:"what"`
	Repro       string `json:"repro,omitempty"`
}

type FindingsFile struct {
	Findings []Finding                `json:"findings"`
	Fixed    []map[string]interface{} `json:"fixed"`
}

type violation struct {
	Fingerprint string
	What        string
	Replay      string
}

type Run struct {
	ID, Tier string
	Seed     int64
	Out      string // scratch directory of this run
	Level    string

	mu          sync.Mutex
	cov         map[string]interface{}
	counters    map[string]int64
	samples     []interface{}
	assumptions []string
	findings    []Finding
	known       map[string]int // finding id -> hits
	knownWhat   map[string]string
	viol        []violation
	violSeen    map[string]bool
	notes       []string
}

func newRun(id, tier string) *Run {
	seed := int64(1)
	if s := os.Getenv("VERIF_SEED"); s != "" {
		if v, err := strconv.ParseInt(s, 10, 64); err == nil {
			seed = v
		}
	}
	out := filepath.Join(verifHome, "out", id)
	os.RemoveAll(out)
	os.MkdirAll(out, 0o755)
	os.MkdirAll(filepath.Join(verifHome, "out", "replay"), 0o755)
	r := &Run{ID: id, Tier: tier, Seed: seed, Out: out, Level: "model_checking",
		cov: map[string]interface{}{}, counters: map[string]int64{}, known: map[string]int{}, knownWhat: map[string]string{}, violSeen: map[string]bool{}}
	var ff FindingsFile
	if b, err := os.ReadFile(filepath.Join(verifHome, "known_findings.json")); err == nil {
		if err := json.Unmarshal(b, &ff); err != nil {
			fmt.Fprintf(os.Stderr, "known_findings.json unreadable: %v\n", err)
			os.Exit(2)
		}
	}
	for _, f := range ff.Findings {
		if f.Property == id {
			r.findings = append(r.findings, f)
		}
	}
	return r
}

// inShard spreads case numbers over shards by a multiplicative hash, so that a shard is not aligned with the period of an alphabet or a table
func inShard(i, nsh, shard int) bool {
	if nsh <= 1 {
		return true
	}
	return int((uint32(i)*2654435761)>>13)%nsh == shard
}

func (r *Run) Thorough() bool { return r.Tier == "thorough" }

// Pick returns q in the quick tier and t in the thorough tier.
func (r *Run) Pick(q, t int) int {
	if r.Thorough() {
		return t
	}
	return q
}

func (r *Run) Logf(format string, a ...interface{}) {
	fmt.Printf("[%s] %s\n", r.ID, fmt.Sprintf(format, a...))
}

func (r *Run) Set(key string, v interface{}) {
	r.mu.Lock()
	r.cov[key] = v
	r.mu.Unlock()
}

func (r *Run) Add(key string, n int64) {
	r.mu.Lock()
	r.counters[key] += n
	r.mu.Unlock()
}

func (r *Run) Count(key string) int64 {
	r.mu.Lock()
	defer r.mu.Unlock()
	return r.counters[key]
}

func (r *Run) Sample(s interface{}) {
	r.mu.Lock()
	if len(r.samples) < 12 {
		r.samples = append(r.samples, s)
	}
	r.mu.Unlock()
}

func (r *Run) Assume(s string) { r.mu.Lock(); r.assumptions = append(r.assumptions, s); r.mu.Unlock() }
func (r *Run) Note(s string)   { r.mu.Lock(); r.notes = append(r.notes, s); r.mu.Unlock() }

func matchFingerprint(pats, fp string) bool {
	for _, pat := range strings.Split(pats, " | ") {
		if matchOne(strings.TrimSpace(pat), fp) {
			return true
		}
	}
	return false
}

func matchOne(pat, fp string) bool {
	if strings.HasSuffix(pat, "*") {
		return strings.HasPrefix(fp, strings.TrimSuffix(pat, "*"))
	}
	return pat == fp
}

// Report records a confirmed divergence of the REAL code from the property.
// fingerprint identifies kind+site(+shape); replay is any JSON-able description
// with which `./check replay` can re-execute the case. Known findings are
// matched by fingerprint and do not count as violations.
func (r *Run) Report(fingerprint, what string, replay map[string]interface{}) {
	r.mu.Lock()
	defer r.mu.Unlock()
	for _, f := range r.findings {
		if matchFingerprint(f.Fingerprint, fingerprint) {
			r.known[f.ID]++
			if _, ok := r.knownWhat[f.ID]; !ok {
				r.knownWhat[f.ID] = f.What + " [e.g. " + what + "]"
			}
			return
		}
	}
	if r.violSeen[fingerprint] && len(r.viol) >= 1 {
		r.counters["violations_more_of_same_fingerprint"]++
		return
	}
	r.violSeen[fingerprint] = true
	if replay == nil {
		replay = map[string]interface{}{}
	}
	replay["property"] = r.ID
	replay["fingerprint"] = fingerprint
	replay["what"] = what
	replay["seed"] = r.Seed
	b, _ := json.MarshalIndent(replay, "", " ")
	h := sha1.Sum([]byte(fingerprint))
	path := filepath.Join(verifHome, "out", "replay", fmt.Sprintf("%s-%x.json", r.ID, h[:5]))
	os.WriteFile(path, b, 0o644)
	r.viol = append(r.viol, violation{fingerprint, what, path})
}

func (r *Run) Violations() int { r.mu.Lock(); defer r.mu.Unlock(); return len(r.viol) }

func (r *Run) finish(wall time.Duration, err error) {
	r.mu.Lock()
	defer r.mu.Unlock()
	for k, v := range r.counters {
		if _, ok := r.cov[k]; !ok {
			r.cov[k] = v
		}
	}
	if len(r.samples) > 0 {
		r.cov["samples"] = r.samples
	}
	if len(r.known) > 0 {
		r.cov["known_findings_hit"] = r.known
	}
	if len(r.notes) > 0 {
		r.cov["notes"] = r.notes
	}
	if r.assumptions == nil {
		r.assumptions = []string{"TLC and the harness projections (alpha/gamma) are trusted"}
	}
	ev := map[string]interface{}{
		"property_id": r.ID, "tier": r.Tier, "seed": r.Seed, "level": r.Level,
		"coverage": r.cov, "assumptions": r.assumptions, "wall_s": float64(int(wall.Seconds()*10)) / 10, "violations": len(r.viol),
	}
	if err != nil {
		ev["machinery_error"] = err.Error()
	}
	b, _ := json.MarshalIndent(ev, "", " ")
	os.MkdirAll(filepath.Join(verifHome, "evidence"), 0o755)
	os.WriteFile(filepath.Join(verifHome, "evidence", r.ID+".json"), append(b, '\n'), 0o644)

	ids := []string{}
	for id := range r.known {
		ids = append(ids, id)
	}
	sort.Strings(ids)
	for _, id := range ids {
		fmt.Printf("KNOWN-FINDING: property=%s %s: %s (hits=%d)\n", r.ID, id, r.knownWhat[id], r.known[id])
	}
	if err != nil {
		fmt.Printf("[%s] MACHINERY-ERROR: %v\n", r.ID, err)
		if len(r.viol) == 0 {
			os.Exit(2)
		}
	}
	for _, v := range r.viol {
		fmt.Printf("[%s] violation: %s -- %s\n", r.ID, v.Fingerprint, v.What)
		fmt.Printf("VIOLATION property=%s replay=%s\n", r.ID, v.Replay)
	}
	fmt.Printf("[%s] tier=%s seed=%d wall=%.1fs violations=%d known=%d\n", r.ID, r.Tier, r.Seed, wall.Seconds(), len(r.viol), len(r.known))
	if len(r.viol) > 0 {
		os.Exit(1)
	}
	os.Exit(0)
}
