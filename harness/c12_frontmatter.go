package main

import (
	"encoding/json"
	"fmt"
	"os"
	"path/filepath"
	"strings"
	"sync"
	"time"
)

// the last clause of C12 (FrontMatter.tla): --front-matter=process runs the expression on the front matter only and keeps the
// text after it byte for byte, on stdout and in place
func checkFrontMatter(rc *Run) error {
	type fmCase struct {
		Front, Rest []string
		Expr        string
		F, R        int
	}
	var cases []fmCase
	var mu sync.Mutex
	res, err := RunTLC(rc, TLCOpts{Name: "frontmatter", Module: "FrontMatter", Cfg: "INIT Init\nNEXT Next\nINVARIANTS SplitLaw\nCHECK_DEADLOCK FALSE\n", Timeout: 5 * time.Minute,
		OnVector: func(js []byte) {
			var c fmCase
			if json.Unmarshal(js, &c) != nil {
				return
			}
			mu.Lock()
			cases = append(cases, c)
			mu.Unlock()
		}})
	if err != nil {
		return err
	}
	if res.InvariantViolated != "" || len(cases) == 0 {
		return machinery("FrontMatter.tla: %s (%d cases)", res.InvariantViolated, len(cases))
	}
	dir := filepath.Join(rc.Out, "fm")
	os.MkdirAll(dir, 0o755)
	judged := 0
	for _, c := range cases {
		for _, eol := range []string{"\n", "\r\n"} {
			for _, finalNL := range []bool{true, false} {
				join := func(ls []string, last bool) string {
					if len(ls) == 0 {
						return ""
					}
					s := strings.Join(ls, eol)
					if last {
						s += eol
					}
					return s
				}
				restText := join(c.Rest, finalNL)
				frontText := join(c.Front, finalNL || len(c.Rest) > 0)
				if len(c.Rest) == 0 && !finalNL && eol == "\r\n" {
					continue
				}
				full := frontText + restText
				variant := fmt.Sprintf("f%d:r%d:%s:%v", c.F, c.R, map[string]string{"\n": "lf", "\r\n": "crlf"}[eol], finalNL)
				os.WriteFile(filepath.Join(dir, "front.yml"), []byte(frontText), 0o644)
				os.WriteFile(filepath.Join(dir, "full.md"), []byte(full), 0o644)
				os.WriteFile(filepath.Join(dir, "inplace.md"), []byte(full), 0o644)
				ref := runProc(dir, nil, c.Expr, "front.yml")
				out := runProc(dir, nil, "--front-matter=process", c.Expr, "full.md")
				inp := runProc(dir, nil, "-i", "--front-matter=process", c.Expr, "inplace.md")
				after, _ := os.ReadFile(filepath.Join(dir, "inplace.md"))
				judged++
				concrete := M{"machine": "FrontMatter", "concrete": M{"argv": []string{"yq", "--front-matter=process", c.Expr, "full.md"}, "file": full}}
				if ref.Code != 0 { // the expression fails on the front matter: failure, nothing printed, file untouched
					if out.Code == 0 {
						rc.Report("front-matter:succeeds-where-the-front-fails:"+variant, fmt.Sprintf("yq %s fails on the front matter alone but --front-matter=process exits 0 on %q", c.Expr, full), concrete)
					}
					if inp.Code == 0 || string(after) != full {
						rc.Report("front-matter:in-place-after-failure:"+variant, fmt.Sprintf("yq -i --front-matter=process %s on %q: exit %d, file afterwards %q", c.Expr, full, inp.Code, after), concrete)
					}
					continue
				}
				want := ref.Stdout + restText
				if out.Code != 0 || out.Stdout != want {
					rc.Report(fmt.Sprintf("front-matter:stdout:r%d:%s", c.R, map[string]string{"\n": "lf", "\r\n": "crlf"}[eol]), fmt.Sprintf("yq --front-matter=process '%s' on %q prints %q (exit %d); the front matter alone gives %q and the rest is %q", c.Expr, full, out.Stdout, out.Code, ref.Stdout, restText), concrete)
					continue
				}
				if inp.Code != 0 || string(after) != want {
					rc.Report(fmt.Sprintf("front-matter:in-place:r%d:%s", c.R, map[string]string{"\n": "lf", "\r\n": "crlf"}[eol]), fmt.Sprintf("yq -i --front-matter=process '%s' on %q leaves %q (exit %d), expected %q", c.Expr, full, after, inp.Code, want), concrete)
				}
			}
		}
	}
	rc.Set("front_matter_files_judged", judged)
	rc.Set("front_matter_cases_from_TLC", len(cases))
	rc.Logf("front matter: SplitLaw holds; %d files judged (stdout and in place)", judged)
	_ = time.Second
	return nil
}

// the no-fault schedule of InPlace.tla on the concrete kinds of target a path can name: a regular file and a symbolic link
// to one, under several permission modes, with eval and eval-all: exit 0, the content read through the path is what the
// command prints without -i, and the permission bits read through the path are the original ones
func checkTargetKinds(rc *Run) error {
	dir := filepath.Join(rc.Out, "kinds")
	os.MkdirAll(dir, 0o755)
	runs := 0
	for _, mode := range []os.FileMode{0o600, 0o640, 0o644, 0o664, 0o755} {
		for _, kind := range []string{"regular", "symlink"} {
			for _, sub := range []string{"", "ea"} {
				os.RemoveAll(dir)
				os.MkdirAll(dir, 0o755)
				real := filepath.Join(dir, "real.yml")
				os.WriteFile(real, []byte("a: 1\nb: [x, y]\n"), 0o600)
				os.Chmod(real, mode)
				path := "real.yml"
				if kind == "symlink" {
					os.Symlink("real.yml", filepath.Join(dir, "link.yml"))
					path = "link.yml"
				}
				args := []string{}
				if sub != "" {
					args = append(args, sub)
				}
				ref := runProc(dir, nil, append(append([]string{}, args...), ".a = 2", path)...)
				p := runProc(dir, nil, append(append([]string{}, args...), "-i", ".a = 2", path)...)
				runs++
				concrete := M{"machine": "InPlace", "concrete": M{"argv": append(append([]string{"yq"}, args...), "-i", ".a = 2", path), "target": kind, "mode": fmt.Sprintf("%o", mode)}}
				after, _ := os.ReadFile(filepath.Join(dir, path))
				st, err := os.Stat(filepath.Join(dir, path)) // follows the link
				switch {
				case p.Code != 0:
					rc.Report("in-place-kind:fails:"+kind, fmt.Sprintf("yq -i on a %s target (mode %o) fails: %s", kind, mode, firstLine(p.Stderr)), concrete)
				case string(after) != ref.Stdout:
					rc.Report("in-place-kind:content:"+kind, fmt.Sprintf("yq -i on a %s target: the path reads %q, the command without -i prints %q", kind, after, ref.Stdout), concrete)
				case err != nil || st.Mode().Perm() != mode:
					got := os.FileMode(0)
					if err == nil {
						got = st.Mode().Perm()
					}
					rc.Report("in-place-kind:mode:"+kind, fmt.Sprintf("yq -i on a %s target of mode %o leaves mode %o", kind, mode, got), concrete)
				}
			}
		}
	}
	rc.Set("target_kind_runs", runs)
	return nil
}
