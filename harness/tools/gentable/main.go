//go:build verif

// gentable writes spec/ParserTable.tla: the token table of the expression language (operation type,
// precedence, arity, post-traverse flag, assign variant per token spelling) as documented by the pinned tree.
// It is run ONCE when the table is (re)frozen; checks never regenerate it, so a later change of a
// precedence or arity in the code shows up as a divergence from the specification.
package main

import (
	"fmt"
	"os"
	"regexp"
	"strings"

	"github.com/mikefarah/yq/v4/pkg/yqlib"
	logging "gopkg.in/op/go-logging.v1"
)

var spellings = strings.Fields(`1 1.5 0x1F 1e3 true false null ~ "s" $x .a ."b" .a? . .. ...
length line column eval to_number map_values map filter pick omit flatten(1) flatten format_datetime now tz from_unix to_unix
with_dtf error shuffle sort_keys array_to_map to_yaml(2) to_xml(2) to_json(2) from_yaml to_yaml to_json @json from_props to_props
from_xml to_xml @xml from_csv to_csv from_tsv to_tsv @base64d @base64 @urid @uri @sh load_xml load_base64 load_props load_str load
split_doc select has unique_by unique group_by explode or and not ireduce join sub match capture test sort_by sort reverse
any_c any all_c all contains split parent(2) parent keys key is_key filename file_index path setpath delpaths to_entries
from_entries with_entries with collect del style tag kind anchor alias ; // document_index upcase downcase trim to_string
strenv(X) env(X) envsubst(ne) envsubst == != >= <= > < min max |= = =c | , *= * *+ / % += + -= - pivot line_comment head_comment
foot_comment as ref : ( ) [ ] { } .[ comments=`)

var reBad = regexp.MustCompile(`[^A-Za-z0-9_]`)

func tlaName(s string) string {
	r := strings.NewReplacer(".", "dot", "\"", "q", "(", "lp", ")", "rp", "[", "lb", "]", "rb", "{", "lc", "}", "rc", "=", "eq", "!", "bang", ">", "gt", "<", "lt",
		"|", "bar", ",", "comma", "*", "star", "/", "slash", "%", "pct", "+", "plus", "-", "minus", ";", "semi", ":", "colon", "@", "at", "$", "dollar", "~", "tilde", "?", "opt")
	return "t_" + reBad.ReplaceAllString(r.Replace(s), "_")
}

func main() {
	logging.SetLevel(logging.ERROR, "yq-lib")
	yqlib.InitExpressionParser()
	var sb strings.Builder
	sb.WriteString("---------------------------- MODULE ParserTable ----------------------------\n")
	sb.WriteString("(* GENERATED ONCE by harness/tools/gentable from the pinned tree and then frozen: the token table of the\n   expression language (spelling -> token kind, operation type, precedence, arity, post-traverse flag, assign\n   variant).  It is the documented precedence table the parser specification is written against. *)\n")
	sb.WriteString("Tok(n, txt, t, op, d, prec, args, post, asg) == [n |-> n, txt |-> txt, t |-> t, op |-> op, d |-> d, prec |-> prec, args |-> args, post |-> post, asg |-> asg]\n")
	sb.WriteString("TokenTable == <<\n")
	first := true
	for _, sp := range spellings {
		toks, err := yqlib.VerifRawTokenise(sp)
		if err != nil || len(toks) != 1 {
			fmt.Fprintf(os.Stderr, "skip %q: %v %d tokens\n", sp, err, len(toks))
			continue
		}
		t := toks[0]
		detail := ""
		switch t.OpType {
		case "TRAVERSE_PATH", "VALUE", "GET_VARIABLE", "STRING_INT", "ENV":
			detail = sp
		case "ASSIGN", "ASSIGN_COMMENT":
			detail = fmt.Sprint(t.Update)
		}
		if !first {
			sb.WriteString(",\n")
		}
		first = false
		fmt.Fprintf(&sb, "  Tok(%q, %q, %q, %q, %q, %d, %d, %s, %q)", tlaName(sp), sp, t.Kind, t.OpType, detail, t.Precedence, t.NumArgs, strings.ToUpper(fmt.Sprint(t.Post)), t.AssignType)
	}
	sb.WriteString("\n>>\n=============================================================================\n")
	out := sb.String()
	os.WriteFile(os.Args[1], []byte(out), 0o644)
}
