---------------------------- MODULE Gen_Parser ----------------------------
(***************************************************************************)
(* C09 - vector generation and model checking for the parser.              *)
(*  * Templates over the FULL token table: every ordered pair of binary    *)
(*    operators adjacent (`a op1 b op2 c`) bare, inside ( ) [ ] { } and    *)
(*    f( ); every operand-like token followed by a path / an index / a     *)
(*    pipe; every prefix function with an argument, postfix traversal,     *)
(*    and as an operand; slices, splats, object and array construction;    *)
(*    the `x =` fusion of assignable getters.                              *)
(*  * ALL token sequences up to length MaxLen over a reduced alphabet,     *)
(*    well-formed or not.                                                  *)
(* Laws checked on the model (invariants): PairLaw, ParenLaw, RejectLaw,   *)
(* ArityLaw.  Every sequence is printed with the specification's verdict   *)
(* (reject / nil / tree) for replay through the real ExpressionParser.     *)
(***************************************************************************)
EXTENDS Parser, Json

CONSTANTS MaxLen,          \* exhaustive sequences over the reduced alphabet up to this length
          Deep,            \* TRUE: additionally every sequence of length MaxLen + 1 over the core alphabet Red4 (thorough tier)
          NShards, Shard   \* template families are sharded by operator index

N == Len(TokenTable)
T(name) == TokenTable[CHOOSE i \in 1..N : TokenTable[i].n = name]
Idx(name) == CHOOSE i \in 1..N : TokenTable[i].n = name
BinIdx  == {i \in 1..N : TokenTable[i].t = "op" /\ TokenTable[i].args = 2}
PreIdx  == {i \in 1..N : TokenTable[i].t = "op" /\ TokenTable[i].args = 1}
NulIdx  == {i \in 1..N : TokenTable[i].t = "op" /\ TokenTable[i].args = 0}
AsgIdx  == {i \in 1..N : TokenTable[i].asg # ""}

LP == Idx("t_lp")  RP == Idx("t_rp")  LB == Idx("t_lb")  RB == Idx("t_rb")  LC == Idx("t_lc")  RC == Idx("t_rc")  DLB == Idx("t_dotlb")
PA == Idx("t_dota")  ONE == Idx("t_1")  DOT == Idx("t_dot")  STR == Idx("t_qsq")  BAR == Idx("t_bar")  PLUS == Idx("t_plus")  COMMA == Idx("t_comma")
COLON == Idx("t_colon")  SEL == Idx("t_select")  EQ == Idx("t_eq")  UPD == Idx("t_bareq")  LEN == Idx("t_length")

Toks(s) == [i \in DOMAIN s |-> TokenTable[s[i]]]
P(s) == Parse(Toks(s))

\* ---- template families (sets of index sequences)
Pair(a, b) == <<PA, a, ONE, b, DOT>>
PairForms(a, b) == { Pair(a, b), <<LP>> \o Pair(a, b) \o <<RP>>, <<LB>> \o Pair(a, b) \o <<RB>>, <<SEL, LP>> \o Pair(a, b) \o <<RP>>,
                     <<LC, STR, COLON>> \o Pair(a, b) \o <<RC>>, <<DLB>> \o Pair(a, b) \o <<RB>>,
                     <<LP, PA, RP, a, LP, ONE, RP, b, LP, DOT, RP>>,                       \* redundant parentheses on every operand
                     <<LP, PA, a, ONE, RP, b, DOT>>, <<PA, a, LP, ONE, b, DOT, RP>> }      \* both explicit groupings
PairsOf(a) == UNION { PairForms(a, b) : b \in BinIdx }
\* chains of ONE operator (`x - 1 - .`): in every shard, whatever the seed
Diagonal == UNION { PairForms(a, a) : a \in BinIdx }
Operand(x) == { <<x>>, <<x, PA>>, <<x, LB, ONE, RB>>, <<x, DLB, ONE, RB>>, <<PA, BAR, x>>, <<x, PLUS, ONE>>, <<ONE, PLUS, x>>, <<LB, x, RB>>, <<x, LB, RB>>,
                <<LP, x, RP, PA>>, <<x, PA, PA>>, <<PA, x>> }
Prefix(f) == { <<f, LP, PA, RP>>, <<f, LP, PA, RP, PA>>, <<f, LP, PA, RP, LB, ONE, RB>>, <<f, LP, PA, PLUS, ONE, RP>>, <<PA, BAR, f, LP, DOT, RP>>,
               <<f, LP, PA, RP, PLUS, ONE>>, <<ONE, PLUS, f, LP, PA, RP>>, <<f, LP, PA, COMMA, ONE, RP>>, <<f>>, <<f, PA>>, <<f, LP, RP>>,
               <<f, LP, f, LP, PA, RP, RP>>, <<LP, f, LP, PA, RP, RP, PA>> }
Assignable(g) == { <<PA, g, EQ, STR>>, <<PA, g, UPD, DOT>>, <<g, EQ, STR>>, <<PA, BAR, g, EQ, STR, BAR, DOT>>, <<PA, g, EQ, STR, PLUS, STR>> }
Shapes == { <<PA, LB, ONE, RB, PA>>, <<PA, LB, RB>>, <<DLB, RB>>, <<DLB, ONE, COLON, ONE, RB>>, <<DLB, COLON, ONE, RB>>, <<DLB, ONE, COLON, RB>>,
            <<PA, LB, ONE, COLON, RB>>, <<PA, LB, COLON, ONE, RB>>, <<LB, RB>>, <<LC, RC>>, <<LB, PA, COMMA, ONE, RB>>, <<LC, STR, COLON, PA, RC>>,
            <<LC, STR, COLON, PA, COMMA, PA, COLON, ONE, RC>>, <<LB, LB, PA, RB, RB>>, <<LC, STR, COLON, LC, STR, COLON, ONE, RC, RC>>,
            <<LP, LP, PA, RP, RP>>, <<DLB, PA, RB, PA>>, <<PA, DLB, ONE, RB>>, <<LB, PA, RB, LB, ONE, RB>>, <<LC, STR, COLON, ONE, RC, PA>>,
            <<DLB, ONE, RB, DLB, ONE, RB>>, <<PA, LB, RB, PA>>, <<PA, LB, RB, LB, RB>>, <<DLB, ONE, COMMA, ONE, RB>>, <<>>,
            <<PA, PA, PA>>, <<DOT, PA>>, <<DOT, DOT>>, <<PA, LB, ONE, RB, LB, ONE, RB, PA>>, <<LB, ONE, RB, PA>> }

\* ---- reduced alphabet for the exhaustive part
Red == << PA, DOT, ONE, LEN, Idx("t_keys"), SEL, Idx("t_has"), BAR, COMMA, EQ, PLUS, Idx("t_star"), Idx("t_eqeq"), Idx("t_and"), Idx("t_slashslash"),
          COLON, LP, RP, LB, RB, LC, RC, DLB, Idx("t_style") >>
Red4 == << PA, DOT, ONE, LEN, SEL, BAR, COMMA, EQ, PLUS, LP, RP, LB, RB >>
RECURSIVE SeqsFrom4(_,_)
SeqsFrom4(pre, n) == IF n = 0 THEN {pre} ELSE UNION { SeqsFrom4(Append(pre, Red4[j]), n - 1) : j \in DOMAIN Red4 }
RECURSIVE SeqsFrom(_,_)
SeqsFrom(pre, n) == IF n = 0 THEN {pre} ELSE {pre} \cup UNION { SeqsFrom(Append(pre, Red[j]), n - 1) : j \in DOMAIN Red }

\* ---- jobs: one state per job so that TLC workers share the work
Jobs == [k : {"pair"}, i : {i \in BinIdx : i % NShards = Shard}] \cup [k : {"operand"}, i : NulIdx] \cup [k : {"prefix"}, i : PreIdx]
        \cup [k : {"assign"}, i : AsgIdx] \cup [k : {"shapes"}, i : {0}] \cup [k : {"diag"}, i : {0}] \cup [k : {"exh"}, i : DOMAIN Red]
        \cup (IF Deep THEN [k : {"deep"}, i : {(a - 1) * Len(Red4) + b : a \in DOMAIN Red4, b \in DOMAIN Red4}] ELSE {})
SeqsOf(j) == CASE j.k = "pair" -> PairsOf(j.i) [] j.k = "operand" -> Operand(j.i) [] j.k = "prefix" -> Prefix(j.i)
               [] j.k = "assign" -> Assignable(j.i) [] j.k = "shapes" -> Shapes [] j.k = "diag" -> Diagonal [] j.k = "exh" -> SeqsFrom(<<Red[j.i]>>, MaxLen - 1)
               \* a deep job: the two leading tokens are fixed, the rest is exhaustive
               [] j.k = "deep" -> SeqsFrom4(<<Red4[((j.i - 1) \div Len(Red4)) + 1], Red4[((j.i - 1) % Len(Red4)) + 1]>>, MaxLen - 1)

ASSUME PrintT("@@" \o ToJson([k |-> "table", toks |-> TokenTable]))

VARIABLES job, done
Init == job \in Jobs /\ done = FALSE
Names(s) == [i \in DOMAIN s |-> TokenTable[s[i]].n]
Next == /\ ~done /\ done' = TRUE /\ job' = job
        /\ \A s \in SeqsOf(job) : PrintT("@@" \o ToJson([k |-> job.k, toks |-> Names(s), out |-> P(s)]))

\* ---- laws (invariants; evaluated on the successor state of every job only: TLC evaluates the invariants of initial states in one thread)
PairLaw == done /\ job.k = "pair" => \A b \in BinIdx :
   LET a == job.i  r == P(Pair(a, b)) IN
   /\ r.status = "tree" /\ r.tree = RefTree3(TokenTable[PA], TokenTable[a], TokenTable[ONE], TokenTable[b], TokenTable[DOT])
ParenLaw == done /\ job.k = "pair" => \A b \in BinIdx :
   LET a == job.i  r == P(Pair(a, b)) IN
   /\ P(<<LP>> \o Pair(a, b) \o <<RP>>) = r
   /\ P(<<LP, PA, RP, a, LP, ONE, RP, b, LP, DOT, RP>>) = r
   /\ (IF TokenTable[a].prec > TokenTable[b].prec THEN P(<<LP, PA, a, ONE, RP, b, DOT>>) ELSE P(<<PA, a, LP, ONE, b, DOT, RP>>)) = r
RejectLaw == done /\ job.k \in {"exh", "deep"} => \A s \in SeqsOf(job) : ~Balanced(Toks(s)) => P(s).status # "tree"
ArityLaw == done => \A s \in SeqsOf(job) : P(s).status = "tree" => ArityOK(P(s).tree)
=============================================================================
