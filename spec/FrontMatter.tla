---------------------------- MODULE FrontMatter ----------------------------
(* C12, last clause: with --front-matter=process the expression runs on the YAML front matter only and the text after
   it is preserved byte for byte.
   A file is a sequence of lines.  The front matter is the first line and every following line up to (not including)
   the first later line that starts with `---`; the rest - from that line on - is not YAML and must come out unchanged:
        out(EXPR, front ++ rest) = yq(EXPR, front) ++ rest          (also in place: the file afterwards)
   The generator enumerates fronts x rests x expressions; Split is the rule, SplitLaw says the generated files split
   where they were put together.  The harness writes each file (LF and CRLF, with and without a final line break),
   runs the binary with and without -i, and compares with yq on the front alone followed by the rest's bytes. *)
EXTENDS Integers, Sequences, TLC, Json

\* a line is [t |-> text, sep |-> BOOLEAN (starts with ---)]: TLC cannot look into a string, so the generator says it
Ln(t) == [t |-> t, sep |-> FALSE]
Sep(t) == [t |-> t, sep |-> TRUE]
Fronts == <<
  << Ln("a: 1") >>,
  << Sep("---"), Ln("a: 1") >>,                                     \* the opening marker belongs to the front matter
  << Ln("# title"), Ln("a: 1"), Ln("b: [x, y]") >>,
  << Sep("---"), Ln("a: 1"), Ln("t: |"), Ln("  text"), Ln("  --- indented, no marker") >>,
  << Ln("a: '--- quoted, not at the line start'") >>,
  << Ln("a: 1 # --- in a comment") >>,
  << Ln("a:"), Ln("  - --- a plain scalar in a list") >> >>
Rests == <<
  << >>,                                                             \* no closing marker: the whole file is front matter
  << Sep("---") >>,
  << Sep("---"), Ln("body") >>,
  << Sep("---"), Ln("body"), Ln(""), Ln("more   spaced  "), Ln("\ttabbed") >>,
  << Sep("--- trailing words"), Ln("body") >>,
  << Sep("----"), Ln("body") >>,
  << Sep("---"), Sep("---"), Ln("after a second marker") >>,
  << Sep("---"), Ln("# not yaml: {[ \" '") , Ln("key: value that must not be re-formatted:   x") >>,
  << Sep("---"), Ln("a: 1") >> >>                                    \* looks like YAML, is not to be touched
Exprs == << ".", ".a = 2", ".new = \"x\"", "del(.a)", ".a |= . + 1", "select(.nope)" >>     \* the last one has no result: the rest of the file is still kept

Split(lines) == LET I == {i \in 2..Len(lines) : lines[i].sep} IN
                IF I = {} THEN <<lines, <<>>>> ELSE LET i == CHOOSE x \in I : \A y \in I : x <= y IN <<SubSeq(lines, 1, i - 1), SubSeq(lines, i, Len(lines))>>
Texts(ls) == [i \in DOMAIN ls |-> ls[i].t]

VARIABLES fi, done
Init == fi \in DOMAIN Fronts /\ done = FALSE
Next == /\ ~done /\ done' = TRUE /\ fi' = fi
        /\ \A ri \in DOMAIN Rests : \A ei \in DOMAIN Exprs :
              PrintT("@@" \o ToJson([front |-> Texts(Fronts[fi]), rest |-> Texts(Rests[ri]), expr |-> Exprs[ei], f |-> fi, r |-> ri]))
SplitLaw == \A ri \in DOMAIN Rests : Split(Fronts[fi] \o Rests[ri]) = <<Fronts[fi], Rests[ri]>>
=============================================================================
