------------------------------- MODULE Parser -------------------------------
(***************************************************************************)
(* The expression parser of yq as three machines over token sequences:     *)
(*   stage 1  PostProcess   implicit SELF / TRAVERSE_ARRAY / SHORT_PIPE /  *)
(*                          EMPTY / 0 / LENGTH insertions, `x =` fusion    *)
(*   stage 2  Shunt         shunting-yard with bracket matching            *)
(*   stage 3  Build         postfix -> tree with arity checks              *)
(* plus a DECLARATIVE reference (RefTree: operator-precedence grouping by  *)
(* the documented table) against which the algorithm is model-checked.     *)
(* A token is a record of ParserTable.tla:                                 *)
(*   [n, txt, t \in {"op","(",")","[","]","{","}",".["}, op, d, prec,      *)
(*    args, post (CheckForPostTraverse), asg (assign variant or "")]       *)
(***************************************************************************)
EXTENDS Integers, Sequences, FiniteSets, TLC, SequencesExt, ParserTable

OpTok(op, prec, args, post) == [n |-> "", txt |-> "", t |-> "op", op |-> op, d |-> "", prec |-> prec, args |-> args, post |-> post, asg |-> ""]
ISelf       == OpTok("SELF", 55, 0, FALSE)
ITravArr    == OpTok("TRAVERSE_ARRAY", 50, 2, FALSE)
IShort      == OpTok("SHORT_PIPE", 45, 2, FALSE)
IEmpty      == OpTok("EMPTY", 50, 0, FALSE)
IZero       == [OpTok("VALUE", 50, 0, FALSE) EXCEPT !.d = "0"]
ILen        == OpTok("LENGTH", 50, 0, FALSE)
ICollect    == OpTok("COLLECT", 50, 1, FALSE)
ICollectObj == OpTok("COLLECT_OBJECT", 50, 0, FALSE)
BOpen  == [n |-> "", txt |-> "(", t |-> "(", op |-> "", d |-> "", prec |-> 0, args |-> 0, post |-> FALSE, asg |-> ""]
BClose == [BOpen EXCEPT !.t = ")", !.txt = ")", !.post = TRUE]
BOpenC == [BOpen EXCEPT !.t = "[", !.txt = "["]

IsOp(tok, name) == tok.t = "op" /\ tok.op = name

\* ---------------------------------------------------------------- stage 1 (lexer.go: handleToken)
\* returns [out |-> tokens to append, skip |-> the next token is consumed]
PostOne(toks, i) ==
  LET cur0 == toks[i]
      last == i = Len(toks)
      pre1 == IF cur0.t = ".[" THEN <<ISelf, ITravArr>> ELSE <<>>
      cur1 == IF cur0.t = ".[" THEN BOpenC ELSE cur0
      pre2 == IF IsOp(cur1, "CREATE_MAP") /\ i > 1 /\ toks[i - 1].t = ".[" THEN <<IZero>> ELSE <<>>
      fuse == ~last /\ cur1.asg # "" /\ IsOp(toks[i + 1], "ASSIGN")
      cur  == IF fuse THEN [cur1 EXCEPT !.op = cur1.asg, !.prec = 40, !.args = 2, !.d = toks[i + 1].d] ELSE cur1
      post1 == IF IsOp(cur, "CREATE_MAP") /\ ~last /\ toks[i + 1].t = "]" THEN <<ILen>> ELSE <<>>
      post2 == IF ~last /\ ((cur.t = "[" /\ toks[i + 1].t = "]") \/ (cur.t = "{" /\ toks[i + 1].t = "}")) THEN <<IEmpty>> ELSE <<>>
      post3 == IF ~last /\ cur.post /\ (IsOp(toks[i + 1], "TRAVERSE_PATH") \/ toks[i + 1].t = ".[") THEN <<IShort>> ELSE <<>>
      post4 == IF ~last /\ cur.post /\ toks[i + 1].t = "[" THEN <<ITravArr>> ELSE <<>>
  IN [out |-> pre1 \o pre2 \o <<cur>> \o post1 \o post2 \o post3 \o post4, skip |-> fuse]

PostProcess(toks) ==
  LET step(acc, i) == IF acc.skip THEN [acc EXCEPT !.skip = FALSE]
                      ELSE LET p == PostOne(toks, i) IN [res |-> acc.res \o p.out, skip |-> p.skip]
  IN FoldLeft(step, [res |-> <<>>, skip |-> FALSE], [i \in 1..Len(toks) |-> i]).res

\* ---------------------------------------------------------------- stage 2 (expression_postfix.go: ConvertToPostfix)
PopUntil(st, res, opener) ==   \* pop operations to the result until `opener`; meeting another opener is an error
  LET RECURSIVE go(_,_)
      go(s, r) == IF s = <<>> \/ s[Len(s)].t = opener THEN [st |-> s, res |-> r, err |-> FALSE]
                  ELSE IF s[Len(s)].t \in {"(", "[", "{"} THEN [st |-> s, res |-> r, err |-> TRUE]
                  ELSE go(SubSeq(s, 1, Len(s) - 1), Append(r, s[Len(s)]))
  IN go(st, res)

\* `final` marks the implicit closing bracket appended by Shunt
ShuntStep(acc, tok, final) ==
  IF acc.err THEN acc ELSE
  CASE tok.t \in {"(", "[", "{"} -> [acc EXCEPT !.st = Append(@, tok)]
    [] tok.t \in {"]", "}"} ->
         LET opener == IF tok.t = "]" THEN "[" ELSE "{"
             p == PopUntil(acc.st, acc.res, opener)
         IN IF p.err \/ p.st = <<>> THEN [acc EXCEPT !.err = TRUE]
            ELSE LET st1 == SubSeq(p.st, 1, Len(p.st) - 1)
                     res1 == IF tok.t = "]" THEN Append(p.res, ICollect) ELSE p.res \o <<ICollectObj, IShort>>
                 IN IF st1 # <<>> /\ IsOp(st1[Len(st1)], "TRAVERSE_ARRAY")       \* the waiting TRAVERSE_ARRAY is popped too
                    THEN [st |-> SubSeq(st1, 1, Len(st1) - 1), res |-> Append(res1, st1[Len(st1)]), err |-> FALSE]
                    ELSE [st |-> st1, res |-> res1, err |-> FALSE]
    [] tok.t = ")" ->
         LET p == PopUntil(acc.st, acc.res, "(")
         IN IF p.err \/ p.st = <<>> THEN [acc EXCEPT !.err = TRUE]
            ELSE IF Len(p.st) = 1 /\ ~final THEN [acc EXCEPT !.err = TRUE]      \* only the implicit `)` may close the implicit `(`
            ELSE [st |-> SubSeq(p.st, 1, Len(p.st) - 1), res |-> p.res, err |-> FALSE]
    [] OTHER ->   \* an operation: pops operations of STRICTLY higher precedence, so equal precedence nests to the right
         LET RECURSIVE pop(_,_)
             pop(s, r) == IF s # <<>> /\ s[Len(s)].t = "op" /\ s[Len(s)].prec > tok.prec
                          THEN pop(SubSeq(s, 1, Len(s) - 1), Append(r, s[Len(s)])) ELSE <<s, r>>
             pr == pop(acc.st, acc.res)
         IN [st |-> Append(pr[1], tok), res |-> pr[2], err |-> FALSE]

Shunt(toks) ==
  LET all == Append(toks, BClose)
      r == FoldLeft(LAMBDA acc, i : ShuntStep(acc, all[i], i = Len(all)), [st |-> <<BOpen>>, res |-> <<>>, err |-> FALSE], [i \in 1..Len(all) |-> i])
  IN IF r.err \/ r.st # <<>> THEN [err |-> TRUE, res |-> <<>>] ELSE [err |-> FALSE, res |-> r.res]

\* ---------------------------------------------------------------- stage 3 (expression_parser.go: createExpressionTree)
Node0(o)       == [op |-> o.op, d |-> o.d]
Node1(o, r)    == [op |-> o.op, d |-> o.d, r |-> r]
Node2(o, l, r) == [op |-> o.op, d |-> o.d, l |-> l, r |-> r]
Build(postfix) ==
  LET step(acc, o) ==
        IF acc.err THEN acc ELSE
        CASE o.args = 0 -> [acc EXCEPT !.st = Append(@, Node0(o))]
          [] o.args = 1 -> IF Len(acc.st) < 1 THEN [acc EXCEPT !.err = TRUE]
                           ELSE [acc EXCEPT !.st = Append(SubSeq(@, 1, Len(@) - 1), Node1(o, acc.st[Len(acc.st)]))]
          [] o.args = 2 -> IF Len(acc.st) < 2 THEN [acc EXCEPT !.err = TRUE]
                           ELSE [acc EXCEPT !.st = Append(SubSeq(@, 1, Len(@) - 2), Node2(o, acc.st[Len(acc.st) - 1], acc.st[Len(acc.st)]))]
      r == FoldLeft(step, [st |-> <<>>, err |-> FALSE], postfix)
  IN IF r.err THEN [status |-> "reject"]
     ELSE IF postfix = <<>> THEN [status |-> "nil"]
     ELSE IF Len(r.st) # 1 THEN [status |-> "reject"] ELSE [status |-> "tree", tree |-> r.st[1]]

Parse(toks) == LET s == Shunt(PostProcess(toks)) IN IF s.err THEN [status |-> "reject"] ELSE Build(s.res)

\* ---------------------------------------------------------------- well-formedness (what must be rejected)
\* brackets balanced and properly nested
RECURSIVE BalancedFrom(_,_,_)
BalancedFrom(toks, i, stack) ==
  IF i > Len(toks) THEN stack = <<>>
  ELSE LET t == toks[i].t IN
       CASE t \in {"(", "[", "{"} -> BalancedFrom(toks, i + 1, Append(stack, t))
         [] t = ".[" -> BalancedFrom(toks, i + 1, Append(stack, "["))
         [] t \in {")", "]", "}"} ->
              LET want == CASE t = ")" -> "(" [] t = "]" -> "[" [] OTHER -> "{" IN
              stack # <<>> /\ stack[Len(stack)] = want /\ BalancedFrom(toks, i + 1, SubSeq(stack, 1, Len(stack) - 1))
         [] OTHER -> BalancedFrom(toks, i + 1, stack)
Balanced(toks) == BalancedFrom(toks, 1, <<>>)

\* every node of a produced tree has exactly the operands its arity demands
RECURSIVE ArityOK(_)
Arity(op) == LET I == {i \in DOMAIN TokenTable : TokenTable[i].op = op} IN
             IF I # {} THEN TokenTable[CHOOSE i \in I : TRUE].args
             ELSE CASE op \in {"TRAVERSE_ARRAY", "SHORT_PIPE"} -> 2 [] op = "COLLECT" -> 1 [] OTHER -> 0
ArityOK(t) == LET hasL == "l" \in DOMAIN t  hasR == "r" \in DOMAIN t IN
   /\ (hasL => ArityOK(t.l)) /\ (hasR => ArityOK(t.r))
   /\ (IF hasL THEN 2 ELSE IF hasR THEN 1 ELSE 0) \in
         (IF t.op \in {"ASSIGN_STYLE", "ASSIGN_TAG", "ASSIGN_ANCHOR", "ASSIGN_ALIAS", "ASSIGN_COMMENT"} THEN {2} ELSE {Arity(t.op)})

\* ---------------------------------------------------------------- declarative reference for `a op1 b op2 c`
\* tighter-binding operator first; equal precedence nests to the right (ADOPTED from the pinned tree: 1 - 2 - 3 = 2)
RefTree3(a, o1, b, o2, c) ==
  IF o1.prec > o2.prec THEN Node2(o2, Node2(o1, Node0(a), Node0(b)), Node0(c))
  ELSE Node2(o1, Node0(a), Node2(o2, Node0(b), Node0(c)))
=============================================================================
