---------------------------- MODULE Gen_Totality ----------------------------
(* C11 - every input is answered with a result or an error.  The specification's contribution is totality: every
   machine defines an outcome (ok / err / unspec) for every input of its bounded space - TLC evaluating Gen_Eval,
   Gen_Parser, Gen_Assign, ... without an evaluation error IS that check.  This module enumerates the remaining
   product the crash/hang monitor is run over: model-domain values x input formats x output formats, and the bounds
   logic of index / slice (every (length, from, to) combination). *)
EXTENDS Eval, Json
A == <<"a">>  B == <<"b">>
TVals == << Null, BoolV(TRUE), IntV(2), IntV(-1), NumV(3, 2), StrV(<<>>), StrV(A), StrV(<<"a", "b">>),
           SeqV(<<>>), MapV(<<>>), SeqV(<<IntV(2), StrV(A)>>), MapV(<< <<A, IntV(2)>>, <<B, StrV(A)>> >>),
           SeqV(<<MapV(<< <<A, IntV(2)>>, <<B, StrV(A)>> >>), MapV(<< <<A, IntV(0)>>, <<B, StrV(B)>> >>)>>),
           MapV(<< <<A, MapV(<< <<B, SeqV(<<IntV(2), Null>>)>> >>)>>, <<B, SeqV(<<SeqV(<<IntV(0)>>), MapV(<<>>)>>)>> >>),
           SeqV(<<SeqV(<<StrV(A), StrV(B)>>), SeqV(<<StrV(B), StrV(A)>>)>>) >>
InFormats == << "yaml", "json", "xml", "props", "csv", "tsv", "toml", "lua", "base64", "uri" >>
OutFormats == << "yaml", "json", "xml", "props", "csv", "tsv", "toml", "lua", "shell", "base64", "uri" >>
ASSUME \A i \in DOMAIN TVals : PrintT("@@" \o ToJson([t |-> "val", i |-> i, v |-> TVals[i]]))
ASSUME \A i \in DOMAIN TVals : \A f \in DOMAIN InFormats : \A g \in DOMAIN OutFormats : PrintT("@@" \o ToJson([t |-> "pair", v |-> i, inf |-> InFormats[f], outf |-> OutFormats[g]]))
\* bounds logic: sequences of length 0..3, every index and every slice bound in -5..5; the reference outcome of each
Seqs == << SeqV(<<>>), SeqV(<<IntV(0)>>), SeqV(<<IntV(0), IntV(1)>>), SeqV(<<IntV(0), IntV(1), IntV(2)>>) >>
Bound == -5..5
VARIABLES n, done
Init == n \in DOMAIN Seqs /\ done = FALSE
Next == /\ ~done /\ done' = TRUE /\ n' = n
        /\ \A i \in Bound : PrintT("@@" \o ToJson([t |-> "idx", len |-> n - 1, i |-> i, st |-> Run(EIndex(i), Seqs[n]).st]))
        /\ \A i \in Bound : \A j \in Bound : LET r == Run(ESlice(ELit(IntV(i)), ELit(IntV(j))), Seqs[n]) IN
              PrintT("@@" \o ToJson([t |-> "slice", len |-> n - 1, i |-> i, j |-> j, st |-> r.st, res |-> IF r.st = "ok" THEN Results(r) ELSE <<>>]))
\* every bounds combination has an outcome (TLC raises an evaluation error otherwise)
Total == \A i \in Bound : \A j \in Bound : Run(ESlice(ELit(IntV(i)), ELit(IntV(j))), Seqs[n]).st \in {"ok", "err", "unspec"}
=============================================================================
