------------------------------ MODULE Gen_Paths ------------------------------
(* C16 - path, key and parent describe where a node actually is.
   (a) nodes of the document: `.. | path`, `... | path`, key, parent on every node, also after a derived value has been
       assigned back into the document (absolute law; the reference rules GET_PATH / GET_KEY / GET_PARENT of Eval.tla);
   (b) containers derived by a rebuilding operator F: the vectors carry the container value the specification defines;
       the harness checks the RELATIVE law on the implementation: path(n) = path(c) ++ position, key(n) = last position,
       parent(n) = c, keys / to_entries enumerate the positions. *)
EXTENDS Eval, Json, Docs
CONSTANTS NShards, Shard,
          Big      \* TRUE: the systematic document space of Docs.tla is added (thorough tier)
A == <<"a">>  B == <<"b">>  C == <<"c">>
BaseDocs == <<
  MapV(<< <<A, SeqV(<<IntV(2), IntV(0), IntV(1), IntV(2)>>)>>, <<B, MapV(<< <<A, IntV(2)>>, <<B, SeqV(<<IntV(0), IntV(2)>>)>> >>)>> >>),
  MapV(<< <<A, SeqV(<<MapV(<< <<A, IntV(2)>>, <<B, StrV(A)>> >>), MapV(<< <<A, IntV(1)>> >>), MapV(<< <<A, IntV(0)>>, <<B, Null>> >>)>>)>> >>),
  SeqV(<<StrV(B), SeqV(<<StrV(A), StrV(B)>>), StrV(A)>>),
  MapV(<< <<B, StrV(A)>>, <<A, SeqV(<<SeqV(<<IntV(1)>>), SeqV(<<IntV(0), IntV(2)>>)>>)>> >>),
  \* string keys that look like integers stay strings in paths
  MapV(<< <<<<"0", "0", "7">>, MapV(<< <<A, IntV(1)>> >>)>>, <<<<"1", "2">>, IntV(2)>>, <<A, SeqV(<<IntV(0)>>)>> >>)
>>
DocSeq == IF Big THEN BaseDocs \o MoreDocs ELSE BaseDocs
Idx(l, i) == ETravArr(l, ECollect(ELit(IntV(i))))
Claims == << ENul("GET_PATH"), ENul("GET_KEY"), ENul("GET_PARENT"), [op |-> "GET_PARENT", level |-> 2], [op |-> "GET_PARENT", level |-> 0] >>
Nodes == << ERecurse(FALSE), ERecurse(TRUE), EPath(A), EPipe(EPath(A), ESplat), Idx(EPath(A), 1), Idx(EPath(A), -1), EPipe(EPath(B), EPath(B)), ESplat,
            EPipe(EPipe(EPath(A), ESplat), EPath(A)), EPipe(EPath(A), ERecurse(FALSE)) >>
\* the rebuilding operators (applied to .a or to the root)
Derive == << ENul("REVERSE"), ENul("SORT"), EUn("SORT_BY", EPath(A)), ENul("UNIQUE"), ESlice(ELit(IntV(1)), ENul("LENGTH")), ESlice(ELit(IntV(0)), ELit(IntV(2))),
             EUn("MAP", ESelf), EUn("FILTER", EBin("NOT_EQUALS", ESelf, ELit(IntV(0)))), ECollect(ESplat), ECollect(EPipe(ESplat, EUn("SELECT", ECmp(TRUE, FALSE, ESelf, ELit(IntV(0)))))),
             EBin("ADD", ESelf, ESelf), EFlatten(-1), EUn("UNIQUE_BY", EPath(A)), EUn("GROUP_BY", EPath(A)), ENul("TO_ENTRIES"), EUn("WITH_ENTRIES", ESelf),
             EBin("ADD", ESelf, ECollect(ELit(IntV(7)))),
             EUn("PICK", ECollect(EUnion(ELit(StrV(B)), ELit(StrV(A))))), EUn("OMIT", ECollect(ELit(StrV(A)))), EUn("PICK", ECollect(EUnion(ELit(IntV(1)), ELit(IntV(0))))),
             EUn("OMIT", ECollect(ELit(IntV(0)))), EBin("MULTIPLY", ESelf, EObject(ELit(StrV(C)), ELit(IntV(1)))) >>
ExprSeq ==
     FlatMap(LAMBDA n : [i \in DOMAIN Claims |-> ECollect(EPipe(n, Claims[i]))], Nodes)                                           \* (a) document nodes
  \o FlatMap(LAMBDA f : FlatMap(LAMBDA n : [i \in DOMAIN Claims |-> EPipe(EUpdate(EPath(A), f), ECollect(EPipe(n, Claims[i])))], << EPipe(EPath(A), ESplat), EPipe(EPath(A), ERecurse(FALSE)) >>), Derive)   \* after assigning the derived value back
  \* histories: a copy must keep describing its own positions when its source is edited afterwards (and vice versa)
  \o FlatMap(LAMBDA c : << EPipe(EAssign(EPath(C), EPath(A)), EPipe(EDelete(Idx(EPath(A), 0)), ECollect(EPipe(EPipe(EPath(C), ERecurse(FALSE)), c)))),
                            EPipe(EAssign(EPath(C), EPath(A)), EPipe(EDelete(Idx(EPath(C), 0)), ECollect(EPipe(EPipe(EPath(A), ERecurse(FALSE)), c)))),
                            EPipe(EDelete(Idx(EPath(A), 1)), ECollect(EPipe(EPipe(EPath(A), ESplat), c))),
                            EPipe(EAssign(Idx(EPath(A), 5), ELit(IntV(7))), ECollect(EPipe(EPipe(EPath(A), ESplat), c))) >>, Claims)
  \o FlatMap(LAMBDA f : << EPipe(EPath(A), f), f, EPipe(EPath(B), f) >>, Derive)                                                                   \* (b) derived containers (values only)
NDerived == 3 * Len(Derive)

ASSUME \A i \in DOMAIN ExprSeq : i % NShards # Shard \/ PrintT("@@" \o ToJson([t |-> "e", i |-> i, e |-> ExprSeq[i]]))
ASSUME \A i \in DOMAIN DocSeq : PrintT("@@" \o ToJson([t |-> "d", i |-> i, d |-> DocSeq[i]]))
VARIABLES di, phase
Init == di \in DOMAIN DocSeq /\ phase = 0
Vec(ei, i) == LET r == Run(ExprSeq[ei], DocSeq[i]) IN
   [t |-> "v", di |-> i, ei |-> ei, tog |-> FALSE, st |-> r.st, res |-> IF r.st = "ok" THEN Results(r) ELSE <<>>,
    same |-> r.doc = DocSeq[i], after |-> IF r.doc = DocSeq[i] THEN Null ELSE r.doc]
Next == /\ phase = 0 /\ phase' = 1 /\ di' = di
        /\ \A ei \in DOMAIN ExprSeq : ei % NShards # Shard \/ PrintT("@@" \o ToJson(Vec(ei, di)))

\* ---- the law on the reference: for every node n the evaluator can reach inside the document,
\* traversing path(n) from the root returns n, key(n) is the last element, parent(n) holds n at that key
D == DocSeq[di]
PathTruth == phase = 1 => \A ni \in DOMAIN Nodes :
   LET r == Run(Nodes[ni], D) IN r.st # "ok" \/ (\E j \in DOMAIN r.ctx : ~r.ctx[j].in) \/ \A j \in DOMAIN r.ctx :
      LET c == r.ctx[j]
          pth == Run(EPipe(Nodes[ni], ENul("GET_PATH")), D)
      IN /\ Exists(r.doc, c.p)
         /\ pth.st = "ok" /\ Len(pth.ctx) = Len(r.ctx)
         /\ LET pv == ValOf(pth.doc, pth.ctx[j]) IN
               Len(pv.e) = Len(c.p) /\ \A x \in DOMAIN c.p : IF c.p[x].t = "k" THEN pv.e[x] = StrV(c.p[x].key) ELSE pv.e[x] = IntV(c.p[x].idx)
=============================================================================
