------------------------------ MODULE JsonText ------------------------------
(***************************************************************************)
(* C06 - JSON text and YAML scalar resolution at the level of code points. *)
(*                                                                         *)
(* A text is a sequence of Unicode code points.  A JSON value (JV) is      *)
(*   [k |-> "null"] | [k |-> "bool", b] | [k |-> "str", s]                 *)
(*   [k |-> "num", neg, d, e]   the EXACT decimal (-1)^neg * d * 10^e with  *)
(*        d a digit sequence without leading/trailing zero (zero: <<>>,0)  *)
(*   [k |-> "seq", e] | [k |-> "map", m]  (m: ordered <<key text, JV>>)    *)
(* Numbers are digit sequences because the property speaks of integers     *)
(* beyond 64 bit (and TLC integers are 32 bit).                            *)
(*                                                                         *)
(*   JsonParse(w)     RFC 8259 reader: rejects raw control characters,     *)
(*                    lone surrogates, leading zeros, trailing commas,     *)
(*                    anything after the value.  [ok, v]                   *)
(*   JsonEnc(v)       reference writer (one of the admissible spellings)   *)
(*   YamlResolve(t)   the type and value of a PLAIN YAML scalar (core      *)
(*                    schema as yq resolves it): null / bool / int (dec,   *)
(*                    0x, 0o) / float / .inf / .nan / str                  *)
(* Law (checked by TLC on the enumerated space): JsonParse(JsonEnc(v)) = v *)
(* The real outputs of yq are judged by JsonParse (Trace_Json.tla): any    *)
(* admissible spelling is accepted, a different VALUE is not.              *)
(***************************************************************************)
EXTENDS Integers, Sequences, FiniteSets, TLC, SequencesExt

DQ == 34  BS == 92  SL == 47  LBK == 91  RBK == 93  LBR == 123  RBR == 125  COMMA == 44  COLON == 58  MINUS == 45  PLUS == 43  DOT == 46
WS == {32, 9, 10, 13}
IsDigit(c) == c \in 48..57
HexVal(c) == IF c \in 48..57 THEN c - 48 ELSE IF c \in 65..70 THEN c - 55 ELSE IF c \in 97..102 THEN c - 87 ELSE -1
At(w, j) == IF j >= 1 /\ j <= Len(w) THEN w[j] ELSE 0
RECURSIVE DigitRunEnd(_,_), SkipWS(_,_)
DigitRunEnd(w, i) == IF IsDigit(At(w, i)) THEN DigitRunEnd(w, i + 1) ELSE i          \* first position >= i holding no digit
SkipWS(w, i) == IF At(w, i) \in WS THEN SkipWS(w, i + 1) ELSE i
Digits(w, a, b) == [j \in 1..(b - a) |-> w[a + j - 1] - 48]                      \* digit values of w[a..b-1]

JNull == [k |-> "null"]
JBool(b) == [k |-> "bool", b |-> b]
JStr(s) == [k |-> "str", s |-> s]
JSeq(e) == [k |-> "seq", e |-> e]
JMap(m) == [k |-> "map", m |-> m]

\* ---------------------------------------------------------------- exact decimals
RECURSIVE StripLead(_)
StripLead(ds) == IF ds # <<>> /\ Head(ds) = 0 THEN StripLead(Tail(ds)) ELSE ds
RECURSIVE StripTrail(_,_)
StripTrail(ds, e) == IF ds # <<>> /\ ds[Len(ds)] = 0 THEN StripTrail(SubSeq(ds, 1, Len(ds) - 1), e + 1) ELSE <<ds, e>>
Dec(neg, ds, e) == LET b == StripTrail(StripLead(ds), e) IN
   IF b[1] = <<>> THEN [k |-> "num", neg |-> FALSE, d |-> <<>>, e |-> 0] ELSE [k |-> "num", neg |-> neg, d |-> b[1], e |-> b[2]]
SmallInt(ds) == FoldLeft(LAMBDA acc, x : acc * 10 + x, 0, ds)                    \* for exponents (at most 5 digits)
\* ds * k + a on digit sequences (k <= 16): the conversion of hex / octal spellings
MulAdd(ds, k, a) ==
  LET r == FoldRight(LAMBDA x, acc : LET t == x * k + acc.c IN [out |-> <<(t % 10)>> \o acc.out, c |-> (t \div 10)], ds, [out |-> <<>>, c |-> a])
  IN (IF r.c >= 10 THEN <<(r.c \div 10), (r.c % 10)>> ELSE IF r.c > 0 THEN <<r.c>> ELSE <<>>) \o r.out
FromBase(hs, base) == FoldLeft(LAMBDA acc, h : MulAdd(acc, base, h), <<>>, hs)

\* number scanner; yaml = TRUE admits a leading +, `.5` and `5.`
ScanNumber(w, i, yaml) ==
  LET neg == At(w, i) = MINUS
      i1 == IF At(w, i) = MINUS \/ (yaml /\ At(w, i) = PLUS) THEN i + 1 ELSE i
      i2 == DigitRunEnd(w, i1)
      ip == Digits(w, i1, i2)
      hasDot == At(w, i2) = DOT
      f1 == IF hasDot THEN i2 + 1 ELSE i2
      f2 == IF hasDot THEN DigitRunEnd(w, f1) ELSE i2
      fp == Digits(w, f1, f2)
      hasExp == At(w, f2) \in {69, 101}
      e1 == IF hasExp THEN (IF At(w, f2 + 1) \in {PLUS, MINUS} THEN f2 + 2 ELSE f2 + 1) ELSE f2
      e2 == IF hasExp THEN DigitRunEnd(w, e1) ELSE f2
      eneg == hasExp /\ At(w, f2 + 1) = MINUS
      ev == IF e2 - e1 <= 5 THEN SmallInt(Digits(w, e1, e2)) ELSE 0
      okJson == Len(ip) >= 1 /\ (Len(ip) = 1 \/ ip[1] # 0) /\ (hasDot => Len(fp) >= 1) /\ (hasExp => e2 > e1) /\ e2 - e1 <= 5
      okYaml == (Len(ip) >= 1 \/ (hasDot /\ Len(fp) >= 1)) /\ (hasExp => e2 > e1) /\ e2 - e1 <= 5
  IN [ok |-> IF yaml THEN okYaml ELSE okJson, v |-> Dec(neg, ip \o fp, (IF eneg THEN -ev ELSE ev) - Len(fp)), next |-> e2, isint |-> ~hasDot /\ ~hasExp]

\* ---------------------------------------------------------------- the JSON reader
Fail == [ok |-> FALSE, v |-> JNull, next |-> 0]
Hex4OK(w, i) == i + 3 <= Len(w) /\ \A j \in i..(i + 3) : HexVal(w[j]) >= 0
Hex4(w, i) == ((HexVal(w[i]) * 16 + HexVal(w[i + 1])) * 16 + HexVal(w[i + 2])) * 16 + HexVal(w[i + 3])
RECURSIVE ScanStr(_,_,_)
ScanStr(w, i, acc) ==          \* i: next unread position inside a string literal
  IF i > Len(w) THEN [ok |-> FALSE, s |-> acc, next |-> i]
  ELSE LET c == w[i]  bad == [ok |-> FALSE, s |-> acc, next |-> i] IN
    IF c = DQ THEN [ok |-> TRUE, s |-> acc, next |-> i + 1]
    ELSE IF c < 32 THEN bad                                                  \* control characters must be escaped
    ELSE IF c # BS THEN ScanStr(w, i + 1, Append(acc, c))
    ELSE LET x == At(w, i + 1) IN
      CASE x = DQ  -> ScanStr(w, i + 2, Append(acc, 34))
        [] x = BS  -> ScanStr(w, i + 2, Append(acc, 92))
        [] x = SL  -> ScanStr(w, i + 2, Append(acc, 47))
        [] x = 98  -> ScanStr(w, i + 2, Append(acc, 8))
        [] x = 102 -> ScanStr(w, i + 2, Append(acc, 12))
        [] x = 110 -> ScanStr(w, i + 2, Append(acc, 10))
        [] x = 114 -> ScanStr(w, i + 2, Append(acc, 13))
        [] x = 116 -> ScanStr(w, i + 2, Append(acc, 9))
        [] x = 117 -> IF ~Hex4OK(w, i + 2) THEN bad
                      ELSE LET u == Hex4(w, i + 2) IN
                        IF u \in 55296..56319
                        THEN IF At(w, i + 6) = BS /\ At(w, i + 7) = 117 /\ Hex4OK(w, i + 8) /\ Hex4(w, i + 8) \in 56320..57343
                             THEN ScanStr(w, i + 12, Append(acc, 65536 + ((u - 55296) * 1024) + (Hex4(w, i + 8) - 56320)))
                             ELSE bad                                        \* lone high surrogate
                        ELSE IF u \in 56320..57343 THEN bad                  \* lone low surrogate
                        ELSE ScanStr(w, i + 6, Append(acc, u))
        [] OTHER   -> bad
Word(w, i, word) == i + Len(word) - 1 <= Len(w) /\ SubSeq(w, i, i + Len(word) - 1) = word
TRUEW == <<116, 114, 117, 101>>  FALSEW == <<102, 97, 108, 115, 101>>  NULLW == <<110, 117, 108, 108>>
RECURSIVE PVal(_,_), PElems(_,_,_), PMembers(_,_,_)
PVal(w, i0) ==
  LET i == SkipWS(w, i0) IN
  IF i > Len(w) THEN Fail
  ELSE CASE w[i] = LBR -> LET j == SkipWS(w, i + 1) IN IF At(w, j) = RBR THEN [ok |-> TRUE, v |-> JMap(<<>>), next |-> j + 1] ELSE PMembers(w, j, <<>>)
         [] w[i] = LBK -> LET j == SkipWS(w, i + 1) IN IF At(w, j) = RBK THEN [ok |-> TRUE, v |-> JSeq(<<>>), next |-> j + 1] ELSE PElems(w, j, <<>>)
         [] w[i] = DQ  -> LET r == ScanStr(w, i + 1, <<>>) IN [ok |-> r.ok, v |-> JStr(r.s), next |-> r.next]
         [] Word(w, i, TRUEW)  -> [ok |-> TRUE, v |-> JBool(TRUE), next |-> i + 4]
         [] Word(w, i, FALSEW) -> [ok |-> TRUE, v |-> JBool(FALSE), next |-> i + 5]
         [] Word(w, i, NULLW)  -> [ok |-> TRUE, v |-> JNull, next |-> i + 4]
         [] w[i] = MINUS \/ IsDigit(w[i]) -> LET r == ScanNumber(w, i, FALSE) IN [ok |-> r.ok, v |-> r.v, next |-> r.next]
         [] OTHER -> Fail
PElems(w, i, acc) ==
  LET r == PVal(w, i) IN
  IF ~r.ok THEN Fail
  ELSE LET j == SkipWS(w, r.next) IN
       IF At(w, j) = COMMA THEN PElems(w, j + 1, Append(acc, r.v))
       ELSE IF At(w, j) = RBK THEN [ok |-> TRUE, v |-> JSeq(Append(acc, r.v)), next |-> j + 1] ELSE Fail
PMembers(w, i, acc) ==
  LET j == SkipWS(w, i) IN
  IF At(w, j) # DQ THEN Fail
  ELSE LET ks == ScanStr(w, j + 1, <<>>) IN
       IF ~ks.ok THEN Fail
       ELSE LET c == SkipWS(w, ks.next) IN
            IF At(w, c) # COLON THEN Fail
            ELSE LET r == PVal(w, c + 1) IN
                 IF ~r.ok THEN Fail
                 ELSE LET e == SkipWS(w, r.next)  acc2 == Append(acc, <<ks.s, r.v>>) IN
                      IF At(w, e) = COMMA THEN PMembers(w, e + 1, acc2)
                      ELSE IF At(w, e) = RBR THEN [ok |-> TRUE, v |-> JMap(acc2), next |-> e + 1] ELSE Fail
JsonParse(w) == LET r == PVal(w, 1) IN IF r.ok /\ SkipWS(w, r.next) > Len(w) THEN [ok |-> TRUE, v |-> r.v] ELSE [ok |-> FALSE, v |-> JNull]
\* a stream of JSON values separated by white space (what `-o=json` prints for several results)
RECURSIVE ParseStream(_,_,_)
ParseStream(w, i, acc) == LET j == SkipWS(w, i) IN
  IF j > Len(w) THEN [ok |-> TRUE, vs |-> acc]
  ELSE LET r == PVal(w, j) IN IF ~r.ok THEN [ok |-> FALSE, vs |-> acc] ELSE ParseStream(w, r.next, Append(acc, r.v))

\* ---------------------------------------------------------------- the reference writer
HexDigit(n) == IF n < 10 THEN 48 + n ELSE 87 + n
U4(c) == <<BS, 117, HexDigit(c \div 4096), HexDigit((c \div 256) % 16), HexDigit((c \div 16) % 16), HexDigit(c % 16)>>
EncChar(c) == IF c = DQ THEN <<BS, DQ>> ELSE IF c = BS THEN <<BS, BS>> ELSE IF c = 10 THEN <<BS, 110>> ELSE IF c = 9 THEN <<BS, 116>>
              ELSE IF c < 32 THEN U4(c)
              ELSE IF c >= 65536 THEN U4(55296 + ((c - 65536) \div 1024)) \o U4(56320 + ((c - 65536) % 1024))   \* as a surrogate pair (raw is admissible too)
              ELSE <<c>>
EncStr(s) == <<DQ>> \o FoldLeft(LAMBDA acc, c : acc \o EncChar(c), <<>>, s) \o <<DQ>>
RECURSIVE IntDigits(_)
IntDigits(n) == IF n < 10 THEN <<48 + n>> ELSE Append(IntDigits(n \div 10), 48 + (n % 10))
EncNum(v) == IF v.d = <<>> THEN <<48>>
             ELSE (IF v.neg THEN <<MINUS>> ELSE <<>>) \o [i \in DOMAIN v.d |-> 48 + v.d[i]]
                  \o (IF v.e = 0 THEN <<>> ELSE <<101>> \o (IF v.e < 0 THEN <<MINUS>> \o IntDigits(-v.e) ELSE IntDigits(v.e)))
RECURSIVE JsonEnc(_)
JsonEnc(v) ==
  CASE v.k = "null" -> NULLW
    [] v.k = "bool" -> IF v.b THEN TRUEW ELSE FALSEW
    [] v.k = "num"  -> EncNum(v)
    [] v.k = "str"  -> EncStr(v.s)
    [] v.k = "seq"  -> <<LBK>> \o FoldLeft(LAMBDA acc, i : acc \o (IF i > 1 THEN <<COMMA>> ELSE <<>>) \o JsonEnc(v.e[i]), <<>>, [i \in DOMAIN v.e |-> i]) \o <<RBK>>
    [] v.k = "map"  -> <<LBR>> \o FoldLeft(LAMBDA acc, i : acc \o (IF i > 1 THEN <<COMMA, 32>> ELSE <<>>) \o EncStr(v.m[i][1]) \o <<COLON>> \o JsonEnc(v.m[i][2]),
                                          <<>>, [i \in DOMAIN v.m |-> i]) \o <<RBR>>

\* ---------------------------------------------------------------- YAML plain scalars (how yq resolves them)
Txt(str) == str      \* texts are given as code point tuples
NullWords == { <<>>, <<126>>, <<110, 117, 108, 108>>, <<78, 117, 108, 108>>, <<78, 85, 76, 76>> }
TrueWords == { <<116, 114, 117, 101>>, <<84, 114, 117, 101>>, <<84, 82, 85, 69>> }
FalseWords == { <<102, 97, 108, 115, 101>>, <<70, 97, 108, 115, 101>>, <<70, 65, 76, 83, 69>> }
InfTail == { <<46, 105, 110, 102>>, <<46, 73, 110, 102>>, <<46, 73, 78, 70>> }
NanWords == { <<46, 110, 97, 110>>, <<46, 78, 97, 78>>, <<46, 78, 65, 78>> }
IsInfWord(t) == t \in InfTail \/ (Len(t) = 5 /\ t[1] \in {PLUS, MINUS} /\ Tail(t) \in InfTail)
IsHex(t) == Len(t) > 2 /\ t[1] = 48 /\ t[2] = 120 /\ \A i \in 3..Len(t) : HexVal(t[i]) >= 0
IsOct(t) == Len(t) > 2 /\ t[1] = 48 /\ t[2] = 111 /\ \A i \in 3..Len(t) : t[i] \in 48..55
YamlResolve(t) ==
  IF t \in NullWords THEN JNull
  ELSE IF t \in TrueWords THEN JBool(TRUE) ELSE IF t \in FalseWords THEN JBool(FALSE)
  ELSE IF IsInfWord(t) THEN [k |-> "inf"] ELSE IF t \in NanWords THEN [k |-> "nan"]
  ELSE IF IsHex(t) THEN Dec(FALSE, FromBase([i \in 1..(Len(t) - 2) |-> HexVal(t[i + 2])], 16), 0)
  ELSE IF IsOct(t) THEN Dec(FALSE, FromBase([i \in 1..(Len(t) - 2) |-> t[i + 2] - 48], 8), 0)
  ELSE LET r == ScanNumber(t, 1, TRUE) IN
       IF (IsDigit(t[1]) \/ t[1] \in {PLUS, MINUS, DOT}) /\ r.ok /\ r.next = Len(t) + 1 THEN r.v ELSE JStr(t)
Representable(v) == v.k \notin {"inf", "nan"}
=============================================================================
