----------------------------- MODULE Trace_Eval -----------------------------
(* Trace validation for C01 (and C08): while the real evaluator runs a composite expression, every operator handler is
   recorded through the hook (build tag verif): the sub-expression it was called for, the context it got (items, read-only
   flag, variables), the document before and after, and the context or error it returned.  Every such step must be a step
   the reference evaluator allows:  Ev(sub-expression, state given) = state returned  - the same rule that is checked on
   whole expressions by vector replay, here at every internal step of an execution, so that two handlers cannot cover
   for each other.  Line: {"ast":..,"doc":..,"ctx":[item..],"ro":bool,"tog":bool,"env":[[name,[item..]]..],
   "err":bool,"out":[value..],"after":..};  item = {"in":true,"p":[step..]} | {"in":false,"v":value,"sub":[step..]}.
   A step the reference leaves open (unspec) is accepted.  Prints BAD <line> <reason>. *)
EXTENDS Eval, Json
Events == ndJsonDeserialize("eval_events.ndjson")
CONSTANT Chunk
VARIABLES c, done
NChunks == (Len(Events) + Chunk - 1) \div Chunk
Init == c \in 1..NChunks /\ done = FALSE
Next == ~done /\ done' = TRUE /\ c' = c
StateOf(ev) == [doc |-> ev.doc, ctx |-> ev.ctx, ro |-> ev.ro, st |-> "ok", env |-> ev.env, tog |-> ev.tog]
SameVals(a, b) == Len(a) = Len(b) /\ \A i \in DOMAIN a : VEq(a[i], b[i])
Verdict(ev) ==
  LET r == Ev(ev.ast, StateOf(ev)) IN
  IF r.st = "unspec" THEN "ok"
  ELSE IF r.st = "err" THEN (IF ev.err THEN "ok" ELSE "handler-answers-where-the-reference-fails")
  ELSE IF ev.err THEN "handler-fails-where-the-reference-answers"
  ELSE IF ~SameVals(Vals(r), ev.out) THEN "handler-returns-other-values"
  ELSE IF ~VEq(r.doc, ev.after) THEN "handler-leaves-another-document"
  ELSE "ok"
Judge == \A i \in ((c - 1) * Chunk + 1)..(IF c * Chunk < Len(Events) THEN c * Chunk ELSE Len(Events)) :
            Verdict(Events[i]) = "ok" \/ PrintT(<<"BAD", i, Verdict(Events[i])>>)
=============================================================================
