---------------------------- MODULE Gen_Anchors ----------------------------
(* C13 - documents with anchors on scalars / maps / sequences, aliases in value positions, `<<` with a single alias,
   with lists of aliases, overlapping keys, before / between / after explicit keys, nested merges; each printed with
   its resolved value and every path to read. *)
EXTENDS Anchors, Json
K(s) == <<s>>
B1 == MapV(<< <<K("p"), IntV(1)>>, <<K("q"), IntV(2)>> >>)
B2plain == MapV(<< <<K("q"), IntV(3)>>, <<K("r"), IntV(4)>> >>)
B2nested == MapV(<< <<MergeKey, Alias("b1")>>, <<K("q"), IntV(3)>>, <<K("r"), IntV(4)>> >>)
B2nestedLate == MapV(<< <<K("q"), IntV(3)>>, <<MergeKey, Alias("b1")>>, <<K("r"), IntV(4)>> >>)
B2nestedList == MapV(<< <<MergeKey, SeqV(<<Alias("b1")>>)>>, <<K("q"), IntV(3)>>, <<K("r"), IntV(4)>> >>)     \* the merged-in map itself merges a LIST
Inline == MapV(<< <<K("q"), IntV(8)>>, <<K("z"), IntV(6)>> >>)                      \* `<<: {q: 8, z: 6}`: the merge-key rules allow a mapping in place
MergeVals == << Null, Alias("b1"), SeqV(<<Alias("b1"), Alias("b2")>>), SeqV(<<Alias("b2"), Alias("b1")>>), SeqV(<<Alias("b1")>>), Alias("b2"),
                Inline, SeqV(<<Alias("b1"), Inline>>), SeqV(<<Inline, Alias("b2")>>) >>   \* Null: no merge entry
\* ill-typed merges (a merge source that is no mapping): no value is defined for them, yq must answer with a result or an error (C11)
IllMergeVals == << Alias("sc"), Alias("sq"), Alias("nn"), IntV(5), SeqV(<<Alias("b1"), Alias("sc")>>), SeqV(<<IntV(5)>>), SeqV(<<>>), SeqV(<<SeqV(<<Alias("b1")>>)>>), Alias("nowhere") >>
Explicits == << <<>>, << <<K("q"), IntV(9)>> >>, << <<K("s"), IntV(7)>> >>, << <<K("q"), IntV(9)>>, <<K("s"), IntV(7)>> >>, << <<K("r"), Null>>, <<K("p"), Alias("sc")>> >> >>
Extras == << <<>>, << <<K("t"), Alias("sc")>>, <<K("u"), Alias("sq")>>, <<K("y"), Alias("nn")>> >>, << <<K("w"), SeqV(<<Alias("sc"), Alias("b1"), IntV(0)>>)>>, <<K("x"), Alias("b2")>> >> >>
\* position of the merge entry among the explicit entries: 0 = first, 1 = after the first explicit, 9 = last
Place(expl, mv, pos) ==
  IF mv = Null THEN expl
  ELSE LET me == << <<MergeKey, mv>> >>
           at == IF pos = 9 \/ pos > Len(expl) THEN Len(expl) ELSE pos
       IN SubSeq(expl, 1, at) \o me \o SubSeq(expl, at + 1, Len(expl))
Doc(b2, mv, expl, pos, extra) ==
  MapV(<< <<K("a"), Anchor("sc", IntV(5))>>, <<K("n"), Anchor("nn", Null)>>, <<K("l"), Anchor("sq", SeqV(<<IntV(1), IntV(2)>>))>>,
          <<K("b"), Anchor("b1", B1)>>, <<K("c"), Anchor("b2", b2)>>,
          <<K("m"), MapV(Place(expl, mv, pos) \o extra)>> >>)
VARIABLES b2i, mvi, done
Init == b2i \in 1..4 /\ mvi \in DOMAIN MergeVals /\ done = FALSE
B2Of(i) == CASE i = 1 -> B2plain [] i = 2 -> B2nested [] i = 3 -> B2nestedLate [] OTHER -> B2nestedList
Mine == { Doc(B2Of(b2i), MergeVals[mvi], Explicits[e], pos, Extras[x]) : e \in DOMAIN Explicits, pos \in {0, 1, 9}, x \in DOMAIN Extras }
Next == /\ ~done /\ done' = TRUE /\ UNCHANGED <<b2i, mvi>>
        /\ \A d \in Mine : PrintT("@@" \o ToJson([doc |-> d, resolved |-> Resolve(d), paths |-> Paths(Resolve(d)),
                                                   devExplode |-> ResolveDev(d, FALSE), devTraverse |-> ResolveDev(d, TRUE)]))
        /\ (b2i = 1 /\ mvi = 1) => \A i \in DOMAIN IllMergeVals : \A pos \in {0, 9} :
              PrintT("@@" \o ToJson([ill |-> TRUE, doc |-> Doc(B2plain, IllMergeVals[i], Explicits[2], pos, Extras[1])]))
\* laws on the model
ResolvedIsPlain == \A d \in Mine : WellFormed(d) /\ Plain(Resolve(d)) /\ Resolve(Resolve(d)) = Resolve(d)
ExplicitWins == \A d \in Mine : LET m == MapGet(d, K("m"))  r == MapGet(Resolve(d), K("m")) IN
   \A i \in DOMAIN m.m : m.m[i][1] = MergeKey \/ ~Plain(m.m[i][2]) \/ SameValue(MapGet(r, m.m[i][1]), Resolve(m.m[i][2]))
=============================================================================
