----------------------------- MODULE Gen_Shared -----------------------------
(* C18 - histories (every sequence of evaluation kinds up to MaxHist, executed in ONE process on shared parser, parsed
   trees, decoders and encoders) and the pairs of kinds to run concurrently; with the cell conflicts the model of the
   pinned tree (Dev) predicts. *)
EXTENDS Shared, Json, SequencesExt
CONSTANT MaxHist
KindSeq == SetToSeq(Kinds)
RECURSIVE Hists(_,_)
Hists(pre, n) == IF n = 0 THEN {pre} ELSE {pre} \cup UNION { Hists(Append(pre, KindSeq[j]), n - 1) : j \in DOMAIN KindSeq }
PairConflicts(a, b, cold) == { <<Steps(a)[i], Steps(b)[j]>> : i \in DOMAIN Steps(a), j \in DOMAIN Steps(b) } \cap
                             { x \in {"parse", "decode", "eval", "loadfile", "snippet", "encode"} \X {"parse", "decode", "eval", "loadfile", "snippet", "encode"} :
                                 Conflict(Acc(a, 1, x[1], cold), Acc(b, 2, x[2], cold)) }
VARIABLES first, done
GInit == first \in DOMAIN KindSeq /\ done = FALSE /\ k1 = "plain" /\ k2 = "plain" /\ pc1 = 1 /\ pc2 = 1 /\ parserReady = TRUE
GNext == /\ ~done /\ done' = TRUE /\ first' = first /\ UNCHANGED vars
         /\ \A h \in Hists(<<KindSeq[first]>>, MaxHist - 1) : PrintT("@@" \o ToJson([t |-> "hist", h |-> h]))
         /\ \A j \in DOMAIN KindSeq : \A cold \in BOOLEAN :
              PrintT("@@" \o ToJson([t |-> "pair", a |-> KindSeq[first], b |-> KindSeq[j], cold |-> cold, conflicts |-> SetToSeq(PairConflicts(KindSeq[first], KindSeq[j], cold))]))
AllIndependent == \A h \in Hists(<<KindSeq[first]>>, MaxHist - 1) : HistoryIndependent(h)
=============================================================================
