------------------------------- MODULE Shared -------------------------------
(***************************************************************************)
(* C18 - process-global and object-shared state: histories and schedules.  *)
(*                                                                         *)
(* Cells (everything an evaluation can leave behind for the next one, or   *)
(* touch while another one runs):                                          *)
(*   parser      the global ExpressionParser (nil until first use)         *)
(*   loadDec     the decoder object captured by the `load` lexer rule      *)
(*   snippetDec  the decoder used to guess the type of a text snippet      *)
(*   tree[k]     the parsed expression tree of kind k (sort rewrites RHS,  *)
(*               literals live in it)                                      *)
(*   dec[k]      a decoder object re-initialised per input                 *)
(* An evaluation of kind k is the step sequence Steps(k); every step       *)
(* declares the cells it reads and writes (Acc).  A cell value is the set  *)
(* of "marks" left in it; the observable result of a step is the marks it  *)
(* reads.  A well-behaved step leaves no mark another evaluation can read  *)
(* (it re-initialises what it uses: Init(reader), Copy() of literals).     *)
(*                                                                         *)
(* Properties                                                              *)
(*   HistoryIndependent : the result of every evaluation in a history      *)
(*       equals its standalone result                                      *)
(*   RaceFree : no two evaluations running concurrently on separate        *)
(*       evaluators ever have enabled steps that conflict on a cell        *)
(* Dev names the deviations of the pinned tree (known findings).           *)
(***************************************************************************)
EXTENDS Integers, Sequences, FiniteSets, TLC

CONSTANT Dev      \* subset of {"parser-init-unsynchronised", "load-decoder-shared"}

\* regexa / regexb, suba / subb, interp / interpb: ONE expression text (one parsed tree when the objects are shared) on different documents
Kinds == {"plain", "sort", "sortby", "interp", "yamlrt", "load", "multidoc", "reduce", "litupd", "commentdoc", "csv", "regexa", "regexb", "interpb", "suba", "subb",
          \* tagset / tagupd: `x tag = v` and `y tag |= v` come from ONE lexer rule - a tree parsed earlier must not change when the other form is parsed later;
          \* xmlc / xmlp: one XML encoder prints a document with a leading comment and then one without - it keeps nothing from the first
          "tagset", "tagupd", "xmlc", "xmlp",
          \* envsubst with options: lexing it must not write process-wide state
          "envsubstopt"}
Steps(k) == CASE k = "load" -> <<"parse", "decode", "eval", "loadfile", "encode">>
              [] k \in {"interp", "interpb", "regexa", "regexb", "suba", "subb"} -> <<"parse", "decode", "eval", "parse", "encode">>        \* string interpolation parses again while evaluating
              [] k = "csv" -> <<"parse", "decode", "snippet", "eval", "encode">>          \* cell values are typed by parsing snippets
              [] OTHER -> <<"parse", "decode", "eval", "encode">>

\* cells read / written by step st of an evaluation with identity id and kind k; cold: the parser does not exist yet
Acc(k, id, st, cold) ==
  CASE st = "parse"    -> [r |-> {<<"parser", 0>>}, w |-> IF cold /\ "parser-init-unsynchronised" \in Dev THEN {<<"parser", 0>>} ELSE {}]
    [] st = "loadfile" -> IF "load-decoder-shared" \in Dev THEN [r |-> {<<"loadDec", 0>>}, w |-> {<<"loadDec", 0>>}] ELSE [r |-> {}, w |-> {}]
    [] st = "snippet"  -> [r |-> {}, w |-> {}]                                   \* a fresh decoder per snippet
    [] st = "decode"   -> [r |-> {<<"dec", id>>}, w |-> {<<"dec", id>>}]         \* own decoder, re-initialised
    [] st = "eval"     -> [r |-> {<<"tree", id>>}, w |-> IF k \in {"sort"} THEN {<<"tree", id>>} ELSE {}]
    [] OTHER           -> [r |-> {}, w |-> {}]
Conflict(a, b) == (a.w \cap (b.r \cup b.w)) # {} \/ (b.w \cap (a.r \cup a.w)) # {}

\* ---------------------------------------------------------------- schedules: two evaluations on separate evaluators
VARIABLES k1, k2, pc1, pc2, parserReady
vars == <<k1, k2, pc1, pc2, parserReady>>
SInit == k1 \in Kinds /\ k2 \in Kinds /\ pc1 = 1 /\ pc2 = 1 /\ parserReady \in BOOLEAN
Enabled1 == pc1 <= Len(Steps(k1))
Enabled2 == pc2 <= Len(Steps(k2))
Step1 == Enabled1 /\ pc1' = pc1 + 1 /\ parserReady' = (parserReady \/ Steps(k1)[pc1] = "parse") /\ UNCHANGED <<k1, k2, pc2>>
Step2 == Enabled2 /\ pc2' = pc2 + 1 /\ parserReady' = (parserReady \/ Steps(k2)[pc2] = "parse") /\ UNCHANGED <<k1, k2, pc1>>
SNext == Step1 \/ Step2
RaceFree == ~(Enabled1 /\ Enabled2 /\ Conflict(Acc(k1, 1, Steps(k1)[pc1], ~parserReady), Acc(k2, 2, Steps(k2)[pc2], ~parserReady)))

\* ---------------------------------------------------------------- histories: evaluations in one process sharing parser, trees, decoders
\* marks: a step that forgets to reset / copy leaves the identity of the evaluation in the cell. In the reference no
\* step leaves a mark, so every result (the marks read) is empty = the standalone result.
Leaves(k, st) == {}                                        \* reference: Init(reader) resets decoders, literals are copied, sort writes the same RHS
HistoryResult(hist) ==                                     \* marks visible to each evaluation of the history, in order
  LET RECURSIVE go(_,_,_)
      go(i, cells, out) == IF i > Len(hist) THEN out
                           ELSE LET seen == UNION { cells[c] : c \in DOMAIN cells }
                                IN go(i + 1, [c \in DOMAIN cells |-> cells[c] \cup UNION { Leaves(hist[i], Steps(hist[i])[s]) : s \in DOMAIN Steps(hist[i]) }], Append(out, seen))
  IN go(1, [c \in {"parser", "loadDec", "snippetDec", "tree", "dec"} |-> {}], <<>>)
HistoryIndependent(hist) == \A i \in DOMAIN HistoryResult(hist) : HistoryResult(hist)[i] = {}
=============================================================================
