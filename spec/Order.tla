------------------------------- MODULE Order -------------------------------
(***************************************************************************)
(* C15 - one consistent total preorder for sort, sort_by, min, max and the *)
(* comparison operators.                                                   *)
(*   class 0 null  <  class 1 booleans (false < true)  <  class 2 other    *)
(*   scalars: numbers by numeric value whatever their spelling, strings by *)
(*   code point.  Where a number meets a string the statement fixes        *)
(*   nothing: the relative position is a PARAMETER `mix` (a rank function  *)
(*   chosen by TLC in trace validation; NumbersFirst in the reference).    *)
(***************************************************************************)
EXTENDS Values

Class(v) == CASE v.k = "null" -> 0 [] v.k = "bool" -> 1 [] OTHER -> 2

\* three-way comparison of two scalars where the statement fixes it; "free" for number vs string
CmpFixed(a, b) ==
  IF Class(a) # Class(b) THEN (IF Class(a) < Class(b) THEN -1 ELSE 1)
  ELSE CASE a.k = "null" -> 0
         [] a.k = "bool" -> IF a.b = b.b THEN 0 ELSE IF b.b THEN -1 ELSE 1
         [] a.k = "num" /\ b.k = "num" -> NumCmp(a, b)
         [] a.k = "str" /\ b.k = "str" -> StrCmp(a.s, b.s)
         [] OTHER -> 2                                                    \* number vs string: free
\* the reference instance: numbers before strings
Cmp(a, b) == LET c == CmpFixed(a, b) IN IF c # 2 THEN c ELSE IF a.k = "num" THEN -1 ELSE 1
Leq(a, b) == Cmp(a, b) <= 0

\* stable insertion sort of a sequence of items by key(_) under leq(_,_)
InsertStable(sorted, x, key(_), leq(_,_)) ==
  LET I == {i \in DOMAIN sorted : leq(key(sorted[i]), key(x))}
      idx == IF I = {} THEN 0 ELSE CHOOSE i \in I : \A j \in I : j <= i      \* after the last element not greater than x
  IN SubSeq(sorted, 1, idx) \o <<x>> \o SubSeq(sorted, idx + 1, Len(sorted))
SortBy(s, key(_), leq(_,_)) == FoldLeft(LAMBDA acc, x : InsertStable(acc, x, key, leq), <<>>, s)
Sort(s) == SortBy(s, LAMBDA x : x, Leq)

\* sort_by(.k) on a sequence of maps: the key is the value of k, an absent key sorts as null
KeyOfMap(m, k) == IF m.k = "map" /\ HasKey(m, k) THEN MapGet(m, k) ELSE Null
SortByKey(s, k) == SortBy(s, LAMBDA x : KeyOfMap(x, k), Leq)

\* min / max of a non-empty sequence: the FIRST least / greatest element (superlativeByComparison keeps the earlier on ties)
MinOf(s) == LET RECURSIVE go(_,_) go(i, best) == IF i > Len(s) THEN best ELSE go(i + 1, IF Cmp(s[i], best) < 0 THEN s[i] ELSE best) IN go(2, s[1])
MaxOf(s) == LET RECURSIVE go(_,_) go(i, best) == IF i > Len(s) THEN best ELSE go(i + 1, IF Cmp(s[i], best) > 0 THEN s[i] ELSE best) IN go(2, s[1])

\* comparison operators: defined for num/num, str/str and wherever a null takes part (yq answers there, it does not fail);
\* they agree with the order: null is smaller than everything else. (yq's documentation and pinned tests say "one side
\* null: every comparison is false" - that contradicts the order sort uses and is carried as a known finding of C15.)
\* bool and mixed: error
CompareOp(greater, oreq, a, b) ==
  IF (a.k = "num" /\ b.k = "num") \/ (a.k = "str" /\ b.k = "str") \/ a.k = "null" \/ b.k = "null"
  THEN LET c == Cmp(a, b) IN IF c = 0 THEN (IF oreq THEN "true" ELSE "false") ELSE IF (IF greater THEN c > 0 ELSE c < 0) THEN "true" ELSE "false"
  ELSE "err"

\* sort_keys: keys in code point order, values untouched
RECURSIVE SortKeysDeep(_)
SortKeysDeep(v) ==
  CASE v.k = "map" -> LET ks == SortBy(MapKeys(v), LAMBDA x : x, LAMBDA a, b : StrCmp(a, b) <= 0)
                      IN MapV([i \in DOMAIN ks |-> <<ks[i], SortKeysDeep(MapGet(v, ks[i]))>>])
    [] v.k = "seq" -> SeqV([i \in DOMAIN v.e |-> SortKeysDeep(v.e[i])])
    [] OTHER -> v

\* ---- laws
IsPermutation(s, t) == Len(s) = Len(t) /\ \E f \in [1..Len(s) -> 1..Len(s)] : (\A i, j \in 1..Len(s) : i # j => f[i] # f[j]) /\ \A i \in 1..Len(s) : t[i] = s[f[i]]
Ordered(t) == \A i \in 1..(Len(t) - 1) : Leq(t[i], t[i + 1])
=============================================================================
