---------------------------- MODULE Trace_Codecs ----------------------------
(* Trace validation for C14: every recorded run of the yq binary on a case of Gen_Codecs is judged by the readers of
   Codecs.tla (direction E: the text yq wrote must denote the case's value), by JsonParse against the value the
   specification's text denotes (direction D; D2: the second TOML spelling; D3: base64 text followed by a line break; D4, D5: TOML with dotted keys) and against the value itself (direction R:
   value | encode | decode inside an expression).  Line: {"f":..,"i":..,"dir":..,"err":bool,"out":[code points]}. *)
EXTENDS Gen_Codecs
Lines == ndJsonDeserialize("codec_runs.ndjson")
CONSTANT Chunk
VARIABLES c, done
NChunks == (Len(Lines) + Chunk - 1) \div Chunk
TInit == c \in 1..NChunks /\ done = FALSE /\ ji = 0
TNext == ~done /\ done' = TRUE /\ c' = c /\ ji' = ji
Chomp(t) == IF t # <<>> /\ t[Len(t)] = LF THEN SubSeq(t, 1, Len(t) - 1) ELSE t
Denoted(g, i, dir) == LET f == Base(g) IN
  CASE f \in {"b64", "uri"} -> JStr(B64Cases[i].s)
    [] f \in {"csv", "tsv"} -> CsvDecoded(CsvTables[i])
    [] f = "props" -> PropsAsJson(PropCases[i])
    [] f = "xml" -> XmlJ(g, XmlTrees[i])
    [] f = "lua" -> LuaValues[i]
    [] f = "toml" -> IF dir \in {"D2", "D4", "D5"} THEN TomlValues[i] ELSE TomlOrder(TomlValues[i])
Verdict(p) ==
  IF p.err THEN "error"
  ELSE IF p.dir = "E" THEN LET bf == Base(p.f) IN
    CASE p.f = "b64" -> IF B64Read(Chomp(p.out)) = [ok |-> TRUE, b |-> Bytes(B64Cases[p.i].s)] THEN "ok" ELSE "text-denotes-another-value"
      [] p.f = "uri" -> IF ~UriClean(Chomp(p.out)) THEN "ill-formed-text" ELSE IF UriRead(Chomp(p.out)) = [ok |-> TRUE, b |-> Bytes(UriCases[p.i].s)] THEN "ok" ELSE "text-denotes-another-value"
      [] bf \in {"csv", "tsv"} -> LET r == CsvRead(p.out, Sep(p.f)) IN IF ~r.ok THEN "ill-formed-text" ELSE IF r.rows = AllRows(CsvTables[p.i]) THEN "ok" ELSE "text-denotes-another-value"
      [] bf = "props" -> IF PropsRead(p.out) = PropCases[p.i] THEN "ok" ELSE "text-denotes-another-value"
      [] bf = "xml" -> LET r == XmlRead(p.out) IN IF ~r.ok THEN "ill-formed-text" ELSE IF XmlDoc(r.e) = XmlDoc(XmlTrees[p.i]) THEN "ok" ELSE "text-denotes-another-value"
      [] bf = "lua" -> LET r == LuaRead(p.out) IN IF ~r.ok THEN "ill-formed-text" ELSE IF r.v = LuaValues[p.i] THEN "ok" ELSE "text-denotes-another-value"
  ELSE LET r == JsonParse(p.out) IN
       IF ~r.ok THEN "invalid-json"
       ELSE IF p.dir = "R" THEN (IF r.v = Denoted(p.f, p.i, "D") THEN "ok" ELSE "round-trip-changes-the-value")
       ELSE IF r.v = Denoted(p.f, p.i, p.dir) THEN "ok" ELSE "decoded-another-value"
Judge == \A i \in ((c - 1) * Chunk + 1)..(IF c * Chunk < Len(Lines) THEN c * Chunk ELSE Len(Lines)) :
            Verdict(Lines[i]) = "ok" \/ PrintT(<<"BAD", i, Verdict(Lines[i])>>)
=============================================================================
