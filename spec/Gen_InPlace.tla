---------------------------- MODULE Gen_InPlace ----------------------------
(* Behaviour generation for the in-place protocol: every maximal behaviour (every fault / crash schedule
   with at most MaxFaults faults) is printed with the terminal state the specification predicts. *)
EXTENDS InPlace, Json
Emit == Terminal => PrintT("@@" \o ToJson([eval |-> eval, hist |-> hist, target |-> target.content, mode |-> target.mode,
                                            exit |-> exit, alive |-> alive, tempLeft |-> temp.exists]))
=============================================================================
