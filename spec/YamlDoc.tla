------------------------------ MODULE YamlDoc ------------------------------
(***************************************************************************)
(* C05 / C07 - the presentation model of a YAML stream.                    *)
(*                                                                         *)
(* A node carries everything `yq .` must keep:                             *)
(*   k     "scalar" | "map" | "seq" | "alias"                              *)
(*   st    scalar: "plain" | "single" | "double" | "literal" | "folded"    *)
(*         collection: "block" | "flow"                                    *)
(*   src   the source lines of a scalar (flow scalars: one line; block     *)
(*         scalars: header `|` `|-` `>` `>-` followed by the text lines)   *)
(*   val   the value the source denotes (ground truth, not parsed)         *)
(*   tag   explicit tag ("" = none)       anc   anchor name ("" = none)    *)
(*   hc    head comment (on the entry)    lc    line comment               *)
(*   es    map: <<[key |-> node, v |-> node]>>, seq: <<node>>              *)
(*   to    alias: the anchor it refers to                                  *)
(* A document: [lead (comment / blank lines before it), sep (`---`         *)
(* written), root, foot (comment after the content)]; a stream is a        *)
(* sequence of documents.                                                  *)
(*                                                                         *)
(* Emit(stream)  the text, in the layout yq itself writes (2-space indent, *)
(*               sequences indented under their key)                       *)
(* Rows(stream)  the attribute table: one row per node in document order   *)
(*               [d, p, k, st, tag, anc, val, to]                          *)
(* Comments(stream)  every comment text in the order of the text           *)
(* The identity law (C05): yq . (Emit(s)) has the table Rows(s), the       *)
(* comments Comments(s), the same number of documents, and is a fixpoint.  *)
(***************************************************************************)
EXTENDS Integers, Sequences, FiniteSets, TLC, SequencesExt

Nd(k, st, src, val, tag, anc, lc, es, to) == [k |-> k, st |-> st, src |-> src, val |-> val, tag |-> tag, anc |-> anc, hc |-> "", lc |-> lc, fc |-> "", es |-> es, to |-> to]
Sc(st, src, val) == Nd("scalar", st, src, val, "", "", "", <<>>, "")
Plain(t)  == Sc("plain", <<t>>, t)
MapN(st, es) == Nd("map", st, <<>>, "", "", "", "", es, "")
SeqN(st, es) == Nd("seq", st, <<>>, "", "", "", "", es, "")
AliasN(a) == Nd("alias", "", <<>>, "", "", "", "", <<>>, a)
E(key, v) == [key |-> Plain(key), v |-> v]
EK(keyNode, v) == [key |-> keyNode, v |-> v]
With(n, f, x) == [n EXCEPT ![f] = x]

Pre(n) == (IF n.anc # "" THEN "&" \o n.anc \o " " ELSE "") \o (IF n.tag # "" THEN n.tag \o " " ELSE "")
PreBare(n) == IF n.anc # "" /\ n.tag # "" THEN "&" \o n.anc \o " " \o n.tag ELSE IF n.anc # "" THEN "&" \o n.anc ELSE n.tag
LC(n) == IF n.lc # "" THEN " # " \o n.lc ELSE ""
IsBlockColl(n) == n.k \in {"map", "seq"} /\ n.st = "block" /\ n.es # <<>>
IsBlockScalar(n) == n.k = "scalar" /\ n.st \in {"literal", "folded"}
Join(ss, sep) == IF ss = <<>> THEN "" ELSE FoldLeft(LAMBDA acc, s : acc \o sep \o s, ss[1], Tail(ss))

\* flow rendering (no comments inside flow collections)
RECURSIVE Flow(_)
Flow(n) ==
  CASE n.k = "scalar" -> Pre(n) \o n.src[1]
    [] n.k = "alias"  -> "*" \o n.to
    [] n.k = "seq"    -> Pre(n) \o "[" \o Join([i \in DOMAIN n.es |-> Flow(n.es[i])], ", ") \o "]"
    [] n.k = "map"    -> Pre(n) \o "{" \o Join([i \in DOMAIN n.es |-> Flow(n.es[i].key) \o ": " \o Flow(n.es[i].v)], ", ") \o "}"

\* lines are [i |-> indentation, t |-> text] until the end (TLC cannot take a string apart)
L(i, t) == [i |-> i, t |-> t]
\* V(n, ind): a node as the value of `key:` / `- ` at indentation ind -> [first (same line), rest (following lines)]
RECURSIVE V(_,_), MapLines(_,_), SeqLines(_,_)
V(n, ind) ==
  IF n.k = "alias" THEN [first |-> "*" \o n.to \o LC(n), rest |-> <<>>]
  ELSE IF IsBlockScalar(n) THEN [first |-> Pre(n) \o n.src[1] \o LC(n), rest |-> [i \in 1..(Len(n.src) - 1) |-> IF n.src[i + 1] = "" THEN L(0, "") ELSE L(ind + 2, n.src[i + 1])]]
  ELSE IF n.k = "scalar" THEN [first |-> Pre(n) \o n.src[1] \o (IF Len(n.src) = 1 THEN LC(n) ELSE ""),            \* a flow scalar folded over several lines
                               rest |-> [i \in 1..(Len(n.src) - 1) |-> L(ind + 2, n.src[i + 1] \o (IF i = Len(n.src) - 1 THEN LC(n) ELSE ""))]]
  ELSE IF ~IsBlockColl(n) THEN [first |-> Flow(n) \o LC(n), rest |-> <<>>]
  ELSE IF n.k = "map" THEN [first |-> PreBare(n) \o LC(n), rest |-> MapLines(n, ind + 2)]
  ELSE [first |-> PreBare(n) \o LC(n), rest |-> SeqLines(n, ind + 2)]
HC(n, ind) == IF n.hc # "" THEN <<L(ind, "# " \o n.hc)>> ELSE <<>>
FC(n, ind) == IF n.fc # "" THEN <<L(ind, "# " \o n.fc), L(0, "")>> ELSE <<>>          \* a foot comment is followed by a blank line
MapLines(n, ind) ==
  FoldLeft(LAMBDA acc, e : LET f == V(e.v, ind) IN
             acc \o HC(e.v, ind) \o <<L(ind, Flow(e.key) \o ":" \o (IF f.first = "" THEN "" ELSE " " \o f.first))>> \o f.rest \o FC(e.v, ind), <<>>, n.es)
SeqLines(n, ind) ==
  FoldLeft(LAMBDA acc, x :
             IF IsBlockColl(x) /\ Pre(x) = "" /\ x.lc = "" /\ (IF x.k = "seq" THEN x.es[1].hc = "" ELSE x.es[1].v.hc = "")
             THEN LET inner == IF x.k = "map" THEN MapLines(x, ind + 2) ELSE SeqLines(x, ind + 2)
                  IN acc \o HC(x, ind) \o <<L(ind, "- " \o inner[1].t)>> \o Tail(inner)      \* the first inner line moves up behind the dash
             ELSE LET f == V(x, ind) IN acc \o HC(x, ind) \o <<L(ind, "-" \o (IF f.first = "" THEN "" ELSE " " \o f.first))>> \o f.rest \o FC(x, ind),
           <<>>, n.es)
RECURSIVE Spaces(_)
Spaces(n) == IF n = 0 THEN "" ELSE " " \o Spaces(n - 1)
Text(lines) == [i \in DOMAIN lines |-> Spaces(lines[i].i) \o lines[i].t]
TextWide(lines) == [i \in DOMAIN lines |-> Spaces(2 * lines[i].i) \o lines[i].t]      \* the same stream indented by 4

\* ---- documents and streams
Doc(lead, sep, root, foot) == [lead |-> lead, sep |-> sep, sc |-> "", root |-> root, foot |-> foot]
DocC(lead, sc, root, foot) == [lead |-> lead, sep |-> TRUE, sc |-> sc, root |-> root, foot |-> foot]      \* `--- # sc`
RootLines(r) == IF IsBlockColl(r) THEN (IF r.k = "map" THEN MapLines(r, 0) ELSE SeqLines(r, 0))
                ELSE LET f == V(r, 0) IN <<L(0, f.first)>> \o f.rest
\* lead lines: "" a blank line, " " a line of spaces only, "^text" a comment indented by five spaces (`     #text`), else `# text`
LeadLine(l) == IF l = "" THEN "" ELSE IF l = " " THEN "    " ELSE IF l = "^indented" THEN "     #indented" ELSE "# " \o l
LeadText(l) == IF l = "^indented" THEN "indented" ELSE l
DocLines(d) == [i \in DOMAIN d.lead |-> L(0, LeadLine(d.lead[i]))] \o (IF d.sep THEN <<L(0, "---" \o (IF d.sc # "" THEN " # " \o d.sc ELSE ""))>> ELSE <<>>) \o RootLines(d.root) \o (IF d.foot # "" THEN <<L(0, "# " \o d.foot)>> ELSE <<>>)
Emit(s) == Text(FoldLeft(LAMBDA acc, d : acc \o DocLines(d), <<>>, s))
\* presentation variants that denote the same stream: 2 = indented by 4, 3 = every document closed by `...`, 4 = CRLF line ends (harness)
EmitVar(s, var) == CASE var = 2 -> TextWide(FoldLeft(LAMBDA acc, d : acc \o DocLines(d), <<>>, s))
                     [] var = 3 -> Text(FoldLeft(LAMBDA acc, d : acc \o DocLines(d) \o <<L(0, "...")>>, <<>>, s))
                     [] OTHER -> Emit(s)

\* ---- the attribute table
Row(d, p, n) == [d |-> d, p |-> p, k |-> n.k, st |-> n.st, tag |-> n.tag, anc |-> n.anc, val |-> n.val, to |-> n.to]
RECURSIVE NodeRows(_,_,_)
NodeRows(d, p, n) ==
  <<Row(d, p, n)>> \o
  (IF n.k = "map" THEN FoldLeft(LAMBDA acc, e : acc \o <<Row(d, Append(p, "key:" \o e.key.val), e.key)>> \o NodeRows(d, Append(p, e.key.val), e.v), <<>>, n.es)
   ELSE IF n.k = "seq" THEN FoldLeft(LAMBDA acc, i : acc \o NodeRows(d, Append(p, ToString(i - 1)), n.es[i]), <<>>, [i \in DOMAIN n.es |-> i])
   ELSE <<>>)
Rows(s) == FoldLeft(LAMBDA acc, i : acc \o NodeRows(i - 1, <<>>, s[i].root), <<>>, [i \in DOMAIN s |-> i])

RECURSIVE NodeComments(_)
NodeComments(n) ==
  (IF n.hc # "" THEN <<n.hc>> ELSE <<>>) \o (IF n.lc # "" THEN <<n.lc>> ELSE <<>>) \o
  (IF n.k = "map" THEN FoldLeft(LAMBDA acc, e : acc \o NodeComments(e.v), <<>>, n.es)
   ELSE IF n.k = "seq" THEN FoldLeft(LAMBDA acc, x : acc \o NodeComments(x), <<>>, n.es) ELSE <<>>) \o
  (IF n.fc # "" THEN <<n.fc>> ELSE <<>>)
LeadComments(lead) == LET kept == SelectSeq(lead, LAMBDA l : l # "" /\ l # " ") IN [i \in DOMAIN kept |-> LeadText(kept[i])]
DocComments(d) == LeadComments(d.lead) \o (IF d.sc # "" THEN <<d.sc>> ELSE <<>>) \o NodeComments(d.root) \o (IF d.foot # "" THEN <<d.foot>> ELSE <<>>)
Comments(s) == FoldLeft(LAMBDA acc, d : acc \o DocComments(d), <<>>, s)

\* ---- well-formedness of a generated stream (laws of the generator)
RECURSIVE Anchors(_), AliasTargets(_)
Anchors(n) == (IF n.anc # "" THEN <<n.anc>> ELSE <<>>) \o
  (IF n.k = "map" THEN FoldLeft(LAMBDA acc, e : acc \o Anchors(e.key) \o Anchors(e.v), <<>>, n.es)
   ELSE IF n.k = "seq" THEN FoldLeft(LAMBDA acc, x : acc \o Anchors(x), <<>>, n.es) ELSE <<>>)
AliasTargets(n) == (IF n.k = "alias" THEN <<n.to>> ELSE <<>>) \o
  (IF n.k = "map" THEN FoldLeft(LAMBDA acc, e : acc \o AliasTargets(e.key) \o AliasTargets(e.v), <<>>, n.es)
   ELSE IF n.k = "seq" THEN FoldLeft(LAMBDA acc, x : acc \o AliasTargets(x), <<>>, n.es) ELSE <<>>)
RECURSIVE UniqueKeysIn(_)
UniqueKeysIn(n) == IF n.k = "map" THEN (\A i, j \in DOMAIN n.es : i # j => n.es[i].key.val # n.es[j].key.val) /\ \A i \in DOMAIN n.es : UniqueKeysIn(n.es[i].v)
                   ELSE IF n.k = "seq" THEN \A i \in DOMAIN n.es : UniqueKeysIn(n.es[i]) ELSE TRUE
WellFormedDoc(d) == /\ \A i \in DOMAIN AliasTargets(d.root) : \E j \in DOMAIN Anchors(d.root) : Anchors(d.root)[j] = AliasTargets(d.root)[i]
                    /\ \A i, j \in DOMAIN Anchors(d.root) : i # j => Anchors(d.root)[i] # Anchors(d.root)[j]
                    /\ UniqueKeysIn(d.root)
WellFormed(s) == /\ \A i \in DOMAIN s : WellFormedDoc(s[i])
                 /\ \A i \in DOMAIN s : i > 1 => s[i].sep            \* a second document needs its `---`
                 /\ Len(Rows(s)) >= Len(s)
=============================================================================
