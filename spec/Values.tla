------------------------------ MODULE Values ------------------------------
(***************************************************************************)
(* The data model shared by every machine of the yq specification.         *)
(*                                                                         *)
(*   Value == null | bool b | num (int?, n/d dyadic) | str s | seq e | map *)
(*                                                                         *)
(* Maps are ORDERED sequences of <<key, value>> pairs (key order is        *)
(* observable everywhere in yq).  Strings are sequences of one-character   *)
(* atoms over a small ordered alphabet.  Numbers are exact dyadic          *)
(* rationals n/d (TLC has no floats); `int` records the YAML tag           *)
(* (!!int vs !!float).  Every kind has its own payload field name because  *)
(* TLC compares records field by field.                                    *)
(***************************************************************************)
EXTENDS Integers, Sequences, FiniteSets, TLC, SequencesExt

Null      == [k |-> "null"]
BoolV(b)  == [k |-> "bool", b |-> b]
IntV(n)   == [k |-> "num", int |-> TRUE,  n |-> n, d |-> 1]
NumV(n,d) == [k |-> "num", int |-> FALSE, n |-> n, d |-> d]    \* caller normalises
StrV(s)   == [k |-> "str", s |-> s]
SeqV(e)   == [k |-> "seq", e |-> e]
MapV(m)   == [k |-> "map", m |-> m]

IsScalar(v)    == v.k \in {"null", "bool", "num", "str"}
IsContainer(v) == v.k \in {"seq", "map"}

Abs(n) == IF n < 0 THEN -n ELSE n
Min2(a, b) == IF a < b THEN a ELSE b
Max2(a, b) == IF a > b THEN a ELSE b

RECURSIVE Norm(_,_)
Norm(n, d) == IF d > 1 /\ n % 2 = 0 THEN Norm(n \div 2, d \div 2) ELSE <<n, d>>
MkNum(n, d, forceFloat) == LET nd == Norm(n, d) IN
    [k |-> "num", int |-> (~forceFloat /\ nd[2] = 1), n |-> nd[1], d |-> nd[2]]

IsPow2(n) == n \in {1, 2, 4, 8, 16, 32, 64, 128, 256, 512, 1024}

\* numeric comparison of two num values: -1, 0, 1
NumCmp(a, b) == LET x == a.n * b.d  y == b.n * a.d IN IF x < y THEN -1 ELSE IF x > y THEN 1 ELSE 0

\* ---- strings: atoms are ordered by AtomRank (code point order of the concretisation)
AtomOrder == << " ", "!", "-", "0", "1", "2", "3", "4", "5", "6", "7", "8", "9",
               "A", "B", "C", "D", "E", "F", "G", "H", "I", "J", "K", "L", "M", "N", "O", "P", "Q", "R", "S", "T", "U", "V", "W", "X", "Y", "Z", "a", "b", "c", "d", "e", "f", "g", "h", "i", "j", "k", "l", "m",
               "n", "o", "p", "q", "r", "s", "t", "u", "v", "w", "x", "y", "z", "U+E9" >>
AtomRank(c) == LET I == {i \in DOMAIN AtomOrder : AtomOrder[i] = c} IN IF I = {} THEN 99 ELSE CHOOSE i \in I : TRUE
RECURSIVE StrCmp(_,_)
StrCmp(s, t) ==
  IF s = <<>> /\ t = <<>> THEN 0
  ELSE IF s = <<>> THEN -1 ELSE IF t = <<>> THEN 1
  ELSE IF AtomRank(Head(s)) < AtomRank(Head(t)) THEN -1
  ELSE IF AtomRank(Head(s)) > AtomRank(Head(t)) THEN 1
  ELSE StrCmp(Tail(s), Tail(t))

IsPrefixOf(p, s) == Len(p) <= Len(s) /\ SubSeq(s, 1, Len(p)) = p
IsSubstring(p, s) == \E i \in 0..(Len(s) - Len(p)) : SubSeq(s, i + 1, i + Len(p)) = p

\* ---- structural equality (numbers by value and class; maps ordered)
RECURSIVE VEq(_,_)
VEq(a, b) ==
  IF a.k # b.k THEN FALSE
  ELSE CASE a.k = "null" -> TRUE
         [] a.k = "bool" -> a.b = b.b
         [] a.k = "num"  -> a.int = b.int /\ a.n * b.d = b.n * a.d
         [] a.k = "str"  -> a.s = b.s
         [] a.k = "seq"  -> Len(a.e) = Len(b.e) /\ \A i \in DOMAIN a.e : VEq(a.e[i], b.e[i])
         [] a.k = "map"  -> Len(a.m) = Len(b.m) /\ \A i \in DOMAIN a.m : a.m[i][1] = b.m[i][1] /\ VEq(a.m[i][2], b.m[i][2])

Truthy(v) == ~(v.k = "null" \/ (v.k = "bool" /\ ~v.b))

\* ---- maps
KeyIndex(m, key) == LET I == {i \in DOMAIN m.m : m.m[i][1] = key} IN IF I = {} THEN 0 ELSE CHOOSE i \in I : \A j \in I : i <= j
HasKey(m, key) == \E i \in DOMAIN m.m : m.m[i][1] = key
MapGet(m, key) == m.m[KeyIndex(m, key)][2]
MapKeys(m) == [i \in DOMAIN m.m |-> m.m[i][1]]
MapSet(m, key, v) == IF HasKey(m, key) THEN MapV([m.m EXCEPT ![KeyIndex(m, key)] = <<key, v>>]) ELSE MapV(Append(m.m, <<key, v>>))
UniqueKeys(m) == \A i, j \in DOMAIN m.m : i # j => m.m[i][1] # m.m[j][1]

\* ---- paths: element = [t |-> "k", key |-> atoms] | [t |-> "i", idx |-> Nat]
PK(key) == [t |-> "k", key |-> key]
PI(i)   == [t |-> "i", idx |-> i]

RECURSIVE Get(_,_)
Get(v, p) ==
  IF p = <<>> THEN v
  ELSE LET h == Head(p) IN
       IF h.t = "k" THEN Get(MapGet(v, h.key), Tail(p))
       ELSE Get(v.e[h.idx + 1], Tail(p))

RECURSIVE Exists(_,_)
Exists(v, p) ==
  IF p = <<>> THEN TRUE
  ELSE LET h == Head(p) IN
       IF h.t = "k" THEN v.k = "map" /\ HasKey(v, h.key) /\ Exists(MapGet(v, h.key), Tail(p))
       ELSE v.k = "seq" /\ h.idx < Len(v.e) /\ Exists(v.e[h.idx + 1], Tail(p))

\* replace the node at EXISTING path p by x
RECURSIVE Replace(_,_,_)
Replace(v, p, x) ==
  IF p = <<>> THEN x
  ELSE LET h == Head(p) IN
       IF h.t = "k"
       THEN LET i == KeyIndex(v, h.key) IN MapV([v.m EXCEPT ![i] = <<h.key, Replace(v.m[i][2], Tail(p), x)>>])
       ELSE SeqV([v.e EXCEPT ![h.idx + 1] = Replace(v.e[h.idx + 1], Tail(p), x)])

\* remove the node at EXISTING non-empty path p
RECURSIVE DelAt(_,_)
DelAt(v, p) ==
  LET h == Head(p) IN
  IF Len(p) = 1
  THEN IF h.t = "k" THEN MapV(SelectSeq(v.m, LAMBDA kv : kv[1] # h.key))
       ELSE SeqV([i \in 1..(Len(v.e) - 1) |-> IF i <= h.idx THEN v.e[i] ELSE v.e[i + 1]])
  ELSE IF h.t = "k"
       THEN LET i == KeyIndex(v, h.key) IN MapV([v.m EXCEPT ![i] = <<h.key, DelAt(v.m[i][2], Tail(p))>>])
       ELSE SeqV([v.e EXCEPT ![h.idx + 1] = DelAt(v.e[h.idx + 1], Tail(p))])

\* all paths of a value in document order (pre-order)
RECURSIVE Paths(_)
Paths(v) ==
  <<<<>>>> \o
  (CASE v.k = "map" -> FoldLeft(LAMBDA acc, kv : acc \o [i \in DOMAIN Paths(kv[2]) |-> <<PK(kv[1])>> \o Paths(kv[2])[i]], <<>>, v.m)
     [] v.k = "seq" -> FoldLeft(LAMBDA acc, i : acc \o [j \in DOMAIN Paths(v.e[i]) |-> <<PI(i - 1)>> \o Paths(v.e[i])[j]], <<>>, [i \in DOMAIN v.e |-> i])
     [] OTHER -> <<>>)

IsPathPrefix(p, q) == Len(p) <= Len(q) /\ SubSeq(q, 1, Len(p)) = p
Unrelated(p, q) == ~IsPathPrefix(p, q) /\ ~IsPathPrefix(q, p)

\* ---- sequence helpers
FlatMap(f(_), s) == FoldLeft(LAMBDA acc, x : acc \o f(x), <<>>, s)
Upto(n) == [i \in 1..n |-> i]
RevSeq(s) == [i \in 1..Len(s) |-> s[Len(s) + 1 - i]]
Size(v) == CASE v.k = "seq" -> Len(v.e) [] v.k = "map" -> Len(v.m) [] OTHER -> 0
=============================================================================
