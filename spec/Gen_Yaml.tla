------------------------------ MODULE Gen_Yaml ------------------------------
(* C05 - the stream space: a decorated value x a position template x a stream layout.
   Values: every scalar style over texts that look like other types, escapes, multi-line text; block and flow
   collections, empty collections; each bare, anchored, tagged, with a line comment, and with all three.
   Templates: first / last value of the root map, nested map, sequence item (under a key and at the root), inside flow
   collections, the root itself, anchored and aliased later; with and without a head comment.
   Layouts: bare, `---`, leading comment block (with / without blank line, with `---`), two documents (with a comment
   before the second), a foot comment.
   Every stream is printed with its text, attribute table and comment list; laws: WellFormed. *)
EXTENDS YamlDoc, Json

ScalarTable == <<
  Sc("plain", <<"abc">>, "abc"), Sc("plain", <<"hello world">>, "hello world"), Sc("plain", <<"123">>, "123"), Sc("plain", <<"1.5">>, "1.5"),
  Sc("plain", <<"true">>, "true"), Sc("plain", <<"null">>, "null"), Sc("plain", <<"~">>, "~"), Sc("plain", <<"0x1F">>, "0x1F"), Sc("plain", <<"x-y_z">>, "x-y_z"),
  Sc("single", <<"'abc'">>, "abc"), Sc("single", <<"'it''s'">>, "it's"), Sc("single", <<"'123'">>, "123"), Sc("single", <<"'true'">>, "true"),
  Sc("single", <<"' lead'">>, " lead"), Sc("single", <<"'#nc'">>, "#nc"), Sc("single", <<"'a: b'">>, "a: b"), Sc("single", <<"''">>, ""),
  Sc("double", <<"\"abc\"">>, "abc"), Sc("double", <<"\"a\\\"b\"">>, "a\"b"), Sc("double", <<"\"tab\\there\"">>, "tab\there"), Sc("double", <<"\"l1\\nl2\"">>, "l1\nl2"),
  Sc("double", <<"\"back\\\\slash\"">>, "back\\slash"), Sc("double", <<"\"null\"">>, "null"), Sc("double", <<"\"\"">>, ""), Sc("double", <<"\"1e3\"">>, "1e3"),
  Sc("literal", <<"|", "line1", "line2">>, "line1\nline2\n"), Sc("literal", <<"|-", "line1", "line2">>, "line1\nline2"), Sc("literal", <<"|", "one">>, "one\n"),
  Sc("literal", <<"|-", "a: b", "# not a comment">>, "a: b\n# not a comment"), Sc("literal", <<"|", "p1", "", "p2">>, "p1\n\np2\n"),
  Sc("folded", <<">-", "folded text">>, "folded text"), Sc("folded", <<">", "folded text">>, "folded text\n"),
  \* flow scalars folded over two lines, the empty plain scalar (a null written as nothing)
  Sc("plain", <<"word1", "word2">>, "word1 word2"), Sc("double", <<"\"fold", "ed\"">>, "fold ed"), Sc("single", <<"'a", "b'">>, "a b"), Sc("plain", <<"">>, ""),
  \* block scalars whose first line starts with blanks need the indentation indicator
  Sc("literal", <<"|2", " indented", "second">>, " indented\nsecond\n"), Sc("literal", <<"|2-", "  two", "x">>, "  two\nx"), Sc("folded", <<">2", " lead", "next">>, " lead\nnext\n"),
  \* @U1@: non-ASCII text (concretised by the harness: TLC cannot print it)
  Sc("plain", <<"@U1@">>, "@U1@"), Sc("double", <<"\"@U1@\"">>, "@U1@"), Sc("single", <<"'@U1@'">>, "@U1@"), Sc("literal", <<"|-", "@U1@", "x">>, "@U1@\nx"),
  \* @U2@: non-ASCII text of the basic multilingual plane only
  Sc("plain", <<"@U2@">>, "@U2@"), Sc("double", <<"\"@U2@\"">>, "@U2@"), Sc("single", <<"'@U2@'">>, "@U2@"), Sc("literal", <<"|-", "@U2@", "x">>, "@U2@\nx") >>
InFlowOK(n) == n.k \in {"alias"} \/ (n.k = "scalar" /\ n.st \in {"plain", "single", "double"} /\ Len(n.src) = 1 /\ n.src[1] # "") \/ (n.k \in {"map", "seq"} /\ (n.st = "flow" \/ n.es = <<>>))

Colls == << MapN("block", <<E("k1", Plain("v1")), E("k2", Plain("2"))>>), SeqN("block", <<Plain("i1"), Plain("2")>>),
            MapN("flow", <<E("k1", Plain("v1")), E("k2", Plain("2"))>>), SeqN("flow", <<Plain("i1"), Plain("2")>>),
            MapN("flow", <<E("k1", SeqN("flow", <<Plain("a")>>))>>), SeqN("flow", <<MapN("flow", <<E("x", Plain("y"))>>)>>),
            MapN("flow", <<>>), SeqN("flow", <<>>),
            MapN("block", <<E("k1", SeqN("block", <<Plain("i1")>>)), E("k2", MapN("block", <<E("d", Plain("e"))>>))>>),
            SeqN("block", <<MapN("block", <<E("m", Plain("1")), E("n", Plain("2"))>>), SeqN("block", <<Plain("x")>>)>>),
            MapN("block", <<EK(Sc("single", <<"'q k'">>, "q k"), Plain("v")), EK(Sc("double", <<"\"d:k\"">>, "d:k"), Plain("w")), EK(Plain("123"), Plain("num key"))>>),
            MapN("block", <<EK(With(Plain("akey"), "anc", "ka"), Plain("v")), EK(AliasN("ka"), Plain("w")), EK(With(Plain("tkey"), "tag", "!!str"), Plain("x"))>>) >>

Deco(n, d) == CASE d = 1 -> n
                [] d = 2 -> With(n, "anc", "anc")
                [] d = 3 -> With(n, "tag", IF n.k = "scalar" THEN "!!str" ELSE "!custom")
                [] d = 4 -> With(n, "lc", "line comment")
                [] d = 5 -> With(With(With(n, "anc", "anc"), "tag", "!custom"), "lc", "line comment")
                [] d = 6 -> With(n, "tag", "!custom")
\* a line comment behind a block scalar header or behind `key:` of a block collection, tags on block collections in sequence items: kept out of
\* sequence items (the writer moves the first line up); everything else is generated
Values == [i \in 1..(Len(ScalarTable) * 6) |-> Deco(ScalarTable[((i - 1) \div 6) + 1], ((i - 1) % 6) + 1)]
          \o [i \in 1..(Len(Colls) * 6) |-> Deco(Colls[((i - 1) \div 6) + 1], ((i - 1) % 6) + 1)]

\* ---- templates: T(t, x) places the value x
NTemplates == 14
HCd(x, h) == IF h THEN With(x, "hc", "head comment") ELSE x
IsEmptyPlain(x) == x.k = "scalar" /\ x.src = <<"">>
\* the null written as nothing is generated as the value of a map key only (`key:`), where hand-written files have it
Applicable(t, x) == IF IsEmptyPlain(x) /\ t \notin {1, 2, 3, 12} THEN FALSE ELSE
                    CASE t \in {6, 7} -> InFlowOK(x) /\ x.lc = ""
                      [] t \in {4, 5} -> ~(IsBlockColl(x) /\ (Pre(x) # "" \/ x.lc # ""))
                      [] t \in {9, 10, 11} -> x.anc = ""
                      [] t \in {12, 13} -> ~IsBlockScalar(x)
                      [] OTHER -> TRUE
T(t, x, h) ==
  CASE t = 1 -> MapN("block", <<EK(Plain("a"), HCd(x, h)), E("z", Plain("1"))>>)
    [] t = 2 -> MapN("block", <<E("a", Plain("1")), EK(Plain("b"), HCd(x, h))>>)
    [] t = 3 -> MapN("block", <<E("m", MapN("block", <<EK(Plain("in"), HCd(x, h)), E("o", Plain("2"))>>)), E("z", Plain("1"))>>)
    [] t = 4 -> MapN("block", <<E("s", SeqN("block", <<HCd(x, h), Plain("y")>>))>>)
    [] t = 5 -> SeqN("block", <<Plain("first"), HCd(x, h)>>)
    [] t = 6 -> MapN("block", <<E("f", SeqN("flow", <<x, Plain("1")>>)), E("z", Plain("1"))>>)
    [] t = 7 -> MapN("block", <<E("g", MapN("flow", <<E("k", x)>>))>>)
    [] t = 8 -> HCd(x, FALSE)
    [] t = 9 -> MapN("block", <<EK(Plain("a"), HCd(With(x, "anc", "shared"), h)), E("b", AliasN("shared")), E("c", SeqN("block", <<AliasN("shared"), Plain("1")>>))>>)
    \* comments on alias nodes
    [] t = 10 -> MapN("block", <<EK(Plain("a"), With(x, "anc", "shared")), E("b", HCd(With(AliasN("shared"), "lc", "alias line"), h)), E("z", Plain("1"))>>)
    \* foot comments (followed by a blank line) in the middle of a map / a sequence
    [] t = 12 -> MapN("block", <<EK(Plain("a"), With(HCd(x, h), "fc", "foot of a")), E("z", Plain("1"))>>)
    [] t = 13 -> MapN("block", <<E("s", SeqN("block", <<With(HCd(x, h), "fc", "foot of item"), Plain("y")>>)), E("z", Plain("1"))>>)
    [] t = 11 -> MapN("block", <<EK(Plain("a"), With(x, "anc", "shared")), E("c", SeqN("block", <<Plain("1"), HCd(With(AliasN("shared"), "lc", "alias line"), h)>>))>>)
    \* a merge key: m inherits k and j from the anchored map
    [] t = 14 -> MapN("block", <<E("base", With(MapN("block", <<EK(Plain("k"), HCd(x, h)), E("j", Plain("1"))>>), "anc", "shared")),
                                 E("m", MapN("block", <<E("<<", AliasN("shared")), E("own", Plain("1"))>>)), E("z", Plain("1"))>>)

\* ---- layouts
Other == MapN("block", <<E("other", Plain("doc"))>>)
NLayouts == 20
Layout(l, r) ==
  CASE l = 1 -> <<Doc(<<>>, FALSE, r, "")>>
    [] l = 2 -> <<Doc(<<>>, TRUE, r, "")>>
    [] l = 3 -> <<Doc(<<"lead one", "lead two">>, FALSE, r, "")>>
    [] l = 4 -> <<Doc(<<"lead one", "">>, FALSE, r, "")>>
    [] l = 5 -> <<Doc(<<"lead one">>, TRUE, r, "")>>
    [] l = 6 -> <<Doc(<<>>, FALSE, r, ""), Doc(<<>>, TRUE, Other, "")>>
    [] l = 7 -> <<Doc(<<>>, TRUE, Other, ""), Doc(<<"before second">>, TRUE, r, "")>>
    [] l = 8 -> <<Doc(<<>>, FALSE, r, "foot comment")>>
    [] l = 9 -> <<Doc(<<"lead one">>, TRUE, Other, ""), Doc(<<>>, TRUE, r, ""), Doc(<<>>, TRUE, Other, "")>>
    [] l = 10 -> <<Doc(<<"lead one", "", "lead two">>, FALSE, r, "")>>
    [] l = 11 -> <<Doc(<<"lead one", " ", "lead two", "", "lead three">>, FALSE, r, "")>>
    [] l = 12 -> <<Doc(<<"@LONG@", "after long">>, TRUE, r, "")>>                   \* @LONG@: a comment of 70000 characters (concretised by the harness)
    [] l = 13 -> <<Doc(<<"lead one">>, FALSE, r, "@LONG@")>>
    [] l = 14 -> <<Doc(<<>>, FALSE, Other, ""), Doc(<<"c one", "", "c two">>, TRUE, r, "")>>
    [] l = 15 -> <<Doc(<<"title", "^indented", "", "section">>, FALSE, r, "")>>
    [] l = 17 -> <<Doc(<<>>, TRUE, Plain(""), ""), Doc(<<>>, TRUE, r, "")>>                 \* an empty document first
    [] l = 18 -> <<Doc(<<>>, FALSE, r, ""), Doc(<<>>, TRUE, Plain(""), "")>>                \* ... and last
    [] l = 19 -> <<DocC(<<>>, "doc comment", r, "")>>                                        \* `--- # doc comment`
    [] l = 20 -> <<Doc(<<>>, FALSE, Other, ""), DocC(<<"before">>, "second doc", r, "foot comment")>>
    [] l = 16 -> <<Doc(<<"lead one", "", "lead two">>, TRUE, r, "foot comment")>>
\* a scalar / flow root cannot carry a foot comment line that the reader would attach elsewhere: kept (the comment list decides)

CONSTANT Lanes
VARIABLE vi
Init == vi \in (1 - Lanes)..0
VarsOf(l) == IF l \in {1, 3, 6} THEN 1..4 ELSE {1}
StreamsOf(v) == { [t |-> t, h |-> h, l |-> l, var |-> var, s |-> Layout(l, T(t, Values[v], h))] :
                    t \in {t \in 1..NTemplates : Applicable(t, Values[v])}, h \in BOOLEAN, l \in 1..NLayouts, var \in 1..4 }
Next == /\ vi + Lanes <= Len(Values) /\ vi' = vi + Lanes
        /\ \A c \in StreamsOf(vi') : (c.h /\ c.t \in {6, 7, 8}) \/ c.var \notin VarsOf(c.l) \/
              PrintT("@@" \o ToJson([v |-> vi', t |-> c.t, h |-> c.h, l |-> c.l, var |-> c.var, text |-> EmitVar(c.s, c.var), rows |-> Rows(c.s), comments |-> Comments(c.s), ndocs |-> Len(c.s)]))
GeneratorLaw == vi >= 1 => \A c \in StreamsOf(vi) : WellFormed(c.s) /\ Len(Emit(c.s)) >= Len(c.s)
=============================================================================
