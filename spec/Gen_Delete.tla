----------------------------- MODULE Gen_Delete -----------------------------
(* C03 - delete removes exactly the selected nodes: single paths, splats with predicates, recursive descent with a
   predicate, several indices of one sequence in any order (and twice), selections on derived containers
   `f | del(s)` (reverse, slice, map, +, sort, filter, unique, flatten), and the union law del(s1, s2) = del(s2, s1). *)
EXTENDS Eval, Json, Docs
CONSTANTS NShards, Shard,
          Big      \* TRUE: the systematic document space of Docs.tla is added (thorough tier)
A == <<"a">>  B == <<"b">>  C == <<"c">>
BaseDocs == <<
  MapV(<< <<A, SeqV(<<IntV(1), IntV(2), IntV(0), IntV(2)>>)>>, <<B, MapV(<< <<A, IntV(2)>>, <<B, SeqV(<<IntV(0), IntV(2)>>)>> >>)>>, <<C, IntV(2)>> >>),
  MapV(<< <<A, SeqV(<<StrV(B), StrV(A), StrV(C)>>)>>, <<B, StrV(A)>> >>),
  MapV(<< <<A, SeqV(<<MapV(<< <<A, IntV(2)>> >>), MapV(<< <<A, IntV(1)>>, <<B, IntV(2)>> >>), MapV(<< <<A, IntV(2)>>, <<C, Null>> >>)>>)>> >>),
  SeqV(<<IntV(2), SeqV(<<IntV(2), IntV(0)>>), MapV(<< <<A, IntV(2)>> >>), IntV(1)>>),
  MapV(<< <<A, SeqV(<<SeqV(<<IntV(1), IntV(2)>>), SeqV(<<>>), IntV(0)>>)>>, <<B, MapV(<<>>)>> >>),
  MapV(<< <<A, SeqV(<<>>)>> >>), MapV(<<>>)
>>
DocSeq == IF Big THEN BaseDocs \o MoreDocs ELSE BaseDocs
Idx(l, i) == ETravArr(l, ECollect(ELit(IntV(i))))
Idx2(l, i, j) == ETravArr(l, ECollect(EUnion(ELit(IntV(i)), ELit(IntV(j)))))
IsTwo == EUn("SELECT", EBin("EQUALS", ESelf, ELit(IntV(2))))
Sels == << EPath(A), EPath(C), EPipe(EPath(B), EPath(A)), EPipe(EPath(B), Idx(EPath(B), 1)), Idx(EPath(A), 0), Idx(EPath(A), -1), Idx(EPath(A), 1), EIndex(0), EIndex(-1),
           EPipe(EPath(A), ESplat), EPipe(EPipe(EPath(A), ESplat), IsTwo), EPipe(ERecurse(FALSE), IsTwo), EPipe(ESplat, IsTwo),
           EPipe(EPipe(EPath(A), ESplat), EUn("SELECT", EBin("EQUALS", EPath(A), ELit(IntV(2))))),
           Idx2(EPath(A), 0, 2), Idx2(EPath(A), 2, 0), Idx2(EPath(A), 1, 1), Idx2(EPath(A), 0, -1), Idx2(EPath(A), 3, 1),
           EPipe(Idx(EPath(A), 0), EPath(A)), EPipe(EPipe(EPath(A), ESplat), EPath(A)), EPipe(EPipe(EPath(A), ESplat), EIndex(0)) >>
Small == << EPath(A), EPath(C), Idx(EPath(A), 0), Idx(EPath(A), 2), Idx(EPath(A), -1), EPipe(EPath(B), EPath(A)), EPipe(EPipe(EPath(A), ESplat), IsTwo), EIndex(0), EIndex(2) >>
Derive == << ENul("REVERSE"), ESlice(ELit(IntV(1)), ENul("LENGTH")), ESlice(ELit(IntV(0)), ELit(IntV(2))), EUn("MAP", ESelf), EBin("ADD", ESelf, ESelf), ENul("SORT"),
             ECollect(EPipe(ESplat, EUn("SELECT", ECmp(TRUE, FALSE, ESelf, ELit(IntV(1)))))), ENul("UNIQUE"), EFlatten(-1), EUn("FILTER", EBin("NOT_EQUALS", ESelf, ELit(IntV(0)))),
             EUn("SORT_BY", EPath(A)), ECollect(ESplat),
             ENul("KEYS"), EBin("SUBTRACT", ESelf, ECollect(ELit(IntV(2)))), EBin("SUBTRACT", ESelf, ECollect(EEmpty)), ENul("TO_ENTRIES"), EUn("GROUP_BY", ESelf), EUn("UNIQUE_BY", ESelf),
             EBin("ADD", ESelf, ECollect(ELit(IntV(7)))), EUn("PICK", ECollect(EUnion(ELit(IntV(2)), EUnion(ELit(IntV(0)), ELit(IntV(1)))))), EUn("OMIT", ECollect(ELit(IntV(5)))) >>
\* selections that yield KEY nodes (`key`, `...`): deleting a key deletes its entry
IsStr(x) == EUn("SELECT", EBin("EQUALS", ESelf, ELit(StrV(x))))
KeySels == << EPipe(EPath(A), ENul("GET_KEY")), EPipe(EPipe(EPath(B), EPath(A)), ENul("GET_KEY")), EPipe(ERecurse(TRUE), IsStr(A)), EPipe(ERecurse(TRUE), IsStr(B)),
              EPipe(EPipe(EPath(B), ESplat), ENul("GET_KEY")), EPipe(ESplat, EPipe(ENul("GET_KEY"), IsStr(B))), EPipe(EPipe(EPath(A), ESplat), EPipe(ESplat, ENul("GET_KEY"))),
              EUnion(EPipe(EPath(A), ENul("GET_KEY")), EPath(B)), EUnion(EPipe(EPath(B), EPath(A)), EPipe(EPath(B), ENul("GET_KEY"))) >>
DSels == << EIndex(0), EIndex(1), EIndex(-1), ETravArr(ESelf, ECollect(EUnion(ELit(IntV(0)), ELit(IntV(2))))), EPipe(ESplat, IsTwo), ETravArr(ESelf, ECollect(EUnion(ELit(IntV(1)), ELit(IntV(0))))) >>
ExprSeq ==
     [i \in DOMAIN Sels |-> EDelete(Sels[i])]
  \* selections that hit nodes of the context themselves (top-level nodes): ALL of them leave the results, and the rest of the selection is deleted too
  \o << EDelete(ESelf), EDelete(EUnion(EPath(A), ESelf)), EDelete(EUnion(ESelf, EPath(A))), EPipe(ESplat, EDelete(IsTwo)), EPipe(ESplat, EDelete(EUnion(IsTwo, EIndex(0)))),
        EPipe(EPipe(EPath(A), ESplat), EDelete(EUn("SELECT", ECmp(TRUE, FALSE, ESelf, ELit(IntV(0)))))), EPipe(EUnion(ELit(IntV(1)), EUnion(ELit(IntV(2)), ELit(IntV(0)))), EDelete(EUn("SELECT", ECmp(TRUE, FALSE, ESelf, ELit(IntV(0)))))),
        EPipe(EPipe(EPath(A), ESplat), EDelete(ERecurse(FALSE))), ECollect(EPipe(EPipe(EPath(A), ESplat), EDelete(EUn("SELECT", EBin("EQUALS", ESelf, ELit(IntV(2))))))) >>
  \o [i \in DOMAIN KeySels |-> EDelete(KeySels[i])]
  \o [i \in DOMAIN KeySels |-> ECollect(EPipe(KeySels[i], ENul("IS_KEY")))]
  \o FlatMap(LAMBDA x : [j \in DOMAIN Small |-> EDelete(EUnion(x, Small[j]))], Small)                                   \* del(s1, s2) in both orders
  \o FlatMap(LAMBDA f : [j \in DOMAIN DSels |-> EPipe(EPipe(EPath(A), f), EDelete(DSels[j]))], Derive)                    \* f | del(s)
  \o FlatMap(LAMBDA f : [j \in DOMAIN DSels |-> EPipe(f, EDelete(DSels[j]))], Derive)
  \o << EPipe(EDelete(Idx(EPath(A), 0)), EDelete(Idx(EPath(A), 0))), EPipe(EDelete(EPipe(EPath(A), ESplat)), EPath(A)),
        EPipe(EAssign(EPath(C), EPath(A)), EPipe(EDelete(Idx(EPath(A), 0)), EDelete(Idx(EPath(C), 2)))),
        EPipe(EAssign(EPath(C), EPath(A)), EPipe(EDelete(Idx(EPath(C), 0)), EDelete(Idx(EPath(A), 1)))) >>

ASSUME \A i \in DOMAIN ExprSeq : i % NShards # Shard \/ PrintT("@@" \o ToJson([t |-> "e", i |-> i, e |-> ExprSeq[i]]))
ASSUME \A i \in DOMAIN DocSeq : PrintT("@@" \o ToJson([t |-> "d", i |-> i, d |-> DocSeq[i]]))
VARIABLES di, phase
Init == di \in DOMAIN DocSeq /\ phase = 0
Vec(ei, i) == LET r == Run(ExprSeq[ei], DocSeq[i]) IN
   [t |-> "v", di |-> i, ei |-> ei, tog |-> FALSE, st |-> r.st, res |-> IF r.st = "ok" THEN Results(r) ELSE <<>>,
    same |-> r.doc = DocSeq[i], after |-> IF r.doc = DocSeq[i] THEN Null ELSE r.doc]
Next == /\ phase = 0 /\ phase' = 1 /\ di' = di
        /\ \A ei \in DOMAIN ExprSeq : ei % NShards # Shard \/ PrintT("@@" \o ToJson(Vec(ei, di)))

\* ---- laws on the reference
D == DocSeq[di]
\* del(s1, s2) deletes the union of what s1 and s2 select in the ORIGINAL document, in either order
UnionLaw == phase = 1 => \A x \in DOMAIN Small : \A y \in DOMAIN Small :
   LET r1 == Run(EDelete(EUnion(Small[x], Small[y])), D)  r2 == Run(EDelete(EUnion(Small[y], Small[x])), D) IN
   r1.st # "ok" \/ r2.st # "ok" \/ r1.doc = r2.doc
\* precisely the selection disappears: every position outside the selection (and not below it) survives with its value,
\* and the survivors of every container keep their relative order
ExactLaw == phase = 1 => \A si \in DOMAIN Sels :
   LET sel == Ev(Sels[si], RO(St(D, <<InDoc(<<>>)>>, TRUE)))
       r == Run(EDelete(Sels[si]), D) IN
   sel.st # "ok" \/ r.st # "ok" \/
   LET P == {sel.ctx[i].p : i \in DOMAIN sel.ctx}
       keep == SelectSeq(Paths(D), LAMBDA q : \A p \in P : ~IsPathPrefix(p, q))
       leaves(v) == SelectSeq(Paths(v), LAMBDA q : IsScalar(Get(v, q)) \/ Size(Get(v, q)) = 0)
       keptLeafVals == [i \in DOMAIN SelectSeq(keep, LAMBDA q : IsScalar(Get(D, q)) \/ \A c \in DOMAIN Paths(Get(D, q)) : Paths(Get(D, q))[c] = <<>> \/ \E p \in P : IsPathPrefix(p, q \o Paths(Get(D, q))[c])) |-> 0]
   IN \* the sequence of surviving scalar leaves (document order) is the original one with the deleted ones removed
      [i \in DOMAIN SelectSeq(leaves(r.doc), LAMBDA q : IsScalar(Get(r.doc, q))) |-> Get(r.doc, SelectSeq(leaves(r.doc), LAMBDA q : IsScalar(Get(r.doc, q)))[i])]
      = [i \in DOMAIN SelectSeq(keep, LAMBDA q : IsScalar(Get(D, q))) |-> Get(D, SelectSeq(keep, LAMBDA q : IsScalar(Get(D, q)))[i])]
=============================================================================
