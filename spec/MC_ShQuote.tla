----------------------------- MODULE MC_ShQuote -----------------------------
(* C17 on the model: for every string up to MaxLen over one representative per character class (and the empty string)
   the quoting automata produce a word / an assignment that the shell reader maps back to exactly that string. *)
EXTENDS ShQuote
CONSTANT MaxLen
\* a(97) safe letter, 0(48) digit, -(45) safe punctuation, '(39), space, $, \, newline, *, ;, <, ", `, #, ~, é(233), tab, DEL(127), =(61)
Reps == <<97, 48, 45, 39, 32, 36, 92, 10, 42, 59, 60, 34, 96, 35, 126, 233, 9, 127, 61>>
RECURSIVE Strs(_,_)
Strs(pre, n) == IF n = 0 THEN {pre} ELSE {pre} \cup UNION { Strs(Append(pre, Reps[j]), n - 1) : j \in DOMAIN Reps }
VARIABLES first, done
Init == first \in 0..Len(Reps) /\ done = FALSE
Next == ~done /\ done' = TRUE /\ first' = first
Mine == IF first = 0 THEN {<<>>} ELSE Strs(<<Reps[first]>>, MaxLen - 1)
\* the laws are evaluated on the successor states only (TLC evaluates the invariants of initial states in one thread)
WordLaw == done => \A s \in Mine : Safe(s, Encode(s))
AssignLaw == done => \A s \in Mine : SafeAssignment(<<118>>, s, <<118, 61>> \o QuoteValue(s))
NameLaw == done => \A s \in Mine : ValidName(VarName(s, TRUE)) /\ ValidName(<<97, 95>> \o VarName(s, FALSE))
=============================================================================
