------------------------------- MODULE Stream -------------------------------
(***************************************************************************)
(* C10 - the decode -> evaluate -> print loop of the sequence evaluator    *)
(* and the printer's separator logic, as a state machine.                  *)
(*                                                                         *)
(* Input: files = sequence of files; a file = sequence of documents;       *)
(*   doc = [kind \in {"map","scalar","comment"}, lead \in {"none","sep",   *)
(*          "sepc","c"}]     ("comment": a file holding only comments)     *)
(* State: fi, di (position), p = [first, prevDoc, prevFile] (printer),     *)
(*        total (documents processed), out (tokens: SEP | Res(f,d,k))     *)
(* Actions: NextDoc (decode one document, stamp it with document index,    *)
(*   file index and file name, evaluate, print its results), NextFile,     *)
(*   Fallback (no document at all: evaluate once on an empty node), Finish *)
(*                                                                         *)
(* Reference (RefOut): results of each document in order, a separator      *)
(* exactly between results of DIFFERENT documents.                         *)
(* Deviation of the pinned tree (known finding, repaired by a fix: commit  *)
(* when found): "prev-file" - the printer never updated previousFileIndex. *)
(***************************************************************************)
EXTENDS Integers, Sequences, FiniteSets, TLC, SequencesExt

CONSTANT Dev

Kinds == {"map", "scalar", "comment"}
Classes == {"id", "one", "two", "sel", "fi", "di", "fn", "srt", "var", "obj", "objfi", "objfn", "coldi"}
\* obj* : `{"v": .v}` (a map BUILT by the expression must still know the document and file it came from);  coldi : `[.v] | document_index`

\* number of results of an expression class on one document (f, d are 0-based indices)
Selected(f, d) == (f + d) % 2 = 1
NRes(x, kind, f, d) ==
  CASE x \in {"id", "fi", "di", "fn", "coldi"} -> 1
    [] x \in {"obj", "objfi", "objfn"} -> IF kind = "scalar" THEN 0 ELSE 1
    [] x = "one" -> IF kind = "scalar" THEN 0 ELSE 1
    [] x = "var" -> IF kind = "map" THEN 1 ELSE 0
    [] x = "two" -> IF kind = "scalar" THEN 0 ELSE 2
    [] x = "sel" -> IF kind = "map" /\ Selected(f, d) THEN 1 ELSE 0
    [] x = "srt" -> IF kind = "map" THEN 1 ELSE 0

\* output tokens
SEP == [sep |-> TRUE, f |-> 0, d |-> 0, k |-> 0, c |-> FALSE]
\* c: the result is printed with the leading comment of ITS document (the identity on a map document that has one) -
\* a comment belongs to one document and is printed there and nowhere else
Res(f, d, k, c) == [sep |-> FALSE, f |-> f, d |-> d, k |-> k, c |-> c]
WithLead(x, doc, k) == x = "id" /\ k = 1 /\ doc.kind = "map" /\ doc.lead \in {"sepc", "c"}

\* ---- the printer (printer.go: PrintResults), one call per evaluated document
PrintDoc(p, out, f, d, n, noSep, lead) ==
  LET RECURSIVE go(_,_,_)
      go(pp, o, k) ==
        IF k > n THEN [p |-> pp, out |-> o]
        ELSE LET p1 == IF pp.first THEN [first |-> FALSE, prevDoc |-> d, prevFile |-> f] ELSE pp
                 needSep == (p1.prevDoc # d \/ p1.prevFile # f)
                 o1 == IF needSep /\ ~noSep THEN Append(o, SEP) ELSE o
                 p2 == [p1 EXCEPT !.prevDoc = d, !.prevFile = IF "prev-file" \in Dev THEN @ ELSE f]
             IN go(p2, Append(o1, Res(f, d, k, lead /\ k = 1)), k + 1)
  IN go(p, out, 1)

\* ---- the machine
VARIABLES files, x, noSep, fi, di, p, total, out, phase
vars == <<files, x, noSep, fi, di, p, total, out, phase>>

Start(F, X, N) == /\ files = F /\ x = X /\ noSep = N /\ fi = 1 /\ di = 1
                  /\ p = [first |-> TRUE, prevDoc |-> 0, prevFile |-> 0] /\ total = 0 /\ out = <<>> /\ phase = "run"
NextDoc == /\ phase = "run" /\ fi <= Len(files) /\ di <= Len(files[fi])
           /\ LET doc == files[fi][di]
                  r == PrintDoc(p, out, fi - 1, di - 1, NRes(x, doc.kind, fi - 1, di - 1), noSep, WithLead(x, doc, 1))
              IN p' = r.p /\ out' = r.out
           /\ di' = di + 1 /\ total' = total + 1 /\ UNCHANGED <<files, x, noSep, fi, phase>>
NextFile == /\ phase = "run" /\ fi <= Len(files) /\ di > Len(files[fi])
            /\ fi' = fi + 1 /\ di' = 1 /\ UNCHANGED <<files, x, noSep, p, total, out, phase>>
\* no document in any file: the expression is evaluated once on an empty node (results of "document" (0,0))
Fallback == /\ phase = "run" /\ fi > Len(files) /\ total = 0
            /\ LET n == CASE x = "two" -> 2 [] x \in {"sel", "srt", "var"} -> 0 [] OTHER -> 1
                   r == PrintDoc(p, out, 0, 0, n, noSep, FALSE)
               IN p' = r.p /\ out' = r.out
            /\ phase' = "done" /\ UNCHANGED <<files, x, noSep, fi, di, total>>
Finish == /\ phase = "run" /\ fi > Len(files) /\ total > 0 /\ phase' = "done" /\ UNCHANGED <<files, x, noSep, fi, di, p, total, out>>
Next == NextDoc \/ NextFile \/ Fallback \/ Finish

\* ---- the reference: per-document results, separator exactly between results of different documents
AllResults(F, X) ==
  FoldLeft(LAMBDA acc, f : acc \o FoldLeft(LAMBDA a, d : a \o [k \in 1..NRes(X, F[f][d].kind, f - 1, d - 1) |-> Res(f - 1, d - 1, k, WithLead(X, F[f][d], k))], <<>>, [d \in 1..Len(F[f]) |-> d]),
           <<>>, [f \in 1..Len(F) |-> f])
NDocs(F) == FoldLeft(LAMBDA acc, f : acc + Len(F[f]), 0, [f \in 1..Len(F) |-> f])
RefOut(F, X, N) ==
  LET all == IF NDocs(F) = 0
             THEN [k \in 1..(CASE X = "two" -> 2 [] X \in {"sel", "srt", "var"} -> 0 [] OTHER -> 1) |-> Res(0, 0, k, FALSE)]
             ELSE AllResults(F, X)
  IN FoldLeft(LAMBDA acc, i : IF i > 1 /\ ~N /\ (all[i].f # all[i - 1].f \/ all[i].d # all[i - 1].d) THEN acc \o <<SEP, all[i]>> ELSE Append(acc, all[i]),
              <<>>, [i \in 1..Len(all) |-> i])

\* the machine refines the reference (checked with Dev = {})
Refines == phase = "done" => out = RefOut(files, x, noSep)
\* identity: N documents in, N documents out
IdentityCount == phase = "done" /\ x = "id" /\ ~noSep /\ NDocs(files) > 0 =>
                   Cardinality({i \in DOMAIN out : out[i].sep}) = NDocs(files) - 1
=============================================================================
