------------------------------- MODULE Codecs -------------------------------
(***************************************************************************)
(* C14 - the text formats at the level of code points / bytes: for every   *)
(* format a READER (what a well-formed text denotes; rejects ill-formed    *)
(* text) and a reference WRITER, with the law Read(Write(v)) = v.          *)
(* The real encodings of yq are judged by the readers, the real decodings  *)
(* of yq are fed the writers' texts (Trace_Codecs.tla).                    *)
(*                                                                         *)
(*   base64   B64Write / B64Read over byte strings (RFC 4648, padded)      *)
(*   uri      UriWrite / UriRead  (query escaping: space <-> +, %XX)       *)
(*   csv/tsv  CsvWrite / CsvRead  (RFC 4180: quoted fields, "" escapes,    *)
(*            separators and line breaks inside quoted fields)             *)
(*   props    PropsWrite / PropsRead (.properties: key = value lines,      *)
(*            escapes \t \n \r \f \\ \uXXXX, escaped separators in keys,   *)
(*            leading blanks of a value are not part of it)                *)
(*   xml      XmlRead: elements, attributes, character data with the five  *)
(*            named entities and numeric references, CDATA, empty tags     *)
(*   lua      LuaRead: table constructors with ["k"] = v / name = v /      *)
(*            positional fields, strings with \" \\ \n \t \ddd escapes     *)
(***************************************************************************)
EXTENDS JsonText

HexV(c) == IF c \in 48..57 THEN c - 48 ELSE IF c \in 65..70 THEN c - 55 ELSE IF c \in 97..102 THEN c - 87 ELSE -1
HexUp(n) == IF n < 10 THEN 48 + n ELSE 55 + n

\* ---------------------------------------------------------------- base64 (bytes)
B64Alpha == [i \in 0..63 |-> IF i < 26 THEN 65 + i ELSE IF i < 52 THEN 97 + (i - 26) ELSE IF i < 62 THEN 48 + (i - 52) ELSE IF i = 62 THEN 43 ELSE 47]
B64Val(c) == IF c \in 65..90 THEN c - 65 ELSE IF c \in 97..122 THEN c - 71 ELSE IF c \in 48..57 THEN c + 4 ELSE IF c = 43 THEN 62 ELSE IF c = 47 THEN 63 ELSE -1
RECURSIVE B64Write(_)
B64Write(b) ==
  IF b = <<>> THEN <<>>
  ELSE IF Len(b) = 1 THEN <<B64Alpha[b[1] \div 4], B64Alpha[(b[1] % 4) * 16], 61, 61>>
  ELSE IF Len(b) = 2 THEN <<B64Alpha[b[1] \div 4], B64Alpha[((b[1] % 4) * 16) + (b[2] \div 16)], B64Alpha[(b[2] % 16) * 4], 61>>
  ELSE <<B64Alpha[b[1] \div 4], B64Alpha[((b[1] % 4) * 16) + (b[2] \div 16)], B64Alpha[((b[2] % 16) * 4) + (b[3] \div 64)], B64Alpha[b[3] % 64]>> \o B64Write(SubSeq(b, 4, Len(b)))
RECURSIVE B64Groups(_)
B64Groups(t) ==            \* t: a multiple of 4 characters; returns [ok, b]
  IF t = <<>> THEN [ok |-> TRUE, b |-> <<>>]
  ELSE LET a == B64Val(t[1])  b2 == B64Val(t[2])  c == B64Val(t[3])  d == B64Val(t[4])  last == Len(t) = 4 IN
    IF a < 0 \/ b2 < 0 THEN [ok |-> FALSE, b |-> <<>>]
    ELSE IF t[3] = 61 /\ t[4] = 61 /\ last THEN [ok |-> (b2 % 16) = 0, b |-> <<(a * 4) + (b2 \div 16)>>]
    ELSE IF t[4] = 61 /\ last /\ c >= 0 THEN [ok |-> (c % 4) = 0, b |-> <<(a * 4) + (b2 \div 16), ((b2 % 16) * 16) + (c \div 4)>>]
    ELSE IF c < 0 \/ d < 0 THEN [ok |-> FALSE, b |-> <<>>]
    ELSE LET r == B64Groups(SubSeq(t, 5, Len(t))) IN
         [ok |-> r.ok, b |-> <<(a * 4) + (b2 \div 16), ((b2 % 16) * 16) + (c \div 4), ((c % 4) * 64) + d>> \o r.b]
B64Read(t) == IF Len(t) % 4 # 0 THEN [ok |-> FALSE, b |-> <<>>] ELSE B64Groups(t)

\* ---------------------------------------------------------------- uri (bytes)
Unreserved(c) == c \in (48..57) \cup (65..90) \cup (97..122) \cup {45, 95, 46, 126}
UriWrite(b) == FoldLeft(LAMBDA acc, c : acc \o (IF Unreserved(c) THEN <<c>> ELSE IF c = 32 THEN <<43>> ELSE <<37, HexUp(c \div 16), HexUp(c % 16)>>), <<>>, b)
RECURSIVE UriRead(_)
UriRead(t) == IF t = <<>> THEN [ok |-> TRUE, b |-> <<>>]
              ELSE IF t[1] = 37 THEN IF Len(t) >= 3 /\ HexV(t[2]) >= 0 /\ HexV(t[3]) >= 0
                                     THEN LET r == UriRead(SubSeq(t, 4, Len(t))) IN [ok |-> r.ok, b |-> <<(HexV(t[2]) * 16) + HexV(t[3])>> \o r.b]
                                     ELSE [ok |-> FALSE, b |-> <<>>]
              ELSE LET r == UriRead(Tail(t)) IN [ok |-> r.ok, b |-> <<IF t[1] = 43 THEN 32 ELSE t[1]>> \o r.b]
\* a well-formed query-escaped text holds only unreserved characters, + and %XX
UriClean(t) == \A i \in DOMAIN t : Unreserved(t[i]) \/ t[i] \in {37, 43}

\* ---------------------------------------------------------------- csv / tsv (code points)
LF == 10  CR == 13
NeedsQuote(f, sep) == (\E i \in DOMAIN f : f[i] \in {sep, DQ, LF, CR}) \/ (f # <<>> /\ f[1] \in {32, 9})
CsvField(f, sep) == IF NeedsQuote(f, sep) THEN <<DQ>> \o FoldLeft(LAMBDA acc, c : IF c = DQ THEN acc \o <<DQ, DQ>> ELSE Append(acc, c), <<>>, f) \o <<DQ>> ELSE f
CsvRow(r, sep) == IF r = << <<>> >> THEN <<DQ, DQ, LF>> ELSE FoldLeft(LAMBDA acc, i : acc \o (IF i > 1 THEN <<sep>> ELSE <<>>) \o CsvField(r[i], sep), <<>>, [i \in DOMAIN r |-> i]) \o <<LF>>
CsvWrite(rows, sep) == FoldLeft(LAMBDA acc, r : acc \o CsvRow(r, sep), <<>>, rows)
\* reader: m = "s" start of field, "u" unquoted, "q" quoted, "e" quote seen inside quoted
CsvRead(t, sep) ==
  LET endField(a) == [a EXCEPT !.row = Append(@, a.f), !.f = <<>>, !.m = "s"]
      endRow(a) == LET b == endField(a) IN [b EXCEPT !.rows = Append(@, b.row), !.row = <<>>]
      step(a, c) ==
        IF ~a.ok THEN a
        ELSE CASE a.m = "s" -> IF c = DQ THEN [a EXCEPT !.m = "q"] ELSE IF c = sep THEN endField(a) ELSE IF c = LF THEN (IF a.row = <<>> /\ a.f = <<>> THEN a ELSE endRow(a))
                               ELSE IF c = CR THEN a ELSE [a EXCEPT !.m = "u", !.f = <<c>>]
               [] a.m = "u" -> IF c = DQ THEN [a EXCEPT !.ok = FALSE] ELSE IF c = sep THEN endField(a) ELSE IF c = LF THEN endRow(a) ELSE IF c = CR THEN a ELSE [a EXCEPT !.f = Append(@, c)]
               [] a.m = "q" -> IF c = DQ THEN [a EXCEPT !.m = "e"] ELSE [a EXCEPT !.f = Append(@, c)]
               [] a.m = "e" -> IF c = DQ THEN [a EXCEPT !.m = "q", !.f = Append(@, DQ)] ELSE IF c = sep THEN endField(a) ELSE IF c = LF THEN endRow(a) ELSE IF c = CR THEN a
                               ELSE [a EXCEPT !.ok = FALSE]
      r == FoldLeft(step, [ok |-> TRUE, m |-> "s", f |-> <<>>, row |-> <<>>, rows |-> <<>>], t)
      fin == IF r.m = "q" THEN [r EXCEPT !.ok = FALSE] ELSE IF r.row # <<>> \/ r.f # <<>> \/ r.m = "e" THEN endRow(r) ELSE r
  IN [ok |-> fin.ok, rows |-> fin.rows]

\* ---------------------------------------------------------------- properties (code points)
PropEscKey(c) == IF c \in {32, 61, 58, 35, 33} THEN <<BS, c>> ELSE IF c = BS THEN <<BS, BS>> ELSE IF c = 9 THEN <<BS, 116>> ELSE IF c = LF THEN <<BS, 110>> ELSE IF c = CR THEN <<BS, 114>> ELSE IF c = 12 THEN <<BS, 102>> ELSE <<c>>
PropEscVal(c, first) == IF c = BS THEN <<BS, BS>> ELSE IF c = 9 THEN <<BS, 116>> ELSE IF c = LF THEN <<BS, 110>> ELSE IF c = CR THEN <<BS, 114>> ELSE IF c = 12 THEN <<BS, 102>>
                        ELSE IF c = 32 /\ first THEN <<BS, 32>> ELSE <<c>>
PropLine(k, v) == FoldLeft(LAMBDA acc, c : acc \o PropEscKey(c), <<>>, k) \o <<32, 61, 32>>
                  \o FoldLeft(LAMBDA acc, i : acc \o PropEscVal(v[i], i = 1), <<>>, [i \in DOMAIN v |-> i]) \o <<LF>>
PropsWrite(kvs) == FoldLeft(LAMBDA acc, kv : acc \o PropLine(kv[1], kv[2]), <<>>, kvs)
\* reader of ONE logical line (no continuation lines are generated): key up to the first unescaped = : or blank, then
\* optional blanks, optional = or :, optional blanks, then the value; returns [ok, k, v]
RECURSIVE PropUnesc(_)
PropUnesc(t) == IF t = <<>> THEN <<>>
                ELSE IF t[1] = BS /\ Len(t) >= 2
                     THEN (CASE t[2] = 116 -> <<9>> [] t[2] = 110 -> <<LF>> [] t[2] = 114 -> <<CR>> [] t[2] = 102 -> <<12>>
                             [] t[2] = 117 /\ Len(t) >= 6 -> <<(((HexV(t[3]) * 16 + HexV(t[4])) * 16 + HexV(t[5])) * 16) + HexV(t[6])>>
                             [] OTHER -> <<t[2]>>) \o PropUnesc(SubSeq(t, IF t[2] = 117 /\ Len(t) >= 6 THEN 7 ELSE 3, Len(t)))
                     ELSE <<t[1]>> \o PropUnesc(Tail(t))
RECURSIVE KeyEnd(_,_), SkipBlanks(_,_)
KeyEnd(t, i) == IF i > Len(t) THEN i ELSE IF t[i] = BS THEN KeyEnd(t, i + 2) ELSE IF t[i] \in {61, 58, 32, 9} THEN i ELSE KeyEnd(t, i + 1)
SkipBlanks(t, i) == IF At(t, i) \in {32, 9} THEN SkipBlanks(t, i + 1) ELSE i
PropReadLine(t) ==
  LET s == SkipBlanks(t, 1)
      ke == KeyEnd(t, s)
      a == SkipBlanks(t, ke)
      b == IF At(t, a) \in {61, 58} THEN SkipBlanks(t, a + 1) ELSE a
  IN [k |-> PropUnesc(SubSeq(t, s, ke - 1)), v |-> PropUnesc(SubSeq(t, b, Len(t)))]
\* split at unescaped line feeds (the writer escapes every line feed, so every LF ends a logical line)
RECURSIVE SplitLines(_,_,_)
SplitLines(t, i, cur) == IF i > Len(t) THEN (IF cur = <<>> THEN <<>> ELSE <<cur>>)
                         ELSE IF t[i] = LF THEN <<cur>> \o SplitLines(t, i + 1, <<>>) ELSE SplitLines(t, i + 1, Append(cur, t[i]))
PropsRead(t) == LET ls == SelectSeq(SplitLines(t, 1, <<>>), LAMBDA l : l # <<>> /\ At(l, SkipBlanks(l, 1)) \notin {35, 33, 0}) IN
                [i \in DOMAIN ls |-> <<PropReadLine(ls[i]).k, PropReadLine(ls[i]).v>>]

\* ---------------------------------------------------------------- xml (code points)
\* a tree: [name, attrs: <<<<name, value>>>>, kids: <<tree>>, text] (text only in elements without kids: no mixed content)
Elem(name, attrs, kids, text) == [name |-> name, attrs |-> attrs, kids |-> kids, text |-> text]
XmlEscText(c, mode) == IF c = 60 THEN <<38, 108, 116, 59>> ELSE IF c = 38 THEN <<38, 97, 109, 112, 59>> ELSE IF c = 62 THEN <<38, 103, 116, 59>>
                       ELSE IF c = DQ /\ mode > 0 THEN <<38, 113, 117, 111, 116, 59>> ELSE IF c = 39 /\ mode = 2 THEN <<38, 35, 51, 57, 59>>
                       ELSE IF c = LF /\ mode > 0 THEN <<38, 35, 120, 65, 59>> ELSE <<c>>
XmlEsc(s, mode) == FoldLeft(LAMBDA acc, c : acc \o XmlEscText(c, mode), <<>>, s)
RECURSIVE XmlWrite(_)
XmlWrite(e) == <<60>> \o e.name \o FoldLeft(LAMBDA acc, a : acc \o <<32>> \o a[1] \o <<61, DQ>> \o XmlEsc(a[2], 1) \o <<DQ>>, <<>>, e.attrs)
               \o (IF e.kids = <<>> /\ e.text = <<>> THEN <<47, 62>>
                   ELSE <<62>> \o XmlEsc(e.text, 0) \o FoldLeft(LAMBDA acc, k : acc \o XmlWrite(k), <<>>, e.kids) \o <<60, 47>> \o e.name \o <<62>>)
IsNameChar(c) == c \in (48..57) \cup (65..90) \cup (97..122) \cup {95, 45, 46, 58}
IsXmlWS(c) == c \in {32, 9, 10, 13}
RECURSIVE NameEnd(_,_), SkipXmlWS(_,_), EntityEnd(_,_)
NameEnd(t, i) == IF IsNameChar(At(t, i)) THEN NameEnd(t, i + 1) ELSE i
SkipXmlWS(t, i) == IF IsXmlWS(At(t, i)) THEN SkipXmlWS(t, i + 1) ELSE i
EntityEnd(t, i) == IF i > Len(t) THEN 0 ELSE IF t[i] = 59 THEN i ELSE EntityEnd(t, i + 1)
RECURSIVE DecRef(_,_), HexRef(_,_)
DecRef(ds, acc) == IF ds = <<>> THEN acc ELSE IF ds[1] \in 48..57 THEN DecRef(Tail(ds), acc * 10 + (ds[1] - 48)) ELSE -1
HexRef(ds, acc) == IF ds = <<>> THEN acc ELSE IF HexV(ds[1]) >= 0 THEN HexRef(Tail(ds), acc * 16 + HexV(ds[1])) ELSE -1
Entity(body) == IF body = <<108, 116>> THEN 60 ELSE IF body = <<103, 116>> THEN 62 ELSE IF body = <<97, 109, 112>> THEN 38 ELSE IF body = <<113, 117, 111, 116>> THEN 34 ELSE IF body = <<97, 112, 111, 115>> THEN 39
                ELSE IF Len(body) >= 3 /\ body[1] = 35 /\ body[2] \in {120, 88} THEN HexRef(SubSeq(body, 3, Len(body)), 0)
                ELSE IF Len(body) >= 2 /\ body[1] = 35 THEN DecRef(Tail(body), 0) ELSE -1
\* character data up to the delimiter d (60 `<` for text, 34 `"` for attribute values): [ok, s, next]
RECURSIVE XmlChars(_,_,_,_)
XmlChars(t, i, d, acc) ==
  IF i > Len(t) THEN [ok |-> FALSE, s |-> acc, next |-> i]
  ELSE IF t[i] = d THEN [ok |-> TRUE, s |-> acc, next |-> i]
  ELSE IF t[i] = 38 THEN LET e == EntityEnd(t, i) IN
         IF e = 0 \/ Entity(SubSeq(t, i + 1, e - 1)) < 0 THEN [ok |-> FALSE, s |-> acc, next |-> i] ELSE XmlChars(t, e + 1, d, Append(acc, Entity(SubSeq(t, i + 1, e - 1))))
  ELSE XmlChars(t, i + 1, d, Append(acc, t[i]))
XFail == [ok |-> FALSE, e |-> Elem(<<>>, <<>>, <<>>, <<>>), next |-> 0]
RECURSIVE XmlAttrs(_,_,_), XmlElem(_,_), XmlKids(_,_,_,_,_)
XmlAttrs(t, i0, acc) ==            \* [ok, attrs, next] ; next points at `>` or `/`
  LET i == SkipXmlWS(t, i0) IN
  IF At(t, i) \in {62, 47} THEN [ok |-> TRUE, attrs |-> acc, next |-> i]
  ELSE LET ne == NameEnd(t, i) IN
       IF ne = i \/ At(t, ne) # 61 \/ At(t, ne + 1) # DQ THEN [ok |-> FALSE, attrs |-> acc, next |-> i]
       ELSE LET v == XmlChars(t, ne + 2, DQ, <<>>) IN
            IF ~v.ok THEN [ok |-> FALSE, attrs |-> acc, next |-> i] ELSE XmlAttrs(t, v.next + 1, Append(acc, <<SubSeq(t, i, ne - 1), v.s>>))
XmlElem(t, i) ==                   \* t[i] = `<` of a start tag
  LET ne == NameEnd(t, i + 1)  name == SubSeq(t, i + 1, ne - 1)  as == XmlAttrs(t, ne, <<>>) IN
  IF At(t, i) # 60 \/ ne = i + 1 \/ ~as.ok THEN XFail
  ELSE IF At(t, as.next) = 47 THEN (IF At(t, as.next + 1) = 62 THEN [ok |-> TRUE, e |-> Elem(name, as.attrs, <<>>, <<>>), next |-> as.next + 2] ELSE XFail)
  ELSE XmlKids(t, as.next + 1, name, as.attrs, <<>>)
\* content of an element: either kids (white space between them is layout) or text
XmlKids(t, i, name, attrs, kids) ==
  LET j == SkipXmlWS(t, i) IN
  IF At(t, j) = 60 /\ At(t, j + 1) = 47                                        \* end tag
  THEN LET ne == NameEnd(t, j + 2) IN
       IF SubSeq(t, j + 2, ne - 1) = name /\ At(t, SkipXmlWS(t, ne)) = 62
       THEN [ok |-> TRUE, e |-> Elem(name, attrs, kids, IF kids = <<>> THEN SubSeq(t, i, j - 1) ELSE <<>>), next |-> SkipXmlWS(t, ne) + 1] ELSE XFail
  ELSE IF At(t, j) = 60 THEN LET k == XmlElem(t, j) IN IF ~k.ok THEN XFail ELSE XmlKids(t, k.next, name, attrs, Append(kids, k.e))
  ELSE IF kids # <<>> THEN XFail                                                \* mixed content is outside the modelled domain
  ELSE LET c == XmlChars(t, i, 60, <<>>) IN
       IF ~c.ok THEN XFail
       ELSE LET ne == NameEnd(t, c.next + 2) IN
            IF At(t, c.next + 1) = 47 /\ SubSeq(t, c.next + 2, ne - 1) = name /\ At(t, SkipXmlWS(t, ne)) = 62
            THEN [ok |-> TRUE, e |-> Elem(name, attrs, <<>>, c.s), next |-> SkipXmlWS(t, ne) + 1] ELSE XFail
\* skip an XML declaration / processing instruction in front
RECURSIVE PIEnd(_,_)
PIEnd(t, i) == IF i > Len(t) THEN i ELSE IF t[i] = 63 /\ At(t, i + 1) = 62 THEN i + 2 ELSE PIEnd(t, i + 1)
XmlRead(t) == LET s == SkipXmlWS(t, 1)  b == IF At(t, s) = 60 /\ At(t, s + 1) = 63 THEN SkipXmlWS(t, PIEnd(t, s)) ELSE s  r == XmlElem(t, b) IN
              IF r.ok /\ SkipXmlWS(t, r.next) > Len(t) THEN [ok |-> TRUE, e |-> r.e] ELSE [ok |-> FALSE, e |-> XFail.e]

\* the value yq documents for an element tree: the text of an element that also has attributes under +content first, then attributes as +@name, then children in order of first appearance with
\* repeated names collected into a sequence, text of an element that also has attributes under +content, a leaf's text as
\* a string, an empty leaf as null
AttrKey(n) == <<43, 64>> \o n
ContentKey == <<43, 99, 111, 110, 116, 101, 110, 116>>
RECURSIVE XmlValueP(_,_,_)
XmlValueP(e, ap, cn) ==
  IF e.attrs = <<>> /\ e.kids = <<>> THEN (IF e.text = <<>> THEN JNull ELSE JStr(e.text))
  ELSE LET names == FoldLeft(LAMBDA acc, k : IF \E i \in DOMAIN acc : acc[i] = k.name THEN acc ELSE Append(acc, k.name), <<>>, e.kids)
           group(n) == SelectSeq(e.kids, LAMBDA k : k.name = n)
           kidEntries == [i \in DOMAIN names |-> <<names[i], IF Len(group(names[i])) = 1 THEN XmlValueP(group(names[i])[1], ap, cn)
                                                          ELSE JSeq([j \in DOMAIN group(names[i]) |-> XmlValueP(group(names[i])[j], ap, cn)])>>]
       IN JMap((IF e.kids = <<>> /\ e.text # <<>> THEN << <<cn, JStr(e.text)>> >> ELSE <<>>)
               \o [i \in DOMAIN e.attrs |-> <<ap \o e.attrs[i][1], JStr(e.attrs[i][2])>>] \o kidEntries)
\* the attribute prefix and the content name are preferences of yq (defaults +@ and +content)
XmlDocP(e, ap, cn) == JMap(<< <<e.name, XmlValueP(e, ap, cn)>> >>)
XmlDoc(e) == XmlDocP(e, <<43, 64>>, ContentKey)

\* ---------------------------------------------------------------- lua (code points): the reader of `return <table>;`
RECURSIVE LuaStr(_,_,_)
LuaStr(t, i, acc) ==         \* inside "..." ; [ok, s, next]
  IF i > Len(t) THEN [ok |-> FALSE, s |-> acc, next |-> i]
  ELSE IF t[i] = DQ THEN [ok |-> TRUE, s |-> acc, next |-> i + 1]
  ELSE IF t[i] = LF THEN [ok |-> FALSE, s |-> acc, next |-> i]
  ELSE IF t[i] # BS THEN LuaStr(t, i + 1, Append(acc, t[i]))
  ELSE LET x == At(t, i + 1) IN
    CASE x = 110 -> LuaStr(t, i + 2, Append(acc, 10)) [] x = 116 -> LuaStr(t, i + 2, Append(acc, 9)) [] x = 114 -> LuaStr(t, i + 2, Append(acc, 13))
      [] x = 97 -> LuaStr(t, i + 2, Append(acc, 7)) [] x = 98 -> LuaStr(t, i + 2, Append(acc, 8)) [] x = 102 -> LuaStr(t, i + 2, Append(acc, 12)) [] x = 118 -> LuaStr(t, i + 2, Append(acc, 11))
      [] x = BS -> LuaStr(t, i + 2, Append(acc, BS)) [] x = DQ -> LuaStr(t, i + 2, Append(acc, DQ)) [] x = 39 -> LuaStr(t, i + 2, Append(acc, 39))
      [] x = LF -> LuaStr(t, i + 2, Append(acc, 10))
      [] IsDigit(x) -> LET e == IF IsDigit(At(t, i + 2)) THEN (IF IsDigit(At(t, i + 3)) THEN i + 4 ELSE i + 3) ELSE i + 2       \* \ddd: up to three decimal digits
                           v == SmallInt(Digits(t, i + 1, e)) IN
                       IF v > 255 THEN [ok |-> FALSE, s |-> acc, next |-> i] ELSE LuaStr(t, e, Append(acc, v))
      [] OTHER -> [ok |-> FALSE, s |-> acc, next |-> i]
LFail == [ok |-> FALSE, v |-> JNull, next |-> 0]
IsIdStart(c) == c \in (65..90) \cup (97..122) \cup {95}
IsIdChar(c) == IsIdStart(c) \/ IsDigit(c)
RECURSIVE IdEnd(_,_)
IdEnd(t, i) == IF IsIdChar(At(t, i)) THEN IdEnd(t, i + 1) ELSE i
RECURSIVE LuaVal(_,_), LuaFields(_,_,_,_)
LuaVal(t, i0) ==
  LET i == SkipWS(t, i0) IN
  CASE At(t, i) = DQ -> LET r == LuaStr(t, i + 1, <<>>) IN [ok |-> r.ok, v |-> JStr(r.s), next |-> r.next]
    [] At(t, i) = 123 -> LuaFields(t, i + 1, <<>>, <<>>)
    [] Word(t, i, <<110, 105, 108>>) -> [ok |-> TRUE, v |-> JNull, next |-> i + 3]
    [] Word(t, i, TRUEW) -> [ok |-> TRUE, v |-> JBool(TRUE), next |-> i + 4]
    [] Word(t, i, FALSEW) -> [ok |-> TRUE, v |-> JBool(FALSE), next |-> i + 5]
    [] At(t, i) = MINUS \/ IsDigit(At(t, i)) -> LET r == ScanNumber(t, i, TRUE) IN [ok |-> r.ok, v |-> r.v, next |-> r.next]
    [] OTHER -> LFail
\* fields: positional values (pos) and keyed entries (kv); a table with keyed entries is a map, else a sequence
LuaFields(t, i0, pos, kv) ==
  LET i == SkipWS(t, i0) IN
  IF At(t, i) = 125 THEN [ok |-> pos = <<>> \/ kv = <<>>, v |-> IF kv # <<>> THEN JMap(kv) ELSE JSeq(pos), next |-> i + 1]
  ELSE LET sepAfter(j) == LET k == SkipWS(t, j) IN IF At(t, k) \in {44, 59} THEN k + 1 ELSE k IN
    IF At(t, i) = 91 /\ At(t, SkipWS(t, i + 1)) = DQ                                \* ["key"] = value
    THEN LET ks == LuaStr(t, SkipWS(t, i + 1) + 1, <<>>)  c == SkipWS(t, ks.next)  e == SkipWS(t, c + 1) IN
         IF ~ks.ok \/ At(t, c) # 93 \/ At(t, e) # 61 THEN LFail
         ELSE LET r == LuaVal(t, e + 1) IN IF ~r.ok THEN LFail ELSE LuaFields(t, sepAfter(r.next), pos, Append(kv, <<ks.s, r.v>>))
    ELSE IF IsIdStart(At(t, i)) /\ At(t, SkipWS(t, IdEnd(t, i))) = 61 /\ At(t, SkipWS(t, IdEnd(t, i)) + 1) # 61   \* name = value
    THEN LET r == LuaVal(t, SkipWS(t, IdEnd(t, i)) + 1) IN IF ~r.ok THEN LFail ELSE LuaFields(t, sepAfter(r.next), pos, Append(kv, <<SubSeq(t, i, IdEnd(t, i) - 1), r.v>>))
    ELSE LET r == LuaVal(t, i) IN IF ~r.ok THEN LFail ELSE LuaFields(t, sepAfter(r.next), Append(pos, r.v), kv)
RETURNW == <<114, 101, 116, 117, 114, 110>>
LuaRead(t) == LET s == SkipWS(t, 1) IN
  IF ~Word(t, s, RETURNW) THEN [ok |-> FALSE, v |-> JNull]
  ELSE LET r == LuaVal(t, s + 6)  e == IF r.ok THEN SkipWS(t, r.next) ELSE 0  f == IF At(t, e) = 59 THEN SkipWS(t, e + 1) ELSE e IN
       IF r.ok /\ f > Len(t) THEN [ok |-> TRUE, v |-> r.v] ELSE [ok |-> FALSE, v |-> JNull]
\* reference writer (one admissible spelling)
LuaEscChar(c) == IF c = DQ THEN <<BS, DQ>> ELSE IF c = BS THEN <<BS, BS>> ELSE IF c = 10 THEN <<BS, 110>> ELSE IF c = 9 THEN <<BS, 116>> ELSE IF c = 13 THEN <<BS, 114>>
                 ELSE IF c < 32 \/ c = 127 THEN <<BS, 48 + (c \div 100), 48 + ((c \div 10) % 10), 48 + (c % 10)>> ELSE <<c>>
LuaStrW(s) == <<DQ>> \o FoldLeft(LAMBDA acc, c : acc \o LuaEscChar(c), <<>>, s) \o <<DQ>>
RECURSIVE LuaWriteV(_)
LuaWriteV(v) ==
  CASE v.k = "null" -> <<110, 105, 108>> [] v.k = "bool" -> (IF v.b THEN TRUEW ELSE FALSEW) [] v.k = "num" -> EncNum(v) [] v.k = "str" -> LuaStrW(v.s)
    [] v.k = "seq" -> <<123>> \o FoldLeft(LAMBDA acc, x : acc \o LuaWriteV(x) \o <<44, 32>>, <<>>, v.e) \o <<125>>
    [] v.k = "map" -> <<123>> \o FoldLeft(LAMBDA acc, kv : acc \o <<91>> \o LuaStrW(kv[1]) \o <<93, 32, 61, 32>> \o LuaWriteV(kv[2]) \o <<59, 32>>, <<>>, v.m) \o <<125>>
LuaWrite(v) == RETURNW \o <<32>> \o LuaWriteV(v) \o <<59, LF>>

\* ---------------------------------------------------------------- toml: the writer of a document (decoding direction only)
TomlEscChar(c) == IF c = DQ THEN <<BS, DQ>> ELSE IF c = BS THEN <<BS, BS>> ELSE IF c = 10 THEN <<BS, 110>> ELSE IF c = 9 THEN <<BS, 116>>
                  ELSE IF c < 32 \/ c = 127 THEN <<BS, 117, 48, 48, HexUp(c \div 16), HexUp(c % 16)>> ELSE <<c>>
TomlStr(s) == <<DQ>> \o FoldLeft(LAMBDA acc, c : acc \o TomlEscChar(c), <<>>, s) \o <<DQ>>
BareKey(k) == k # <<>> /\ \A i \in DOMAIN k : k[i] \in (48..57) \cup (65..90) \cup (97..122) \cup {95, 45}
TomlKey(k) == IF BareKey(k) THEN k ELSE TomlStr(k)
RECURSIVE TomlInline(_)
TomlInline(v) ==
  CASE v.k = "bool" -> (IF v.b THEN TRUEW ELSE FALSEW) [] v.k = "num" -> EncNum(v) [] v.k = "str" -> TomlStr(v.s)
    [] v.k = "seq" -> <<91>> \o FoldLeft(LAMBDA acc, i : acc \o (IF i > 1 THEN <<44, 32>> ELSE <<>>) \o TomlInline(v.e[i]), <<>>, [i \in DOMAIN v.e |-> i]) \o <<93>>
    [] v.k = "map" -> <<123, 32>> \o FoldLeft(LAMBDA acc, i : acc \o (IF i > 1 THEN <<44, 32>> ELSE <<>>) \o TomlKey(v.m[i][1]) \o <<32, 61, 32>> \o TomlInline(v.m[i][2]), <<>>, [i \in DOMAIN v.m |-> i]) \o <<32, 125>>
IsTable(v) == v.k = "map"
IsTableArray(v) == v.k = "seq" /\ v.e # <<>> /\ \A i \in DOMAIN v.e : v.e[i].k = "map"
JoinDot(p) == FoldLeft(LAMBDA acc, i : acc \o (IF i > 1 THEN <<46>> ELSE <<>>) \o TomlKey(p[i]), <<>>, [i \in DOMAIN p |-> i])
\* style: 1 = sub-tables as [headers] and arrays of tables as [[headers]], 2 = everything inline
RECURSIVE TomlTable(_,_,_)
TomlTable(v, path, style) ==
  LET plain == SelectSeq(v.m, LAMBDA kv : style = 2 \/ (~IsTable(kv[2]) /\ ~IsTableArray(kv[2])))
      tabs  == SelectSeq(v.m, LAMBDA kv : style = 1 /\ IsTable(kv[2]))
      arrs  == SelectSeq(v.m, LAMBDA kv : style = 1 /\ IsTableArray(kv[2]))
  IN FoldLeft(LAMBDA acc, kv : acc \o TomlKey(kv[1]) \o <<32, 61, 32>> \o TomlInline(kv[2]) \o <<LF>>, <<>>, plain)
     \o FoldLeft(LAMBDA acc, kv : acc \o <<91>> \o JoinDot(Append(path, kv[1])) \o <<93, LF>> \o TomlTable(kv[2], Append(path, kv[1]), style), <<>>, tabs)
     \o FoldLeft(LAMBDA acc, kv : acc \o FoldLeft(LAMBDA a2, el : a2 \o <<91, 91>> \o JoinDot(Append(path, kv[1])) \o <<93, 93, LF>> \o TomlTable(el, Append(path, kv[1]), style), <<>>, kv[2].e), <<>>, arrs)
\* style 3: a chain of single-entry tables is written as one dotted key (`a.b.c = 1`), at the top level and inside inline tables
RECURSIVE DotPath(_,_), TomlInlineD(_)
DotPath(path, v) == IF v.k = "map" /\ Len(v.m) = 1 THEN DotPath(Append(path, v.m[1][1]), v.m[1][2]) ELSE [p |-> path, v |-> v]
TomlEntryD(kv) == LET d == DotPath(<<kv[1]>>, kv[2]) IN JoinDot(d.p) \o <<32, 61, 32>> \o TomlInlineD(d.v)
TomlInlineD(v) ==
  CASE v.k = "seq" -> <<91>> \o FoldLeft(LAMBDA acc, i : acc \o (IF i > 1 THEN <<44, 32>> ELSE <<>>) \o TomlInlineD(v.e[i]), <<>>, [i \in DOMAIN v.e |-> i]) \o <<93>>
    [] v.k = "map" -> <<123, 32>> \o FoldLeft(LAMBDA acc, i : acc \o (IF i > 1 THEN <<44, 32>> ELSE <<>>) \o TomlEntryD(v.m[i]), <<>>, [i \in DOMAIN v.m |-> i]) \o <<32, 125>>
    [] OTHER -> TomlInline(v)
\* style 4: every leaf under its full dotted path - several dotted keys share a prefix (`y.z = 2`, `y.w = 3`), at the top
\* level and inside the inline tables that are elements of arrays
RECURSIVE Leaves(_,_), TomlInlineF(_)
Leaves(path, v) == IF v.k = "map" /\ v.m # <<>> THEN FoldLeft(LAMBDA acc, kv : acc \o Leaves(Append(path, kv[1]), kv[2]), <<>>, v.m) ELSE << [p |-> path, v |-> v] >>
TomlFlatEntries(v) == LET ls == Leaves(<<>>, v) IN [i \in DOMAIN ls |-> JoinDot(ls[i].p) \o <<32, 61, 32>> \o TomlInlineF(ls[i].v)]
TomlInlineF(v) ==
  CASE v.k = "seq" -> <<91>> \o FoldLeft(LAMBDA acc, i : acc \o (IF i > 1 THEN <<44, 32>> ELSE <<>>) \o TomlInlineF(v.e[i]), <<>>, [i \in DOMAIN v.e |-> i]) \o <<93>>
    [] v.k = "map" -> <<123, 32>> \o FoldLeft(LAMBDA acc, i : acc \o (IF i > 1 THEN <<44, 32>> ELSE <<>>) \o TomlFlatEntries(v)[i], <<>>, [i \in DOMAIN TomlFlatEntries(v) |-> i]) \o <<32, 125>>
    [] OTHER -> TomlInline(v)
TomlWrite(v, style) == IF style = 4 THEN FoldLeft(LAMBDA acc, l : acc \o l \o <<LF>>, <<>>, TomlFlatEntries(v)) ELSE IF style = 3 THEN FoldLeft(LAMBDA acc, kv : acc \o TomlEntryD(kv) \o <<LF>>, <<>>, v.m) ELSE TomlTable(v, <<>>, style)
\* the value a TOML document written in style 1 denotes: plain keys first, then tables, then arrays of tables (document order)
Kind3(x) == IF IsTable(x) THEN 2 ELSE IF IsTableArray(x) THEN 3 ELSE 1
Sel(v, k) == SelectSeq(v.m, LAMBDA kv : Kind3(kv[2]) = k)
RECURSIVE TomlOrder(_)
TomlOrder(v) == IF v.k # "map" THEN v
                ELSE JMap(Sel(v, 1) \o [i \in DOMAIN Sel(v, 2) |-> <<Sel(v, 2)[i][1], TomlOrder(Sel(v, 2)[i][2])>>]
                          \o [i \in DOMAIN Sel(v, 3) |-> <<Sel(v, 3)[i][1], JSeq([j \in DOMAIN Sel(v, 3)[i][2].e |-> TomlOrder(Sel(v, 3)[i][2].e[j])])>>])
=============================================================================
