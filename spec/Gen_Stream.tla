---------------------------- MODULE Gen_Stream ----------------------------
(* C10 - layouts of files x documents x expression classes x -N for the stream machine; every terminal state is
   printed with the token stream the machine produces and the reference token stream. *)
EXTENDS Stream, Json
CONSTANT Level   \* 1: up to 2 files full variants + 3 files reduced variants; 2: 3 files with more variants

Doc(k, l) == [kind |-> k, lead |-> l]
FirstDocs == { Doc(k, l) : k \in {"map", "scalar"}, l \in {"none", "sep", "sepc", "c"} }
LaterDocs == { Doc(k, l) : k \in {"map", "scalar"}, l \in {"sep", "sepc"} }
FileFull == { <<>> } \cup { <<d>> : d \in FirstDocs } \cup { <<Doc("comment", "c")>> } \cup { <<a, b>> : a \in FirstDocs, b \in LaterDocs }
FileSmall == { <<>>, <<Doc("map", "none")>>, <<Doc("map", "sep")>>, <<Doc("map", "none"), Doc("map", "sep")>>, <<Doc("scalar", "sep"), Doc("map", "sepc")>>, <<Doc("comment", "c")>> }
FileMid == FileSmall \cup { <<Doc("scalar", "none")>>, <<Doc("map", "c"), Doc("scalar", "sep")>>, <<Doc("map", "sepc")>> }
Layouts == { <<a>> : a \in FileFull } \cup { <<a, b>> : a \in FileFull, b \in (IF Level = 1 THEN FileMid ELSE FileFull) }
           \cup { <<a, b, c>> : a \in (IF Level = 1 THEN FileSmall ELSE FileMid), b \in (IF Level = 1 THEN FileSmall ELSE FileMid), c \in (IF Level = 1 THEN FileSmall ELSE FileMid) }

GInit == \E F \in Layouts, X \in Classes, N \in BOOLEAN : Start(F, X, N)
Emit == phase = "done" => PrintT("@@" \o ToJson([files |-> files, x |-> x, noSep |-> noSep, out |-> out, ref |-> RefOut(files, x, noSep)]))
=============================================================================
