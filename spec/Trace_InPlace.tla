--------------------------- MODULE Trace_InPlace ---------------------------
(* Trace validation for the in-place protocol.  Each recorded run (system calls of the unmodified binary under
   strace, projected to protocol steps) must be a behaviour of InPlace.tla that ends in the observed state.
   Evaluate and ExitCheck are not system calls: they are silent steps TLC infers.  One initial state per trace;
   an accepted trace prints ACCEPT <id>. *)
EXTENDS InPlace, Json, SequencesExt
Traces == ndJsonDeserialize("inplace_traces.ndjson")
VARIABLE tr
Silent == {"Evaluate", "ExitCheck"}
Visible(h) == SelectSeq(h, LAMBDA ev : ev.step \notin Silent)
EventsOf(t) == [i \in DOMAIN t.events |-> [step |-> t.events[i].step, res |-> t.events[i].res]]
TInit == Init /\ tr \in DOMAIN Traces /\ eval = Traces[tr].eval
TNext == Next /\ tr' = tr /\ IsPrefix(Visible(hist'), EventsOf(Traces[tr]))
Accepted == /\ Terminal /\ Visible(hist) = EventsOf(Traces[tr])
            /\ target.content = Traces[tr].target /\ exit = Traces[tr].exit /\ temp.exists = Traces[tr].tempLeft
            /\ (target.content = "New" => target.mode = Traces[tr].mode)
Report == Accepted => PrintT(<<"ACCEPT", tr>>)
=============================================================================
