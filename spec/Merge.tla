------------------------------- MODULE Merge -------------------------------
(***************************************************************************)
(* C04 - deep merge `a * b` with flags f = [app (+), deep (d), exist (?),  *)
(* new (n)].                                                               *)
(*  RefMerge : the DECLARATIVE reading of the documentation: a's entries   *)
(*     first, common keys merged recursively when both values are maps and *)
(*     otherwise b's value (sequences replaced / appended / by position),  *)
(*     then b's new entries; `?` only existing keys, `n` only new keys.    *)
(*  PMerge   : the PROCEDURAL reading of how-it-works ("copy the LHS, then *)
(*     assign every node of the RHS at its path"), one rule per kind of    *)
(*     RHS node.                                                           *)
(* TLC checks that the two coincide outside the region the documentation   *)
(* leaves open (Open), and the algebraic identities.  A value is Absent    *)
(* (no such key) or a Value of Values.tla; Err marks an evaluation error.  *)
(***************************************************************************)
EXTENDS Values

Absent == [k |-> "absent"]
Err    == [k |-> "error"]
IsErr(v) == v.k = "error"
Flags == [app : BOOLEAN, deep : BOOLEAN, exist : BOOLEAN, new : BOOLEAN]
NoFlags == [app |-> FALSE, deep |-> FALSE, exist |-> FALSE, new |-> FALSE]

Lookup(m, key) == IF HasKey(m, key) THEN MapGet(m, key) ELSE Absent

\* ---------------------------------------------------------------- procedural
RECURSIVE PAssign(_,_,_)
\* the value at one path after "assign node bv of the RHS here" (t: current value there, possibly Absent)
PAssign(t, bv, f) ==
  IF IsErr(t) THEN Err
  ELSE IF t.k = "absent" /\ f.exist THEN Absent                     \* `?`: paths that do not exist are not created
  ELSE
  LET t0 == IF t.k = "absent" THEN Null ELSE t                     \* the traversal created the entry (as null)
      writable == ~f.new \/ t0.k = "null"                          \* `n`: only where there is nothing yet
  IN CASE bv.k = "map" ->
          LET t1 == IF writable /\ t0.k # "map" THEN MapV(<<>>) ELSE t0   \* attributes: the kind becomes map, old content dropped
          IN IF t1.k = "map" THEN
                FoldLeft(LAMBDA acc, kv :
                            IF IsErr(acc) THEN Err
                            ELSE LET r == PAssign(Lookup(acc, kv[1]), kv[2], f) IN
                                 IF IsErr(r) THEN Err ELSE IF r.k = "absent" THEN acc ELSE MapSet(acc, kv[1], r),
                         t1, bv.m)
             ELSE IF t1.k = "seq" THEN Err                          \* a key cannot index a sequence
             ELSE t1                                                \* a scalar kept by `n`: nothing below it can be written
       [] bv.k = "seq" ->
          IF f.app THEN                                             \* `+`: target += sequence
             (CASE t0.k = "null" -> bv [] t0.k = "seq" -> IF writable THEN SeqV(t0.e \o bv.e) ELSE t0 [] OTHER -> Err)
          ELSE IF ~f.deep THEN (IF writable THEN bv ELSE t0)        \* replaced
          ELSE LET t1 == IF writable /\ t0.k # "seq" THEN SeqV(<<>>) ELSE t0 IN      \* `d`: by position
               IF t1.k = "seq" THEN
                  FoldLeft(LAMBDA acc, i :
                              IF IsErr(acc) THEN Err
                              ELSE LET padded == IF i > Len(acc.e) THEN SeqV(acc.e \o [x \in 1..(i - Len(acc.e)) |-> Null]) ELSE acc
                                       r == PAssign(padded.e[i], bv.e[i], [f EXCEPT !.exist = FALSE])
                                   IN IF IsErr(r) THEN Err ELSE SeqV([padded.e EXCEPT ![i] = r]),
                           t1, [i \in DOMAIN bv.e |-> i])
               ELSE IF t1.k = "map" THEN Err ELSE t1
       [] OTHER -> IF writable THEN bv ELSE t0                      \* scalars (including null): b's value wins

\* `a * b` (operator_multiply.go: multiply)
PMerge(a, b, f) ==
  IF b.k = "null" THEN a
  ELSE IF (a.k \in {"map", "null"} /\ b.k = "map") \/ (a.k \in {"seq", "null"} /\ b.k = "seq") THEN PAssign(a, b, f)
  ELSE Err                                                          \* scalar cases are Eval.tla's MulScalars

\* ---------------------------------------------------------------- declarative
RECURSIVE RefVal(_,_,_)
RefVal(av, bv, f) ==
  CASE av.k = "map" /\ bv.k = "map" ->
         LET aPart == [i \in DOMAIN av.m |->
                         IF HasKey(bv, av.m[i][1]) THEN <<av.m[i][1], RefVal(av.m[i][2], MapGet(bv, av.m[i][1]), f)>> ELSE av.m[i]]
             bNew == SelectSeq(bv.m, LAMBDA kv : ~HasKey(av, kv[1]))
         IN MapV(aPart \o (IF f.exist THEN <<>> ELSE bNew))
    [] f.new -> av                                                  \* `n`: existing values stay
    [] av.k = "seq" /\ bv.k = "seq" ->
         IF f.app THEN SeqV(av.e \o bv.e)
         ELSE IF f.deep THEN SeqV([i \in 1..Max2(Len(av.e), Len(bv.e)) |->
                                     IF i > Len(bv.e) THEN av.e[i] ELSE IF i > Len(av.e) THEN bv.e[i] ELSE RefVal(av.e[i], bv.e[i], f)])
         ELSE bv
    [] OTHER -> bv
RefMerge(a, b, f) == IF b.k = "null" THEN a ELSE IF a.k = "null" THEN (IF f.exist THEN a ELSE b) ELSE RefVal(a, b, f)

\* ---------------------------------------------------------------- the region the documentation leaves open
RECURSIVE Conflict(_,_)
Conflict(a, b) ==
  IF a.k = "map" /\ b.k = "map" THEN \E i \in DOMAIN a.m : HasKey(b, a.m[i][1]) /\ Conflict(a.m[i][2], MapGet(b, a.m[i][1]))
  ELSE IF a.k = "seq" /\ b.k = "seq" THEN \E i \in DOMAIN a.e : i <= Len(b.e) /\ Conflict(a.e[i], b.e[i])
  ELSE (IsContainer(a) \/ IsContainer(b)) /\ a.k # b.k /\ a.k # "null" /\ b.k # "null"
\* under `n` an existing key whose value is null counts as "not there" in the implementation: left open as well;
\* so are null values met by `?`/`+`/`d` combinations with missing positions
RECURSIVE NullMeets(_,_)
NullMeets(a, b) ==
  IF a.k = "map" /\ b.k = "map" THEN \E i \in DOMAIN a.m : HasKey(b, a.m[i][1]) /\ NullMeets(a.m[i][2], MapGet(b, a.m[i][1]))
  ELSE IF a.k = "seq" /\ b.k = "seq" THEN \E i \in DOMAIN a.e : i <= Len(b.e) /\ NullMeets(a.e[i], b.e[i])
  ELSE a.k = "null" /\ b.k # "null"
RECURSIVE SeqMeets(_,_)
SeqMeets(a, b) ==
  IF a.k = "map" /\ b.k = "map" THEN \E i \in DOMAIN a.m : HasKey(b, a.m[i][1]) /\ SeqMeets(a.m[i][2], MapGet(b, a.m[i][1]))
  ELSE a.k = "seq" /\ b.k = "seq"
\* `d` together with `n`: whether positions beyond a's length count as "new" is not documented
Open(a, b, f) == (Conflict(a, b) /\ (f.app \/ f.exist \/ f.new)) \/ ((f.new \/ f.exist) /\ NullMeets(a, b)) \/ (f.exist /\ f.deep)
                 \/ (f.deep /\ (f.new \/ f.app) /\ SeqMeets(a, b))      \* `d` with `+`: append and positional merge at once is not documented

\* N files merged with `. as $i ireduce ({}; . * $i)`
FoldMerge(docs, f) == FoldLeft(LAMBDA acc, d : IF IsErr(acc) THEN Err ELSE PMerge(acc, d, f), MapV(<<>>), docs)
=============================================================================
