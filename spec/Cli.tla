-------------------------------- MODULE Cli --------------------------------
(***************************************************************************)
(* C19 - the command layer: a run is a sequence of stage outcomes          *)
(*   parse expression -> for every document of every file:                 *)
(*       decode -> evaluate -> encode+write each result                    *)
(*   -> exit-status rule (-e)                                              *)
(* with a failure possible at every stage and position.  The machine       *)
(* computes exit status, whether stderr must be non-empty, and which       *)
(* results reach stdout; the declarative rule (RefExit / RefPrinted) is     *)
(* checked against it.  Format auto-detection is the decision table        *)
(* FormatFor.                                                              *)
(***************************************************************************)
EXTENDS Integers, Sequences, FiniteSets, TLC

FailKinds == {"none", "parse", "decode", "eval", "encode", "sink"}
\* class of the results (for -e): every document truthy / falsy / no result; "tf": only the FIRST document's result is
\* truthy; "ft": only the LAST one's
Truths == {"truthy", "falsy", "none", "tf", "ft"}
DocTruthy(c, d) == c.truth = "truthy" \/ (c.truth = "tf" /\ d = 1) \/ (c.truth = "ft" /\ d = c.ndocs)

\* cfg == [ndocs, layout, fail |-> [kind, at], e, truth]
VARIABLES cfg, stage, k, printed, exit, stderr,
          seen       \* a truthy result has been printed (what -e looks at: it accumulates over all results)
vars == <<cfg, stage, k, printed, exit, stderr, seen>>

ResultsPerDoc(c) == IF c.truth = "none" THEN 0 ELSE 1

Start(c) == cfg = c /\ stage = "parse" /\ k = 1 /\ printed = 0 /\ exit = -1 /\ stderr = FALSE /\ seen = FALSE
FailNow == stage' = "done" /\ exit' = 1 /\ stderr' = TRUE /\ UNCHANGED <<cfg, k, printed, seen>>

Parse == /\ stage = "parse"
         /\ IF cfg.fail.kind = "parse" THEN FailNow
            ELSE stage' = "decode" /\ UNCHANGED <<cfg, k, printed, exit, stderr, seen>>
Decode == /\ stage = "decode"
          /\ IF k > cfg.ndocs THEN stage' = "exitcheck" /\ UNCHANGED <<cfg, k, printed, exit, stderr, seen>>
             ELSE IF cfg.fail.kind = "decode" /\ cfg.fail.at = k THEN FailNow
             ELSE stage' = "eval" /\ UNCHANGED <<cfg, k, printed, exit, stderr, seen>>
Eval == /\ stage = "eval"
        /\ IF cfg.fail.kind = "eval" /\ cfg.fail.at = k THEN FailNow
           ELSE stage' = "encode" /\ UNCHANGED <<cfg, k, printed, exit, stderr, seen>>
\* encode and write the results of document k; a failing sink fails the first write
Encode == /\ stage = "encode"
          /\ IF ResultsPerDoc(cfg) > 0 /\ (cfg.fail.kind = "sink" \/ (cfg.fail.kind = "encode" /\ cfg.fail.at = k)) THEN FailNow
             ELSE stage' = "decode" /\ k' = k + 1 /\ printed' = printed + ResultsPerDoc(cfg) /\ seen' = (seen \/ DocTruthy(cfg, k)) /\ UNCHANGED <<cfg, exit, stderr>>
\* -e: status 1 exactly when no result was produced or every result is null or false
ExitCheck == /\ stage = "exitcheck" /\ stage' = "done" /\ UNCHANGED <<cfg, k, printed, seen>>
             /\ IF cfg.e /\ ~seen THEN exit' = 1 /\ stderr' = TRUE ELSE exit' = 0 /\ stderr' = FALSE
Next == Parse \/ Decode \/ Eval \/ Encode \/ ExitCheck

\* ---- the declarative rule
Failed(c) == c.fail.kind \in {"parse", "decode", "eval"} \/ (c.fail.kind \in {"encode", "sink"} /\ ResultsPerDoc(c) > 0)
RefExit(c) == IF Failed(c) THEN 1 ELSE IF c.e /\ ~(\E d \in 1..c.ndocs : DocTruthy(c, d)) THEN 1 ELSE 0
RefPrinted(c) == CASE c.fail.kind \in {"parse", "sink"} -> 0
                   [] c.fail.kind \in {"decode", "eval", "encode"} /\ Failed(c) -> (c.fail.at - 1) * ResultsPerDoc(c)
                   [] OTHER -> c.ndocs * ResultsPerDoc(c)
TellsTheTruth == stage = "done" =>
   /\ exit = RefExit(cfg) /\ (exit # 0 <=> stderr)
   /\ (cfg.fail.kind # "sink" => printed = RefPrinted(cfg))
   /\ (exit = 0 => printed = cfg.ndocs * ResultsPerDoc(cfg))          \* exit 0 only if everything was encoded to the output

\* ---- format auto-detection (cmd/utils.go: initCommand): [in, out] for (extension of the FIRST file, -p, -o)
KnownExt == {"yaml", "yml", "json", "xml", "properties", "props", "csv", "tsv", "toml", "lua"}
Canon(x) == CASE x \in {"yaml", "yml", "y"} -> "yaml" [] x \in {"json", "j"} -> "json" [] x \in {"xml", "x"} -> "xml"
              [] x \in {"props", "p", "properties"} -> "props" [] x \in {"csv", "c"} -> "csv" [] x \in {"tsv", "t"} -> "tsv"
              [] x = "toml" -> "toml" [] x \in {"lua", "l"} -> "lua" [] OTHER -> "unknown"
FormatFor(ext, pflag, oflag) ==
  LET in == IF pflag # "auto" THEN Canon(pflag) ELSE IF Canon(ext) = "unknown" THEN "yaml" ELSE Canon(ext)
      out == IF oflag # "auto" THEN Canon(oflag)
             ELSE IF pflag # "auto" THEN "yaml"                         \* documented backwards-compatibility rule
             ELSE IF Canon(ext) = "unknown" THEN "yaml" ELSE Canon(ext)
  IN [in |-> in, out |-> out]

\* ---- results an output format cannot represent must fail, never be dropped or replaced (statement of C19)
Shapes == {"string", "flatmap", "nestedmap", "seqscalars", "seqmaps", "mapwithseq", "xmlattrseq", "seqmapskey", "specials"}
\* seqmapskey: a sequence of maps whose first map has a key that is a sequence;  specials: [.nan, .inf, text]
OutFormats == {"yaml", "json", "props", "csv", "tsv", "xml", "toml", "lua", "shell", "base64", "uri"}
MustFail(fmt, shape) ==
  \/ fmt \in {"csv", "tsv"} /\ shape \in {"nestedmap", "mapwithseq", "xmlattrseq", "seqmapskey"}        \* nested data has no row form, a sequence is no column name
  \/ fmt = "json" /\ shape = "specials"                                                                \* JSON has no NaN / Infinity
  \/ fmt = "xml" /\ shape \in {"seqmapskey", "specials"}
  \/ fmt = "xml" /\ shape \in {"seqscalars", "seqmaps", "xmlattrseq"}                                    \* no top-level sequence; an attribute must be a scalar
  \/ fmt = "toml" /\ shape # "string"                                                                   \* the TOML encoder only prints scalars
  \/ fmt \in {"base64", "uri"} /\ shape # "string"
\* otherwise: exit 0 with every leaf of the value in the output, or an error - never silent loss
=============================================================================
