----------------------------- MODULE Gen_Eval -----------------------------
(***************************************************************************)
(* Behaviour/vector generation for the evaluator machine (C01, C08, C11):  *)
(* TLC enumerates a bounded expression grammar x a bounded document space, *)
(* evaluates every pair with the reference rules of Eval.tla and prints    *)
(* one vector per pair (expected status, ordered results, document after). *)
(* The harness replays every vector on the real yqlib.                     *)
(*                                                                         *)
(* Lines:  @@{"t":"e","i":n,"e":expr}   expression table                   *)
(*         @@{"t":"d","i":n,"d":value}  document table                     *)
(*         @@{"t":"v","di":..,"ei":..,"st":..,"res":..,"same":..,"after":..}*)
(***************************************************************************)
EXTENDS Eval, Json

CONSTANTS Level,      \* 1: E1 (every operator on every leaf / pair of leaves)   2: + compositions
          TogEvery,   \* eval-all ("together") mode is generated for every TogEvery-th expression of the shard
          NShards, Shard   \* only expressions with index % NShards = Shard are evaluated

A == <<"a">>  B == <<"b">>  AB == <<"a", "b">>

\* ---- documents
Scalars == << Null, BoolV(TRUE), BoolV(FALSE), IntV(0), IntV(2), IntV(-1), NumV(3, 2), StrV(<<>>), StrV(A), StrV(AB) >>
Small   == << Null, IntV(2), StrV(A), BoolV(FALSE) >>
\* all sequences of length 0..n over the elements of sequence S
RECURSIVE SeqsUpTo(_,_)
SeqsUpTo(S, n) == IF n = 0 THEN << <<>> >> ELSE
   LET shorter == SeqsUpTo(S, n - 1)
       longest == SelectSeq(shorter, LAMBDA t : Len(t) = n - 1)
   IN shorter \o FlatMap(LAMBDA t : [i \in DOMAIN S |-> Append(t, S[i])], longest)
MapsOver(V) == << MapV(<<>>) >> \o [i \in DOMAIN V |-> MapV(<< <<A, V[i]>> >>)] \o [i \in DOMAIN V |-> MapV(<< <<B, V[i]>> >>)]
               \o FlatMap(LAMBDA x : [j \in DOMAIN V |-> MapV(<< <<A, x>>, <<B, V[j]>> >>)], V)
               \o [i \in DOMAIN V |-> MapV(<< <<B, V[i]>>, <<A, V[1]>> >>)]
SeqsOver(V, n) == [i \in DOMAIN SeqsUpTo(V, n) |-> SeqV(SeqsUpTo(V, n)[i])]
V1  == Scalars \o MapsOver(Small) \o SeqsOver(Small, 2)
V1s == << IntV(2), Null, StrV(A), SeqV(<<IntV(2), StrV(A)>>), SeqV(<<>>), MapV(<< <<A, IntV(2)>> >>), MapV(<< <<B, Null>> >>), MapV(<<>>) >>
Curated == <<
   SeqV(<<IntV(2), IntV(0), IntV(2), NumV(3, 2)>>),
   SeqV(<<StrV(AB), StrV(A), StrV(<<>>), StrV(A)>>),
   SeqV(<<MapV(<< <<A, IntV(2)>>, <<B, StrV(A)>> >>), MapV(<< <<A, IntV(0)>> >>), MapV(<< <<A, IntV(2)>>, <<B, Null>> >>)>>),
   SeqV(<<SeqV(<<IntV(2), SeqV(<<IntV(0)>>)>>), SeqV(<<>>), IntV(-1)>>),
   MapV(<< <<A, MapV(<< <<B, IntV(2)>>, <<A, SeqV(<<NumV(3, 2), StrV(A)>>)>> >>)>>, <<B, SeqV(<<MapV(<< <<A, Null>> >>), StrV(AB), SeqV(<<>>), MapV(<<>>)>>)>> >>),
   SeqV(<<Null, BoolV(FALSE), BoolV(TRUE), IntV(-1), StrV(A)>>),
   MapV(<< <<A, SeqV(<<IntV(0), IntV(2), IntV(-1)>>)>>, <<B, IntV(2)>> >>),
   SeqV(<<StrV(<<"a","b","a">>), StrV(<<"b">>)>>),
   \* text beyond ASCII: one atom is one character (length, split, contains, comparison count characters, not bytes)
   StrV(<<"U+E9", "a">>), MapV(<< <<A, StrV(<<"U+E9">>)>>, <<B, SeqV(<<StrV(<<"a", "U+E9", "a">>), StrV(A)>>)>> >>)
>>
DocSeq == V1 \o MapsOver(V1s) \o SeqsOver(V1s, 2) \o Curated

\* ---- expressions
Lits == << ELit(IntV(2)), ELit(IntV(0)), ELit(IntV(-1)), ELit(NumV(3, 2)), ELit(StrV(A)), ELit(StrV(<<>>)), ELit(Null), ELit(BoolV(TRUE)), ELit(BoolV(FALSE)),
           ECollect(EEmpty), ECollect(ELit(IntV(2))), ECollect(EUnion(ELit(StrV(A)), ELit(IntV(2)))) >>
Paths0 == << ESelf, EPath(A), EPath(B), ESplat, EIndex(0), EIndex(1), EIndex(-1), EPipe(EPath(A), ESplat), ERecurse(FALSE) >>
Slices == << ESlice(ELit(IntV(1)), ENul("LENGTH")), ESlice(ELit(IntV(0)), ELit(IntV(1))), ESlice(ELit(IntV(-2)), ENul("LENGTH")),
             ESlice(ELit(IntV(0)), ELit(IntV(-1))), ESlice(ELit(IntV(1)), ELit(IntV(3))), ESlice(ELit(IntV(2)), ELit(IntV(1))),
             ESlice(ELit(IntV(0)), ELit(IntV(-3))), ESlice(ELit(IntV(3)), ENul("LENGTH")) >>
Nullary == << ENul("LENGTH"), ENul("KEYS"), ENul("REVERSE"), ENul("UNIQUE"), EFlatten(-1), EFlatten(1), ENul("ANY"), ENul("ALL"),
              ENul("TO_ENTRIES"), ENul("FROM_ENTRIES"), ENul("NOT"), ERecurse(TRUE),
              ENul("GET_TAG"), ENul("GET_KIND"), ENul("TO_STRING"), ENul("TO_NUMBER"), ENul("PIVOT"),
              ENul("MIN"), ENul("MAX"), EUn("SORT_KEYS", ESelf), EUn("SORT_KEYS", ERecurse(FALSE)), EUn("ERROR", ELit(StrV(A))),
              [op |-> "CHANGE_CASE", upper |-> TRUE], [op |-> "CHANGE_CASE", upper |-> FALSE], ENul("TRIM"),
              EPipe(ELit(StrV(<<" ", "a", "B", " ">>)), ENul("TRIM")), EPipe(ELit(StrV(<<"a", "B", " ">>)), [op |-> "CHANGE_CASE", upper |-> TRUE]),
              EPipe(ERecurse(FALSE), [op |-> "GET_PARENT", level |-> 2]), EPipe(EPath(A), [op |-> "GET_PARENT", level |-> 1]),
              ENul("IS_KEY"), ENul("GET_DOCUMENT_INDEX"), ENul("GET_FILE_INDEX"), ENul("GET_ANCHOR"),
              [op |-> "ENV", name |-> "va", str |-> FALSE], [op |-> "ENV", name |-> "vn", str |-> FALSE], [op |-> "ENV", name |-> "vu", str |-> FALSE],
              [op |-> "ENV", name |-> "vt", str |-> TRUE], [op |-> "ENV", name |-> "vu", str |-> TRUE] >>
PathSlices == << ETravArr(EPath(A), ECollect(EBin("CREATE_MAP", ELit(IntV(1)), ENul("LENGTH")))), ETravArr(EPath(A), ECollect(EBin("CREATE_MAP", ELit(IntV(0)), ELit(IntV(1))))),
                 ETravArr(EPath(A), ECollect(ELit(IntV(0)))), ETravArr(EPath(B), ECollect(EEmpty)) >>
Leaf == Paths0 \o Lits \o Slices \o Nullary \o PathSlices
LeafCore == << ESelf, EPath(A), EPath(B), ESplat, EIndex(0), ELit(IntV(2)), ELit(StrV(A)), ELit(Null), ELit(BoolV(FALSE)), ENul("LENGTH"), ECollect(EEmpty) >>

UnOps == << "SELECT", "MAP", "FILTER", "HAS", "ANY_CONDITION", "ALL_CONDITION", "UNIQUE_BY", "GROUP_BY", "WITH_ENTRIES", "JOIN", "SPLIT", "COLLECT" >>
Un(E) == FlatMap(LAMBDA o : [i \in DOMAIN E |-> IF o = "COLLECT" THEN ECollect(E[i]) ELSE EUn(o, E[i])], UnOps)
BinOps == << "PIPE", "UNION", "ADD", "SUBTRACT", "MULTIPLY", "DIVIDE", "MODULO", "EQUALS", "NOT_EQUALS", "AND", "OR", "ALTERNATIVE" >>
Bin(E, F) == FlatMap(LAMBDA o : FlatMap(LAMBDA l : [j \in DOMAIN F |-> EBin(o, l, F[j])], E), BinOps)
             \o FlatMap(LAMBDA l : [j \in DOMAIN F |-> ECmp(FALSE, FALSE, l, F[j])], E)
             \o FlatMap(LAMBDA l : [j \in DOMAIN F |-> ECmp(TRUE, TRUE, l, F[j])], E)
             \o FlatMap(LAMBDA l : [j \in DOMAIN F |-> ECmp(FALSE, TRUE, l, F[j])], E)
             \o FlatMap(LAMBDA l : [j \in DOMAIN F |-> ECmp(TRUE, FALSE, l, F[j])], E)
             \o FlatMap(LAMBDA l : [j \in DOMAIN F |-> EBin("CONTAINS", ESelf, EPipe(l, F[j]))], <<ESelf>>)
\* contains(x), object construction, variables, reduce: argument shapes of their own
Special(E) == [i \in DOMAIN E |-> EBin("CONTAINS", ESelf, E[i])]
              \o [i \in DOMAIN E |-> EObject(ELit(StrV(A)), E[i])]
              \o [i \in DOMAIN E |-> EObject(E[i], ELit(IntV(2)))]
              \o [i \in DOMAIN E |-> EPipe(EObject(ELit(StrV(A)), E[i]), EObject(ELit(StrV(B)), ESelf))]
              \o [i \in DOMAIN E |-> EAs(E[i], "x", EVar("x"), FALSE)]
              \o [i \in DOMAIN E |-> EAs(E[i], "x", ECollect(EUnion(EVar("x"), ESelf)), FALSE)]
              \o [i \in DOMAIN E |-> EAs(E[i], "x", EAs(ELit(IntV(2)), "x", EVar("x"), FALSE), FALSE)]
              \o [i \in DOMAIN E |-> EAs(E[i], "x", EUnion(EAs(ELit(IntV(0)), "x", EVar("x"), FALSE), EVar("x")), FALSE)]
              \o [i \in DOMAIN E |-> EReduce(E[i], "x", ELit(IntV(0)), EBin("ADD", ESelf, EVar("x")))]
              \o [i \in DOMAIN E |-> EReduce(ESplat, "x", E[i], EBin("ADD", ESelf, EVar("x")))]
              \o [i \in DOMAIN E |-> EReduce(ESplat, "x", ECollect(EEmpty), EBin("ADD", ECollect(EVar("x")), ESelf))]
              \* pick / omit: literal key lists, the probe as the list and inside it
              \o FlatMap(LAMBDA o : [i \in DOMAIN E |-> EUn(o, ECollect(EUnion(ELit(StrV(B)), ELit(StrV(A)))))], <<"PICK", "OMIT">>)
              \o FlatMap(LAMBDA o : [i \in DOMAIN E |-> EPipe(E[i], EUn(o, ECollect(EUnion(ELit(IntV(1)), ELit(IntV(0))))))], <<"PICK", "OMIT">>)
              \o FlatMap(LAMBDA o : [i \in DOMAIN E |-> EUn(o, ECollect(E[i]))], <<"PICK", "OMIT">>)
              \o FlatMap(LAMBDA o : [i \in DOMAIN E |-> EUn(o, E[i])], <<"PICK", "OMIT">>)
              \* setpath / delpaths: the probe as the value, as the path, inside the path
              \o [i \in DOMAIN E |-> EBin("SET_PATH", ECollect(ELit(StrV(A))), E[i])]
              \o [i \in DOMAIN E |-> EBin("SET_PATH", ECollect(EUnion(ELit(StrV(B)), ELit(IntV(1)))), E[i])]
              \o [i \in DOMAIN E |-> EBin("SET_PATH", E[i], ELit(IntV(2)))]
              \o [i \in DOMAIN E |-> EBin("SET_PATH", ECollect(E[i]), ELit(StrV(A)))]
              \o [i \in DOMAIN E |-> EUn("DEL_PATHS", ECollect(ECollect(E[i])))]
              \o [i \in DOMAIN E |-> EUn("DEL_PATHS", ECollect(EUnion(ECollect(ELit(StrV(A))), ECollect(E[i]))))]
              \o [i \in DOMAIN E |-> EUn("DEL_PATHS", E[i])]

E1 == Leaf \o Un(Leaf) \o Bin(Leaf, Leaf) \o Special(Leaf)
\* compositions: every operator applied to the output of every operator; binary operators over multi-result operands
Multi == << EUnion(ESplat, ELit(IntV(2))), EUnion(EPath(A), EPath(B)), EUnion(ELit(StrV(A)), ELit(Null)) >>
E1c == LeafCore \o Un(LeafCore) \o Bin(LeafCore, LeafCore)
E2 == FlatMap(LAMBDA l : [j \in DOMAIN E1c |-> EPipe(l, E1c[j])], Un(LeafCore) \o Nullary \o Slices \o Paths0)
      \o Bin(Multi, LeafCore) \o Bin(LeafCore, Multi) \o Bin(Multi, Multi) \o Un(E1c) \o Special(E1c)

ExprSeq == IF Level = 1 THEN E1 ELSE E1 \o E2

ASSUME \A i \in DOMAIN ExprSeq : i % NShards # Shard \/ PrintT("@@" \o ToJson([t |-> "e", i |-> i, e |-> ExprSeq[i]]))
ASSUME \A i \in DOMAIN DocSeq : PrintT("@@" \o ToJson([t |-> "d", i |-> i, d |-> DocSeq[i]]))
ASSUME PrintT(<<"CARDINALITY", Len(ExprSeq), Len(DocSeq)>>)

VARIABLES di, phase
Init == di \in DOMAIN DocSeq /\ phase = 0
Vec(ei, i, tog) == LET r == IF tog THEN RunTog(ExprSeq[ei], DocSeq[i]) ELSE Run(ExprSeq[ei], DocSeq[i]) IN
   [t |-> "v", di |-> i, ei |-> ei, tog |-> tog, st |-> r.st,
    res |-> IF r.st = "ok" THEN Results(r) ELSE <<>>,
    same |-> r.doc = DocSeq[i],
    after |-> IF r.doc = DocSeq[i] THEN Null ELSE r.doc]
Next == /\ phase = 0 /\ phase' = 1 /\ di' = di
        /\ \A ei \in DOMAIN ExprSeq : ei % NShards # Shard \/ PrintT("@@" \o ToJson(Vec(ei, di, FALSE)))
        /\ \A ei \in DOMAIN ExprSeq : ei % (NShards * TogEvery) # Shard \/ PrintT("@@" \o ToJson(Vec(ei, di, TRUE)))
=============================================================================
