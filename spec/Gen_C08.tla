------------------------------ MODULE Gen_C08 ------------------------------
(***************************************************************************)
(* C08 - conditions, keys and operands are evaluated read-only.            *)
(* The grammar puts every operator of the vocabulary into every operand    *)
(* position (predicate, key expression, argument, both sides of every      *)
(* binary operator) over documents with missing keys, nulls and short      *)
(* arrays (the auto-vivification triggers).  The reference property        *)
(*    ReadOnly(X)  =>  (X as $x | .) yields the document, unchanged        *)
(* is checked by TLC on the reference (Dev = {}) as the invariant          *)
(* RefReadOnly; the vectors carry the expectation for the real code.       *)
(* Operators the evaluator spec does not model (sort_by, pick, ...) are    *)
(* still generated: the property's expectation does not depend on them.    *)
(***************************************************************************)
EXTENDS Eval, Json
CONSTANTS NShards, Shard

A == <<"a">>  B == <<"b">>
DocSeq == <<
  Null, MapV(<<>>), SeqV(<<>>), IntV(2), StrV(A),
  MapV(<< <<A, Null>> >>), MapV(<< <<B, IntV(2)>> >>), MapV(<< <<A, MapV(<<>>)>> >>), MapV(<< <<A, SeqV(<<>>)>> >>),
  MapV(<< <<A, SeqV(<<IntV(2)>>)>>, <<B, Null>> >>), MapV(<< <<A, MapV(<< <<B, Null>> >>)>> >>),
  MapV(<< <<A, SeqV(<<SeqV(<<IntV(2), SeqV(<<IntV(0)>>)>>), IntV(0)>>)>> >>),
  SeqV(<<Null>>), SeqV(<<MapV(<<>>), MapV(<< <<A, IntV(2)>> >>)>>), SeqV(<<SeqV(<<IntV(2)>>), SeqV(<<>>), IntV(0)>>),
  SeqV(<<MapV(<< <<A, IntV(2)>>, <<B, StrV(A)>> >>), MapV(<< <<B, StrV(<<>>)>> >>), Null>>),
  SeqV(<<IntV(2), IntV(0), IntV(2)>>), SeqV(<<StrV(A), Null, StrV(<<"a","b">>)>>)
>>

\* read paths that can vivify
Reads == << ESelf, EPath(A), EPath(B), EPipe(EPath(A), EPath(B)), EPipe(EPath(B), EPath(A)), ESplat, EPipe(EPath(A), ESplat), EPipe(ESplat, EPath(A)),
            EIndex(0), EIndex(2), EIndex(-1), ETravArr(EPath(A), ECollect(ELit(IntV(1)))), ETravArr(EPath(A), ECollect(ELit(IntV(0)))),
            EPipe(ESplat, EIndex(1)), ETravArr(ESelf, ECollect(ELit(StrV(A)))), ETravArr(EPath(A), ECollect(ELit(StrV(B)))),
            ESlice(ELit(IntV(0)), ELit(IntV(1))), ETravArr(EPath(A), ECollect(EBin("CREATE_MAP", ELit(IntV(1)), ENul("LENGTH")))),
            ERecurse(FALSE), ERecurse(TRUE), EPipe(ERecurse(FALSE), EPath(A)) >>
NulOps == << "LENGTH", "KEYS", "REVERSE", "UNIQUE", "ANY", "ALL", "TO_ENTRIES", "NOT", "SORT", "MIN", "MAX", "GET_PATH", "GET_KEY", "GET_PARENT" >>
Nul == [i \in DOMAIN NulOps |-> ENul(NulOps[i])] \o << EFlatten(-1), EFlatten(1), EUn("SORT_KEYS", ERecurse(FALSE)) >>
\* every nullary operator on the output of every read path
Applied == Reads \o FlatMap(LAMBDA r : [j \in DOMAIN Nul |-> EPipe(r, Nul[j])], << ESelf, EPath(A), ESplat, EPipe(EPath(A), ESplat) >>)
UnOps == << "SELECT", "MAP", "FILTER", "HAS", "ANY_CONDITION", "ALL_CONDITION", "UNIQUE_BY", "GROUP_BY", "SORT_BY", "WITH_ENTRIES", "JOIN", "SPLIT", "PICK", "OMIT", "COLLECT" >>
BinOps == << "ADD", "SUBTRACT", "MULTIPLY", "DIVIDE", "MODULO", "EQUALS", "NOT_EQUALS", "AND", "OR", "ALTERNATIVE", "UNION", "PIPE" >>
Lits == << ELit(IntV(2)), ELit(StrV(A)), ELit(Null), ECollect(EEmpty) >>
InPosition(X) ==
     FlatMap(LAMBDA o : [i \in DOMAIN X |-> IF o = "COLLECT" THEN ECollect(X[i]) ELSE EUn(o, X[i])], UnOps)
  \o FlatMap(LAMBDA o : [i \in DOMAIN X |-> EPipe(ESplat, EUn(o, X[i]))], << "SELECT", "HAS", "ANY_CONDITION", "SORT_BY", "UNIQUE_BY", "GROUP_BY" >>)
  \o FlatMap(LAMBDA o : FlatMap(LAMBDA l : [i \in DOMAIN X |-> EBin(o, X[i], l)], Lits), BinOps)
  \o FlatMap(LAMBDA o : FlatMap(LAMBDA l : [i \in DOMAIN X |-> EBin(o, l, X[i])], Lits), BinOps)
  \o FlatMap(LAMBDA l : [i \in DOMAIN X |-> ECmp(FALSE, FALSE, X[i], l)], Lits) \o FlatMap(LAMBDA l : [i \in DOMAIN X |-> ECmp(TRUE, TRUE, l, X[i])], Lits)
  \o [i \in DOMAIN X |-> EBin("CONTAINS", ESelf, X[i])] \o [i \in DOMAIN X |-> EObject(ELit(StrV(A)), X[i])] \o [i \in DOMAIN X |-> EObject(X[i], ELit(IntV(2)))]
  \o [i \in DOMAIN X |-> ETravArr(ESelf, ECollect(X[i]))]
  \o [i \in DOMAIN X |-> EReduce(X[i], "y", ELit(IntV(0)), EBin("ADD", ESelf, ELit(IntV(2))))]
\* variable bindings nested inside the read-only position: the body / the source reads a path that is not there
Nested(X) == [i \in DOMAIN X |-> EAs(ELit(IntV(2)), "k", X[i], FALSE)] \o [i \in DOMAIN X |-> EAs(X[i], "k", EVar("k"), FALSE)]
             \o [i \in DOMAIN X |-> EAs(EPath(B), "k", EBin("EQUALS", X[i], EVar("k")), FALSE)]
             \o [i \in DOMAIN X |-> EAs(ELit(IntV(2)), "k", EBin("ALTERNATIVE", X[i], EVar("k")), FALSE)]
             \o [i \in DOMAIN X |-> EReduce(ESplat, "k", ELit(IntV(0)), EBin("ADD", ESelf, EBin("ALTERNATIVE", X[i], ELit(IntV(0)))))]
Candidates == Applied \o Nested(Reads) \o InPosition(Reads) \o InPosition(FlatMap(LAMBDA r : [j \in DOMAIN Nul |-> EPipe(r, Nul[j])], << EPath(A) >>))
\* the two observables of the statement
ExprSeq == [i \in DOMAIN Candidates |-> EAs(Candidates[i], "x", ESelf, FALSE)]
           \o [i \in DOMAIN Candidates |-> EUn("SELECT", Candidates[i])]
           \o [i \in DOMAIN Candidates |-> EAs(EPipe(ESplat, EUn("SELECT", Candidates[i])), "x", ESelf, FALSE)]

ASSUME \A i \in DOMAIN ExprSeq : i % NShards # Shard \/ PrintT("@@" \o ToJson([t |-> "e", i |-> i, e |-> ExprSeq[i]]))
ASSUME \A i \in DOMAIN DocSeq : PrintT("@@" \o ToJson([t |-> "d", i |-> i, d |-> DocSeq[i]]))
ASSUME PrintT(<<"CARDINALITY", Len(ExprSeq), Len(DocSeq)>>)

VARIABLES di, phase
Init == di \in DOMAIN DocSeq /\ phase = 0
Vec(ei, i) == LET r == Run(ExprSeq[ei], DocSeq[i]) IN
   [t |-> "v", di |-> i, ei |-> ei, tog |-> FALSE, st |-> r.st,
    res |-> IF r.st = "ok" THEN Results(r) ELSE <<>>, same |-> TRUE, after |-> Null]
Next == /\ phase = 0 /\ phase' = 1 /\ di' = di
        /\ \A ei \in DOMAIN ExprSeq : ei % NShards # Shard \/ PrintT("@@" \o ToJson(Vec(ei, di)))

\* The reference never edits the document while evaluating an assignment-free expression
\* (checked with Dev = {}; with the pinned deviations enabled TLC finds the counterexamples).
RefReadOnly == \A ei \in DOMAIN ExprSeq : ei % NShards # Shard \/
                  LET r == Run(ExprSeq[ei], DocSeq[di]) IN r.st # "ok" \/ r.doc = DocSeq[di]
=============================================================================
