----------------------------- MODULE Trace_Json -----------------------------
(* Trace validation for C06: every recorded run of the yq binary is judged by the text machines of JsonText.tla.
   A line: {"err": bool, "out": [code points of stdout], "wants": [tree, ...]}; a tree's leaves carry the SPELLING that
   was fed to yq: {"k":"ytext","t":[..]} a plain YAML scalar, {"k":"jnum","t":[..]} a JSON number, {"k":"str","s":[..]},
   {"k":"null"}, {"k":"bool","b":..}; containers {"k":"seq","e":[..]}, {"k":"map","m":[[key,tree],..]}.
   Verdict: stdout must be a stream of valid JSON texts whose VALUES are the ones the spellings denote, in order;
   a document holding .inf/.nan must be refused.  Prints BAD <line> <verdict>. *)
EXTENDS JsonText, Json
Lines == ndJsonDeserialize("json_pairs.ndjson")
CONSTANT Chunk
VARIABLES c, done
NChunks == (Len(Lines) + Chunk - 1) \div Chunk
Init == c \in 1..NChunks /\ done = FALSE
Next == ~done /\ done' = TRUE /\ c' = c
RECURSIVE Canon(_), Unrep(_)
Canon(t) == CASE t.k = "ytext" -> YamlResolve(t.t)
              [] t.k = "jnum" -> ScanNumber(t.t, 1, FALSE).v
              [] t.k = "str"  -> JStr(t.s)
              [] t.k = "null" -> JNull
              [] t.k = "bool" -> JBool(t.b)
              [] t.k = "seq"  -> JSeq([i \in DOMAIN t.e |-> Canon(t.e[i])])
              [] t.k = "map"  -> JMap([i \in DOMAIN t.m |-> <<t.m[i][1], Canon(t.m[i][2])>>])
Unrep(v) == CASE v.k \in {"inf", "nan"} -> TRUE
              [] v.k = "seq" -> \E i \in DOMAIN v.e : Unrep(v.e[i])
              [] v.k = "map" -> \E i \in DOMAIN v.m : Unrep(v.m[i][2])
              [] OTHER -> FALSE
Verdict(p) ==
  LET wants == [i \in DOMAIN p.wants |-> Canon(p.wants[i])] IN
  IF \E i \in DOMAIN wants : Unrep(wants[i]) THEN (IF p.err THEN "ok" ELSE "value-emitted-for-unrepresentable")
  ELSE IF p.err THEN "error-on-representable"
  ELSE LET r == ParseStream(p.out, 1, <<>>) IN
       IF ~r.ok THEN "invalid-json"
       ELSE IF Len(r.vs) # Len(wants) THEN "document-count"
       ELSE IF r.vs # wants THEN "different-value" ELSE "ok"
FirstDiff(p) == LET wants == [i \in DOMAIN p.wants |-> Canon(p.wants[i])]  r == ParseStream(p.out, 1, <<>>)
                    D == {i \in DOMAIN wants : i > Len(r.vs) \/ r.vs[i] # wants[i]} IN
                IF p.err \/ D = {} THEN 0 ELSE CHOOSE i \in D : \A j \in D : i <= j
Judge == \A i \in ((c - 1) * Chunk + 1)..(IF c * Chunk < Len(Lines) THEN c * Chunk ELSE Len(Lines)) :
            Verdict(Lines[i]) = "ok" \/ PrintT(<<"BAD", i, Verdict(Lines[i]), FirstDiff(Lines[i])>>)
=============================================================================
