---------------------------- MODULE YamlUpdate ----------------------------
(***************************************************************************)
(* C07 - an update touches only what it addresses.                         *)
(*                                                                         *)
(* A target is a path of entry numbers from the root to a value node.      *)
(* Update kinds (applicability depends on the kind of the target node):    *)
(*   "set"     .P = "NEW"             "setmap"  .P = {"n": "NEW"}           *)
(*   "upd"     .P |= "NEW"            "del"     del(.P)                     *)
(*   "append"  .P += ["NEW"] / .P += {"nk": "NEW"}                         *)
(*   "create"  .P.nk = "NEW"    (maps only)                                *)
(*   "concat"  .P |= . + "s"    (string scalars only)                      *)
(*   "delpast" del(.P[7])  "selpast" (.P | select(.[5] == "nope")) = "NEW" *)
(*             updates that address nothing and only READ past the end     *)
(*   "mergeq"  .Q *=? {"k": "NEW", "own": "NEW"} where .Q inherits k        *)
(*             through `<<`: only .Q.own is written, not the anchored map  *)
(*   "mergeinto" .copyk = (.P * {"n": "NEW"}): the merge reads .P, only     *)
(*             .copyk is written                                           *)
(*   "setroot" . = {"n": "NEW"}   "updroot" . |= {...}: the document       *)
(*             header (leading comments, `---`) must survive               *)
(* Apply(u, root, P) is the document afterwards; nodes the update creates  *)
(* or rewrites carry the wildcard style "*" (their presentation is the     *)
(* update's business).  The law of C07: the attribute table of `yq u` is   *)
(* Rows(Apply(...)) up to the wildcards - every row outside the target     *)
(* keeps kind, style, tag, anchor, value, alias target and position -      *)
(* and every comment outside the target subtree is kept, in order          *)
(* (Keep), while no comment is invented.                                   *)
(***************************************************************************)
EXTENDS YamlDoc

Children(n) == IF n.k = "map" THEN [i \in DOMAIN n.es |-> n.es[i].v] ELSE IF n.k = "seq" THEN n.es ELSE <<>>
RECURSIVE NodeAt(_,_), PathsOf(_,_), PutAt(_,_,_), CutAt(_,_)
NodeAt(n, p) == IF p = <<>> THEN n ELSE NodeAt(Children(n)[Head(p)], Tail(p))
PathsOf(n, p) == UNION { {Append(p, i)} \cup PathsOf(Children(n)[i], Append(p, i)) : i \in DOMAIN Children(n) }
SetChild(n, i, c) == IF n.k = "map" THEN [n EXCEPT !.es[i].v = c] ELSE [n EXCEPT !.es[i] = c]
PutAt(n, p, c) == IF p = <<>> THEN c ELSE SetChild(n, Head(p), PutAt(Children(n)[Head(p)], Tail(p), c))
DropAt(seq, i) == SubSeq(seq, 1, i - 1) \o SubSeq(seq, i + 1, Len(seq))
CutAt(n, p) == IF Len(p) = 1 THEN [n EXCEPT !.es = DropAt(@, p[1])] ELSE SetChild(n, Head(p), CutAt(Children(n)[Head(p)], Tail(p)))

\* nodes written by the update: presentation is a wildcard
New(val) == Nd("scalar", "*", <<val>>, val, "*", "*", "", <<>>, "")
NewMap(es, like) == Nd("map", "*", <<>>, "", "*", "*", "", es, "")
NewKey(k) == Nd("scalar", "*", <<k>>, k, "*", "*", "", <<>>, "")

RECURSIVE Wild(_)
Wild(n) == LET w == [n EXCEPT !.st = "*", !.tag = "*", !.anc = "*", !.hc = "", !.lc = "", !.fc = ""] IN
           IF n.k = "map" THEN [w EXCEPT !.es = [i \in DOMAIN n.es |-> [key |-> Wild(n.es[i].key), v |-> Wild(n.es[i].v)]]]
           ELSE IF n.k = "seq" THEN [w EXCEPT !.es = [i \in DOMAIN n.es |-> Wild(n.es[i])]] ELSE w
\* the yq expression addressing a path: .["key"] / .[index]
RECURSIVE PathExpr(_,_)
PathExpr(n, p) == IF p = <<>> THEN ""
                  ELSE (IF n.k = "map" THEN "[\"" \o n.es[Head(p)].key.val \o "\"]" ELSE "[" \o ToString(Head(p) - 1) \o "]") \o PathExpr(Children(n)[Head(p)], Tail(p))
Expr(u, root, p) == LET pe == "." \o PathExpr(root, p) IN
  CASE u = "set"    -> pe \o " = \"NEW\""
    [] u = "setmap" -> pe \o " = {\"n\": \"NEW\"}"
    [] u = "upd"    -> pe \o " |= \"NEW\""
    [] u = "del"    -> "del(" \o pe \o ")"
    [] u = "append" -> IF NodeAt(root, p).k = "seq" THEN pe \o " += [\"NEW\"]" ELSE pe \o " += {\"nk\": \"NEW\"}"
    [] u = "create" -> pe \o ".nk = \"NEW\""
    [] u = "concat" -> pe \o " |= . + \"s\""
    [] u = "delpast" -> "del(" \o pe \o "[7])"                                              \* addresses nothing: reads past the end
    [] u = "selpast" -> "(" \o pe \o " | select(.[5] == \"nope\")) = \"NEW\""               \* the condition reads past the end and is false
    [] u = "setroot" -> ". = {\"n\": \"NEW\"}"
    [] u = "updroot" -> ". |= {\"n\": \"NEW\"}"
    [] u = "copydel" -> ".backup = " \o pe \o " | del(.backup[0]) | del(" \o pe \o "[1])"
    [] u = "mergeq" -> "." \o PathExpr(root, SubSeq(p, 1, Len(p) - 1)) \o " *=? {\"k\": \"NEW\", \"" \o NodeAt(root, SubSeq(p, 1, Len(p) - 1)).es[p[Len(p)]].key.val \o "\": \"NEW\"}"
    [] u = "mergeinto" -> ".copyk = (" \o pe \o " * {\"n\": \"NEW\"})"                      \* the merge READS its operand: only .copyk is written

\* keys on the way must be addressable by their text (an alias used as a key is not)
RECURSIVE Addressable(_,_)
Addressable(n, p) == p = <<>> \/ ((n.k = "map" => n.es[Head(p)].key.k = "scalar" /\ n.es[Head(p)].key.val \notin {"", "<<"}) /\ Addressable(Children(n)[Head(p)], Tail(p)))
\* an anchor inside the target that is used outside it must not be destroyed (that would be the user's error, not yq's)
Parent(root, p) == NodeAt(root, SubSeq(p, 1, Len(p) - 1))
KeyAnchors(root, p) == IF Parent(root, p).k = "map" THEN Anchors(Parent(root, p).es[p[Len(p)]].key) ELSE <<>>
AnchorsEscaping(root, p) == LET inside == Anchors(NodeAt(root, p)) \o KeyAnchors(root, p)
                                after == AliasTargets(PutAt(root, p, Plain("x")))
                            IN \E i \in DOMAIN inside : \E j \in DOMAIN after : inside[i] = after[j]
CanApply(u, root, p) ==
  LET x == NodeAt(root, p) IN
  /\ Addressable(root, p)
  /\ CASE u \in {"set", "upd"} -> ~(x.k \in {"map", "seq"} /\ AnchorsEscaping(root, p))
       [] u = "setmap" -> ~AnchorsEscaping(root, p) /\ x.k # "alias"
       [] u = "del"    -> ~AnchorsEscaping(root, p)
       [] u = "append" -> x.k \in {"map", "seq"}
       [] u = "create" -> x.k = "map" /\ \A i \in DOMAIN x.es : x.es[i].key.val # "nk"
       [] u = "concat" -> x.k = "scalar" /\ x.tag = "" /\ x.st \in {"single", "double"}
       \* a history: copy a sequence, prune the copy, prune the original (the copy must not share anything with the original)
       [] u \in {"delpast", "selpast"} -> x.k = "seq"
       [] u \in {"setroot", "updroot"} -> p = <<1>> /\ root.k \in {"map", "seq"}          \* once per document (the target is the root itself)
       \* `*=?` only writes keys the map has ITSELF: a key it merely inherits through `<<` is not the map's to write
       [] u = "mergeq" -> p # <<>> /\ x.k = "scalar" /\ Parent(root, p).k = "map" /\ (\E i \in DOMAIN Parent(root, p).es : Parent(root, p).es[i].key.val = "<<" /\ Parent(root, p).es[i].v.k = "alias")
       [] u = "mergeinto" -> x.k = "map" /\ root.k = "map" /\ p # <<>> /\ (\A i \in DOMAIN root.es : root.es[i].key.val # "copyk") /\ (\A i \in DOMAIN x.es : x.es[i].key.val # "n")
                             /\ AliasTargets(x) = <<>>
       [] u = "copydel" -> x.k = "seq" /\ Len(x.es) >= 2 /\ root.k = "map" /\ (\A i \in DOMAIN root.es : root.es[i].key.val # "backup")
Apply(u, root, p) ==
  LET x == NodeAt(root, p) IN
  CASE u \in {"set", "upd", "mergeq"} -> PutAt(root, p, New("NEW"))
    [] u = "setmap" -> PutAt(root, p, NewMap(<<[key |-> NewKey("n"), v |-> New("NEW")]>>, x))
    [] u = "del"    -> LET par == Parent(root, p)  pp == SubSeq(p, 1, Len(p) - 1) IN
                       IF Len(par.es) = 1 THEN PutAt(root, pp, [par EXCEPT !.es = <<>>, !.st = "*"])     \* an emptied collection is written `{}` / `[]`
                       ELSE CutAt(root, p)
    \* a collection that was empty (`{}` / `[]`) cannot stay in that spelling
    [] u = "append" -> IF x.k = "seq" THEN PutAt(root, p, [x EXCEPT !.es = Append(@, New("NEW")), !.st = IF x.es = <<>> THEN "*" ELSE @])
                       ELSE PutAt(root, p, [x EXCEPT !.es = Append(@, [key |-> NewKey("nk"), v |-> New("NEW")]), !.st = IF x.es = <<>> THEN "*" ELSE @])
    [] u = "create" -> PutAt(root, p, [x EXCEPT !.es = Append(@, [key |-> NewKey("nk"), v |-> New("NEW")]), !.st = IF x.es = <<>> THEN "*" ELSE @])
    [] u = "concat" -> PutAt(root, p, [x EXCEPT !.val = "*", !.st = "*"])
    [] u \in {"delpast", "selpast"} -> root                                             \* nothing is addressed: nothing changes
    [] u \in {"setroot", "updroot"} -> NewMap(<<[key |-> NewKey("n"), v |-> New("NEW")]>>, root)
    [] u = "mergeinto" -> [root EXCEPT !.es = Append(@, [key |-> NewKey("copyk"), v |-> Wild([x EXCEPT !.es = Append(@, [key |-> NewKey("n"), v |-> New("NEW")])])])]
    [] u = "copydel" -> LET pruned == PutAt(root, p, [x EXCEPT !.es = DropAt(@, 2)]) IN
                        [pruned EXCEPT !.es = Append(@, [key |-> NewKey("backup"), v |-> Wild([x EXCEPT !.es = Tail(@)])])]
\* comments that must survive: everything outside the target subtree
\* Adjacent comments are not attributable: the line comment behind the header of a block collection sits on the line above
\* its first child, the foot comment of the document sits below its last node.  Both are left open when the target is that child.
RECURSIVE BlankAdjacent(_,_)
BlankAdjacent(n, p) == IF p = <<>> THEN n
                       ELSE LET c == SetChild(n, Head(p), BlankAdjacent(Children(n)[Head(p)], Tail(p))) IN
                            IF Head(p) = 1 /\ IsBlockColl(n) THEN [c EXCEPT !.lc = ""] ELSE c
RECURSIVE IsLastNode(_,_)
IsLastNode(n, p) == p = <<>> \/ (Head(p) = Len(Children(n)) /\ IsLastNode(Children(n)[Head(p)], Tail(p)))
FootOpen(u, root, p) == u \in {"copydel", "mergeinto", "setroot", "updroot"} \/ (u \notin {"append", "create", "delpast", "selpast"} /\ IsLastNode(root, p))
Keep(u, root, p) == IF u \in {"delpast", "selpast", "mergeinto"} THEN NodeComments(root)
                    ELSE IF u \in {"setroot", "updroot"} THEN <<>>                    \* the document's own header is added by the generator
                    ELSE IF u = "copydel" THEN NodeComments(PutAt(root, p, [NodeAt(root, p) EXCEPT !.es = DropAt(@, 2), !.hc = "", !.lc = "", !.fc = ""]))
                    ELSE IF u \in {"append", "create"} THEN NodeComments(PutAt(root, p, [NodeAt(root, p) EXCEPT !.hc = "", !.lc = "", !.fc = ""]))   \* the target's own comments are open, its children's are not
                    ELSE NodeComments(BlankAdjacent(PutAt(root, p, Plain("x")), p))
Updates == {"set", "setmap", "upd", "del", "append", "create", "concat", "copydel", "mergeinto", "mergeq", "delpast", "selpast", "setroot", "updroot"}

\* laws of the specification itself
FrameLaw(u, root, p) == u \in {"copydel", "mergeinto", "setroot", "updroot"} \/          \* every value path that is not below, at or (for del in a sequence) after the target denotes the same node afterwards
  LET after == Apply(u, root, p) IN
  \A q \in PathsOf(root, <<>>) :
     (Len(q) < Len(p) \/ SubSeq(q, 1, Len(p) - 1) # SubSeq(p, 1, Len(p) - 1) \/ q[Len(p)] < p[Len(p)]) /\ ~IsPrefix(q, p)
        => (q \in PathsOf(after, <<>>) /\ [NodeAt(after, q) EXCEPT !.es = <<>>] = [NodeAt(root, q) EXCEPT !.es = <<>>])
=============================================================================
