---------------------------- MODULE Trace_Order ----------------------------
(* C15, code -> model: recorded outcomes of sort and of the comparison operators on sequences that MIX numbers and
   strings.  The statement does not fix where a string stands relative to a number, so the position is a hidden
   variable: TLC must find ONE rank function on the values of the trace that respects everything the statement
   fixes and explains every recorded outcome (sort outputs as stable sorts, defined comparisons).  A trace no rank
   function explains is printed as BAD. *)
EXTENDS Order, Json
Traces == ndJsonDeserialize("order_traces.ndjson")
VARIABLES tr, done
Init == tr \in DOMAIN Traces /\ done = FALSE
Next == ~done /\ done' = TRUE /\ tr' = tr
Sgn(x) == IF x < 0 THEN -1 ELSE IF x > 0 THEN 1 ELSE 0
Explains(t, r) ==
  LET n == Len(t.u) IN
  /\ \A i, j \in 1..n : CmpFixed(t.u[i], t.u[j]) = 2 \/ Sgn(r[i] - r[j]) = CmpFixed(t.u[i], t.u[j])
  /\ \A k \in DOMAIN t.sorts :
        t.sorts[k].out = SortBy(t.sorts[k].inp, LAMBDA x : x, LAMBDA a, b : r[a] <= r[b])
  /\ \A k \in DOMAIN t.cmps : LET c == t.cmps[k] IN
        c.res = "err" \/ CmpFixed(t.u[c.i], t.u[c.j]) # 2 \/
        (c.res = "true") = (CASE c.op = "lt" -> r[c.i] < r[c.j] [] c.op = "le" -> r[c.i] <= r[c.j] [] c.op = "gt" -> r[c.i] > r[c.j] [] OTHER -> r[c.i] >= r[c.j])
Judge == LET t == Traces[tr]  n == Len(t.u) IN
         (\E r \in [1..n -> 1..n] : Explains(t, r)) \/ PrintT(<<"BAD", tr>>)
=============================================================================
