----------------------------- MODULE Gen_Assign -----------------------------
(* C02 - assignment laws.  Paths (existing, to be auto-created, negative indices, splats, multi-match selections) x
   replacement values / update expressions x documents.  The laws put-get, get-put, put-put and frame are checked by
   TLC on the reference evaluator; every expression is replayed on yqlib (results and document afterwards). *)
EXTENDS Eval, Json, Docs
CONSTANTS NShards, Shard,
          Big      \* TRUE: the systematic document space of Docs.tla is added (thorough tier)
A == <<"a">>  B == <<"b">>  C == <<"c">>
BaseDocs == <<
  MapV(<<>>), Null,
  MapV(<< <<A, IntV(1)>>, <<B, MapV(<< <<A, IntV(2)>>, <<B, SeqV(<<IntV(0), IntV(2), StrV(A)>>)>> >>)>> >>),
  MapV(<< <<A, SeqV(<<IntV(1), IntV(2), IntV(3)>>)>>, <<B, StrV(A)>> >>),
  MapV(<< <<A, MapV(<< <<B, MapV(<< <<C, IntV(1)>> >>)>> >>)>>, <<C, Null>> >>),
  MapV(<< <<A, SeqV(<<MapV(<< <<A, IntV(1)>> >>), MapV(<< <<A, IntV(2)>>, <<B, IntV(0)>> >>)>>)>>, <<B, SeqV(<<>>)>> >>),
  SeqV(<<IntV(1), SeqV(<<IntV(2), IntV(0)>>), MapV(<< <<A, IntV(2)>> >>)>>),
  MapV(<< <<A, MapV(<<>>)>>, <<B, SeqV(<<Null>>)>> >>)
>>
DocSeq == IF Big THEN BaseDocs \o MoreDocs ELSE BaseDocs
Idx(l, i) == ETravArr(l, ECollect(ELit(IntV(i))))
\* addressable paths
Paths1 == << EPath(A), EPath(B), EPath(C), EPipe(EPath(A), EPath(B)), EPipe(EPath(B), EPath(A)), EPipe(EPath(A), EPipe(EPath(B), EPath(C))),
             EPipe(EPath(C), EPipe(EPath(A), EPath(B))), Idx(EPath(A), 0), Idx(EPath(A), 2), Idx(EPath(A), -1), Idx(EPath(A), 4), Idx(EPath(C), 1),
             EPipe(EPath(B), Idx(EPath(B), 1)), EIndex(1), EIndex(-1), EPipe(EIndex(1), EIndex(0)), EPipe(Idx(EPath(A), 1), EPath(B)),
             EPipe(EPath(A), ESplat), EPipe(EPipe(EPath(A), ESplat), EPath(A)), ESplat,
             EPipe(EPipe(EPath(A), ESplat), EUn("SELECT", EBin("EQUALS", ESelf, ELit(IntV(2))))),
             EPipe(ERecurse(FALSE), EUn("SELECT", EBin("EQUALS", ESelf, ELit(IntV(2))))),
             ETravArr(EPath(A), ECollect(EUnion(ELit(IntV(0)), ELit(IntV(2))))),
             ETravArr(EPath(A), ECollect(EUnion(ELit(IntV(1)), ELit(IntV(3))))), ETravArr(EPath(A), ECollect(EUnion(ELit(IntV(4)), ELit(IntV(-1))))),
             ETravArr(EPath(C), ECollect(EUnion(ELit(IntV(1)), ELit(IntV(0))))) >>
Vals1 == << ELit(IntV(7)), ELit(StrV(B)), ELit(Null), ECollect(ELit(IntV(7))), EObject(ELit(StrV(C)), ELit(IntV(7))), EPath(B), EPipe(EPath(A), EPath(B)), EPath(A), ESelf >>
Upd1 == << EBin("ADD", ESelf, ELit(IntV(1))), ECollect(ESelf), ELit(StrV(C)), ENul("LENGTH"), EBin("ADD", ESelf, ESelf), EUnion(ELit(IntV(7)), ELit(IntV(0))), EUn("SELECT", ELit(BoolV(FALSE))),
           EBin("MULTIPLY", ESelf, ELit(IntV(2))), EPath(A) >>
Cmp1 == << ELit(IntV(1)), ELit(StrV(B)), ECollect(ELit(IntV(7))), EPath(B), ELit(NumV(3, 2)), EObject(ELit(StrV(C)), ELit(IntV(7))) >>
LitSeq(xs) == ECollect(FoldLeft(LAMBDA acc, x : IF acc.op = "EMPTY" THEN x ELSE EUnion(acc, x), EEmpty, xs))
PathVals == << LitSeq(<<ELit(StrV(A))>>), LitSeq(<<ELit(StrV(A)), ELit(StrV(B))>>), LitSeq(<<ELit(StrV(C)), ELit(IntV(1))>>), LitSeq(<<ELit(StrV(B)), ELit(StrV(B)), ELit(IntV(0))>>),
              LitSeq(<<ELit(StrV(A)), ELit(IntV(-1))>>), LitSeq(<<ELit(IntV(1))>>), ECollect(EEmpty),
              \* a path is data: `*` in it is a character, the key "a*" is not the keys a and ab
              LitSeq(<<ELit(StrV(<<"a", "*">>))>>), LitSeq(<<ELit(StrV(<<"*">>)), ELit(StrV(A))>>) >>
SetVals == << ELit(IntV(7)), ECollect(ELit(IntV(7))), EPath(B), EPipe(EPath(C), EPath(A)), EBin("ALTERNATIVE", EPipe(EPath(C), EPath(B)), ELit(IntV(0))), EBin("ALTERNATIVE", Idx(EPath(A), 5), ELit(StrV(B))),
             EBin("EQUALS", EPipe(EPath(C), EPath(C)), ELit(Null)), ENul("LENGTH") >>
Builders == << ENul("KEYS"), EBin("SUBTRACT", ESelf, ECollect(ELit(IntV(2)))), ENul("REVERSE"), ENul("SORT"), EUn("SORT_BY", EPath(A)), ENul("UNIQUE"), EUn("UNIQUE_BY", EPath(A)), EUn("GROUP_BY", EPath(A)),
              ESlice(ELit(IntV(0)), ELit(IntV(2))), EUn("MAP", ESelf), EUn("FILTER", ELit(BoolV(TRUE))), ECollect(ESplat), EBin("ADD", ESelf, ESelf), EBin("ADD", ESelf, ECollect(ELit(IntV(7)))), EFlatten(1),
              ENul("TO_ENTRIES"), EUn("WITH_ENTRIES", ESelf), EUn("MAP_VALUES", ESelf), EUn("PICK", ECollect(EUnion(ELit(StrV(A)), ELit(IntV(0))))), EUn("OMIT", ECollect(ELit(StrV(C)))),
              EBin("MULTIPLY", ESelf, EObject(ELit(StrV(C)), ELit(IntV(1)))), EObject(ELit(StrV(A)), ESelf), EBin("ALTERNATIVE", ESelf, ELit(IntV(0))), EPipe(ESelf, ENul("PIVOT")) >>
Assigns == FlatMap(LAMBDA p : [i \in DOMAIN Vals1 |-> EAssign(p, Vals1[i])], Paths1)
ExprSeq ==
     Assigns
  \o FlatMap(LAMBDA p : [i \in DOMAIN Vals1 |-> EPipe(EAssign(p, Vals1[i]), p)], Paths1)                                   \* put-get
  \o [i \in DOMAIN Paths1 |-> EAssign(Paths1[i], Paths1[i])]                                                            \* get-put
  \o FlatMap(LAMBDA p : [i \in 1..3 |-> EPipe(EAssign(p, Vals1[i]), EAssign(p, Vals1[i + 1]))], Paths1)                   \* put-put
  \o FlatMap(LAMBDA p : [i \in DOMAIN Upd1 |-> EUpdate(p, Upd1[i])], Paths1)                                              \* |=
  \o FlatMap(LAMBDA p : FlatMap(LAMBDA o : [i \in DOMAIN Cmp1 |-> EBin(o, p, Cmp1[i])], <<"ADD_ASSIGN", "SUBTRACT_ASSIGN", "MULTIPLY_ASSIGN">>), Paths1)   \* op=
  \* no aliasing: the copy must not share nodes with its source
  \o << EPipe(EAssign(EPath(C), EPath(A)), EPipe(EAssign(EPipe(EPath(A), EPath(B)), ELit(IntV(9))), EPath(C))),
        EPipe(EAssign(EPath(C), EPath(A)), EPipe(EAssign(EPipe(EPath(C), EPath(B)), ELit(IntV(9))), EPath(A))),
        EPipe(EAssign(EPath(C), EPath(B)), EPipe(EAssign(Idx(EPath(B), 0), ELit(IntV(9))), EPath(C))),
        EPipe(EAs(ECollect(ELit(IntV(7))), "v", EPipe(EAssign(EPath(A), EVar("v")), EPipe(EAssign(EPath(B), EVar("v")), EAssign(Idx(EPath(A), 0), ELit(IntV(9))))), FALSE), ESelf),
        EPipe(EUpdate(EPath(C), EPipe(ESelf, EPath(A))), ESelf),
        \* assignment under several context nodes: both sides are relative to each node
        EPipe(EPipe(EPath(A), ESplat), EAssign(EPath(A), EPath(B))), EPipe(ESplat, EAssign(EPath(A), EPath(A))), EPipe(EPipe(EPath(A), ESplat), EAssign(EPath(B), ENul("LENGTH"))),
        ECollect(EPipe(EPipe(EPath(A), ESplat), EPipe(EAssign(EPath(C), EPath(A)), EPath(C)))), EPipe(EPipe(EPath(A), ESplat), EBin("ADD_ASSIGN", EPath(A), EPath(A))),
        \* compound assignment under several context nodes: `.a[] | (.a += .b)` adds every element's OWN .b
        EPipe(EPipe(EPath(A), ESplat), EBin("ADD_ASSIGN", EPath(A), EPath(B))), EPipe(EPipe(EPath(A), ESplat), EBin("SUBTRACT_ASSIGN", EPath(A), EPath(A))),
        EPipe(EPipe(EPath(A), ESplat), EBin("MULTIPLY_ASSIGN", EPath(A), EBin("ALTERNATIVE", EPath(B), ELit(IntV(3))))), EPipe(ESplat, EBin("ADD_ASSIGN", EPath(A), ELit(IntV(1)))),
        EPipe(ESplat, EBin("ADD_ASSIGN", EIndex(0), EIndex(1))), EPipe(EUnion(EPath(B), EPath(A)), EBin("ADD_ASSIGN", EIndex(0), ENul("LENGTH"))) >>
  \* with(p; u): the path is created like the left side of an assignment; `with(p; . = v)` is `p = v`
  \o FlatMap(LAMBDA p : [i \in 1..4 |-> EWith(p, EAssign(ESelf, Vals1[i]))], Paths1)
  \o FlatMap(LAMBDA p : [i \in 1..3 |-> EWith(p, EUpdate(ESelf, Upd1[i]))], Paths1)
  \o [i \in DOMAIN Paths1 |-> EWith(Paths1[i], EBin("ADD_ASSIGN", ESelf, ELit(IntV(1))))]
  \o [i \in DOMAIN Paths1 |-> EPipe(EWith(Paths1[i], EAssign(EPath(C), ELit(IntV(7)))), Paths1[i])]
  \* no aliasing: a value BUILT by an operator shares nothing with the document - assigning into it leaves the document alone
  \o FlatMap(LAMBDA f : << EAssign(EPipe(EPipe(EPath(A), f), EIndex(0)), ELit(IntV(9))), EAssign(EPipe(f, EIndex(0)), ELit(IntV(9))),
                            EAssign(EPipe(EPipe(EPath(B), f), EPath(A)), ELit(IntV(9))), EAssign(EPipe(f, EPipe(ESplat, EPath(A))), ELit(IntV(9))) >>, Builders)
  \* setpath / delpaths: the path as a value; the VALUE of setpath reads paths that may be missing (it must not create them)
  \o FlatMap(LAMBDA pv : [i \in DOMAIN SetVals |-> EBin("SET_PATH", pv, SetVals[i])], PathVals)
  \o FlatMap(LAMBDA pv : [i \in DOMAIN SetVals |-> EPipe(EBin("SET_PATH", pv, SetVals[i]), EBin("SET_PATH", pv, ELit(IntV(7))))], PathVals)
  \o [i \in DOMAIN PathVals |-> EUn("DEL_PATHS", ECollect(PathVals[i]))]
  \o [i \in DOMAIN PathVals |-> EPipe(ESplat, EBin("SET_PATH", PathVals[i], EBin("ALTERNATIVE", EPipe(EPath(C), EPath(B)), ELit(IntV(0)))))]

ASSUME \A i \in DOMAIN ExprSeq : i % NShards # Shard \/ PrintT("@@" \o ToJson([t |-> "e", i |-> i, e |-> ExprSeq[i]]))
ASSUME \A i \in DOMAIN DocSeq : PrintT("@@" \o ToJson([t |-> "d", i |-> i, d |-> DocSeq[i]]))
VARIABLES di, phase
Init == di \in DOMAIN DocSeq /\ phase = 0
Vec(ei, i) == LET r == Run(ExprSeq[ei], DocSeq[i]) IN
   [t |-> "v", di |-> i, ei |-> ei, tog |-> FALSE, st |-> r.st, res |-> IF r.st = "ok" THEN Results(r) ELSE <<>>,
    same |-> r.doc = DocSeq[i], after |-> IF r.doc = DocSeq[i] THEN Null ELSE r.doc]
Next == /\ phase = 0 /\ phase' = 1 /\ di' = di
        /\ \A ei \in DOMAIN ExprSeq : ei % NShards # Shard \/ PrintT("@@" \o ToJson(Vec(ei, di)))

\* ---- the update laws on the reference evaluator (single-match, value-literal instances)
D == DocSeq[di]
Lits == {1, 2, 3}     \* indices of Vals1 that are literals
PlainIdx == (DOMAIN Paths1) \ {21, 22}   \* paths proper: not selections that depend on the values they replace
PutGet == phase = 1 => \A pi \in PlainIdx : \A vi \in Lits :
   LET r == Run(EPipe(EAssign(Paths1[pi], Vals1[vi]), Paths1[pi]), D) IN
   r.st # "ok" \/ \A j \in DOMAIN r.ctx : VEq(ValOf(r.doc, r.ctx[j]), Vals1[vi].v)
GetPut == phase = 1 => \A pi \in DOMAIN Paths1 :
   LET rd == Ev(Paths1[pi], RO(St(D, <<InDoc(<<>>)>>, TRUE)))                \* does the path exist (read-only probe)?
       r == Run(EAssign(Paths1[pi], Paths1[pi]), D) IN
   rd.st # "ok" \/ rd.ctx = <<>> \/ r.st # "ok" \/ Len(rd.ctx) > 1 \/ Len(Run(Paths1[pi], D).ctx) # 1 \/ r.doc = D   \* p exists entirely
PutPut == phase = 1 => \A pi \in PlainIdx :
   LET r2 == Run(EPipe(EAssign(Paths1[pi], Vals1[1]), EAssign(Paths1[pi], Vals1[2])), D)
       r1 == Run(EAssign(Paths1[pi], Vals1[2]), D) IN
   r1.st # "ok" \/ r2.st # "ok" \/ r1.doc = r2.doc
\* with(p; . = v) is p = v
WithLaw == phase = 1 => \A pi \in DOMAIN Paths1 : \A vi \in Lits :
   LET a == Run(EAssign(Paths1[pi], Vals1[vi]), D)
       w == Run(EWith(Paths1[pi], EAssign(ESelf, Vals1[vi])), D) IN
   a.st # "ok" \/ w.st # "ok" \/ a.doc = w.doc
\* frame: every path that is neither a prefix nor an extension of an assigned position reads the same before and after
Frame == phase = 1 => \A pi \in DOMAIN Paths1 :
   LET L == Run(Paths1[pi], D)                                              \* the positions the path addresses (after auto-creation)
       r == Run(EAssign(Paths1[pi], Vals1[1]), D) IN
   L.st # "ok" \/ r.st # "ok" \/ L.ctx = <<>> \/          \* (a path that matches nothing still creates its prefix)
   \A q \in {Paths(D)[x] : x \in DOMAIN Paths(D)} :
      (\A j \in DOMAIN L.ctx : L.ctx[j].in /\ Unrelated(L.ctx[j].p, q)) => Exists(r.doc, q) /\ Get(r.doc, q) = Get(D, q)
=============================================================================
