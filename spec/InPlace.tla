------------------------------ MODULE InPlace ------------------------------
(***************************************************************************)
(* C12 - the write-in-place protocol of `yq -i EXPR file` with faults and  *)
(* crashes.  One action per file-system step (= one system call of the     *)
(* unmodified binary), each with an `ok` and a `fail` outcome; `Crash`     *)
(* (SIGKILL at a step boundary) is enabled in every non-final state.       *)
(*                                                                         *)
(*   target.content \in {"Old","New","Trunc"}   Trunc: truncated / partial *)
(*   temp = [exists, full]                                                 *)
(*   eval \in {"ok","parsefail","decodefail","evalfail","encodefail",      *)
(*             "nomatch"}      what the (expression, content) pair does    *)
(*                                                                         *)
(* Named deviation of the pinned implementation (known finding):           *)
(*   "truncating-fallback"  when rename fails the target is opened with    *)
(*   O_TRUNC and the temporary file copied over it (CreateDstTruncate);    *)
(*   a failed copy or a crash in between leaves a truncated target.        *)
(* With Dev = {} (reference) a failed rename simply fails the command.     *)
(***************************************************************************)
EXTENDS Integers, Sequences, TLC

CONSTANTS Dev, MaxFaults, GenHist   \* GenHist: keep the history variable (vector generation) or not (model checking)

VARIABLES pc, target, temp, eval, exit, alive, faults, hist
vars == <<pc, target, temp, eval, exit, alive, faults, hist>>

EvalKinds == {"ok", "okempty", "parsefail", "decodefail", "evalfail", "encodefail", "nomatch"}
\* okempty: the evaluation succeeds and has no result - nothing is written, the (empty) temporary file IS the complete new content

Init == /\ pc = "CreateTemp" /\ target = [content |-> "Old", mode |-> "orig"]
        /\ temp = [exists |-> FALSE, full |-> FALSE, mode |-> "0600"]
        /\ eval \in EvalKinds /\ exit = -1 /\ alive = TRUE /\ faults = 0 /\ hist = <<>>

Log(step, res) == hist' = IF GenHist THEN Append(hist, [step |-> step, res |-> res]) ELSE hist
CanFail == faults < MaxFaults
Stay == UNCHANGED <<eval, alive>>

\* an error returned BEFORE the deferred finaliser is registered, or any evaluation error: the finaliser does not run,
\* the temporary file is leaked, the target is not touched, exit status 1
Abort(step) == /\ CanFail /\ faults' = faults + 1 /\ Log(step, "fail") /\ pc' = "Done" /\ exit' = 1 /\ UNCHANGED <<target, temp>>

CreateTemp == /\ alive /\ pc = "CreateTemp" /\ Stay
              /\ \/ (temp' = [temp EXCEPT !.exists = TRUE] /\ pc' = "StatTarget" /\ Log("CreateTemp", "ok") /\ UNCHANGED <<target, exit, faults>>)
                 \/ Abort("CreateTemp")
StatTarget == /\ alive /\ pc = "StatTarget" /\ Stay
              /\ \/ (pc' = "ChmodTemp" /\ Log("StatTarget", "ok") /\ UNCHANGED <<target, temp, exit, faults>>)
                 \/ Abort("StatTarget")
ChmodTemp  == /\ alive /\ pc = "ChmodTemp" /\ Stay
              /\ \/ (temp' = [temp EXCEPT !.mode = target.mode] /\ pc' = "ChownTemp" /\ Log("ChmodTemp", "ok") /\ UNCHANGED <<target, exit, faults>>)
                 \/ Abort("ChmodTemp")
\* a failing chown is ignored by design (snap confinement)
ChownTemp  == /\ alive /\ pc = "ChownTemp" /\ Stay /\ pc' = "Evaluate" /\ UNCHANGED <<target, temp, exit>>
              /\ \/ (Log("ChownTemp", "ok") /\ UNCHANGED faults)
                 \/ (CanFail /\ faults' = faults + 1 /\ Log("ChownTemp", "fail"))
\* parse, decode, evaluate, encode: decided by the (expression, content) pair.  The implementation is a loop
\* decode -> evaluate -> print per document, so a decode/evaluation/encode failure on a LATER document happens after
\* the results of the earlier documents were written to the temporary file (LateFailures); a parse failure never does.
LateFailures == {"decodefail", "evalfail", "encodefail"}
Evaluate   == /\ alive /\ pc = "Evaluate" /\ Stay /\ UNCHANGED <<target, faults>>
              /\ \/ (eval \in {"ok", "nomatch"} /\ pc' = "Write" /\ UNCHANGED <<exit, temp>> /\ Log("Evaluate", "ok"))
                 \/ (eval = "okempty" /\ temp' = [temp EXCEPT !.full = TRUE] /\ pc' = "ExitCheck" /\ UNCHANGED exit /\ Log("Evaluate", "ok"))
                 \/ (eval \notin {"ok", "okempty", "nomatch"} /\ pc' = "Done" /\ exit' = 1 /\ UNCHANGED temp /\ Log("Evaluate", eval))
                 \/ (eval \in LateFailures /\ pc' = "Write" /\ UNCHANGED <<exit, temp>> /\ Log("Evaluate", "ok"))
\* the encoded results are written (and flushed) to the temporary file
Write      == /\ alive /\ pc = "Write" /\ Stay /\ UNCHANGED target
              /\ \/ (temp' = [temp EXCEPT !.full = TRUE] /\ pc' = "ExitCheck" /\ Log("Write", "ok") /\ UNCHANGED <<exit, faults>>)
                 \/ (CanFail /\ faults' = faults + 1 /\ Log("Write", "fail") /\ pc' = "Done" /\ exit' = 1 /\ UNCHANGED temp)
\* -e and nothing truthy printed: an error AFTER successful evaluation; the finaliser is skipped
ExitCheck  == /\ alive /\ pc = "ExitCheck" /\ Stay /\ UNCHANGED <<target, temp, faults>>
              /\ IF eval = "nomatch" THEN pc' = "Done" /\ exit' = 1 /\ Log("ExitCheck", "nomatch")
                 ELSE IF eval \in LateFailures THEN pc' = "Done" /\ exit' = 1 /\ Log("ExitCheck", eval)     \* failure on a later document
                 ELSE pc' = "CloseTemp" /\ UNCHANGED exit /\ Log("ExitCheck", "ok")
\* a failing close is only logged
CloseTemp  == /\ alive /\ pc = "CloseTemp" /\ Stay /\ pc' = "Rename" /\ UNCHANGED <<target, temp, exit>>
              /\ \/ (Log("CloseTemp", "ok") /\ UNCHANGED faults)
                 \/ (CanFail /\ faults' = faults + 1 /\ Log("CloseTemp", "fail"))
Rename     == /\ alive /\ pc = "Rename" /\ Stay
              /\ \/ (target' = [content |-> "New", mode |-> temp.mode] /\ temp' = [temp EXCEPT !.exists = FALSE]
                     /\ pc' = "Done" /\ exit' = 0 /\ Log("Rename", "ok") /\ UNCHANGED faults)
                 \/ (CanFail /\ faults' = faults + 1 /\ Log("Rename", "fail") /\ UNCHANGED <<target, temp>>
                     /\ IF "truncating-fallback" \in Dev THEN pc' = "OpenSrc" /\ UNCHANGED exit
                        ELSE pc' = "Done" /\ exit' = 1)                       \* reference: a failed rename fails the command
\* ---- the fallback (deviation): copy the temporary file over the target
CopyFail(step) == /\ CanFail /\ faults' = faults + 1 /\ Log(step, "fail") /\ pc' = "Done" /\ exit' = 1 /\ UNCHANGED <<target, temp>>
OpenSrc    == /\ alive /\ pc = "OpenSrc" /\ Stay
              /\ \/ (pc' = "CreateDstTruncate" /\ Log("OpenSrc", "ok") /\ UNCHANGED <<target, temp, exit, faults>>) \/ CopyFail("OpenSrc")
CreateDstTruncate ==
              /\ alive /\ pc = "CreateDstTruncate" /\ Stay
              /\ \/ (target' = [target EXCEPT !.content = IF eval = "okempty" THEN "New" ELSE "Trunc"] /\ pc' = "Copy"      \* (an empty file is the complete new content when nothing was printed)
                     /\ Log("CreateDstTruncate", "ok") /\ UNCHANGED <<temp, exit, faults>>)
                 \/ CopyFail("CreateDstTruncate")
Copy       == /\ alive /\ pc = "Copy" /\ Stay
              /\ \/ (target' = [target EXCEPT !.content = "New"] /\ pc' = "Sync" /\ Log("Copy", "ok") /\ UNCHANGED <<temp, exit, faults>>) \/ CopyFail("Copy")
Sync       == /\ alive /\ pc = "Sync" /\ Stay
              /\ \/ (pc' = "RemoveTemp" /\ Log("Sync", "ok") /\ UNCHANGED <<target, temp, exit, faults>>) \/ CopyFail("Sync")
\* a failing remove is only logged
RemoveTemp == /\ alive /\ pc = "RemoveTemp" /\ Stay /\ pc' = "Done" /\ exit' = 0 /\ UNCHANGED target
              /\ \/ (temp' = [temp EXCEPT !.exists = FALSE] /\ Log("RemoveTemp", "ok") /\ UNCHANGED faults)
                 \/ (CanFail /\ faults' = faults + 1 /\ Log("RemoveTemp", "fail") /\ UNCHANGED temp)
\* SIGKILL at a step boundary (before the step named by pc runs)
Crash      == /\ alive /\ pc # "Done" /\ alive' = FALSE /\ exit' = 137 /\ Log(pc, "kill") /\ UNCHANGED <<pc, target, temp, eval, faults>>

Next == CreateTemp \/ StatTarget \/ ChmodTemp \/ ChownTemp \/ Evaluate \/ Write \/ ExitCheck \/ CloseTemp \/ Rename
        \/ OpenSrc \/ CreateDstTruncate \/ Copy \/ Sync \/ RemoveTemp \/ Crash
Spec == Init /\ [][Next]_vars

\* ---- the property
AllOrNothing == target.content \in {"Old", "New"}
ExitTruth == /\ (exit = 0 => target.content = "New" /\ target.mode = "orig")
             /\ (exit > 0 /\ alive => target.content = "Old" /\ target.mode = "orig")
Terminal == pc = "Done" \/ ~alive
TypeOK == /\ pc \in {"CreateTemp", "StatTarget", "ChmodTemp", "ChownTemp", "Evaluate", "Write", "ExitCheck", "CloseTemp", "Rename",
                     "OpenSrc", "CreateDstTruncate", "Copy", "Sync", "RemoveTemp", "Done"}
          /\ eval \in EvalKinds /\ faults \in 0..MaxFaults
=============================================================================
