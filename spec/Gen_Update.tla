---------------------------- MODULE Gen_Update ----------------------------
(* C07 - documents of Gen_Yaml (bare and fully decorated values, every template, two layouts) x every target path x
   every applicable update kind; each printed with the text, the expression, the expected table (wildcards on what the
   update writes), the comments to keep and all comments.  Laws: FrameLaw, WellFormed of the document afterwards. *)
EXTENDS Gen_Yaml, YamlUpdate
UValues == SelectSeq([i \in DOMAIN Values |-> [i |-> i, x |-> Values[i]]], LAMBDA r : ((r.i - 1) % 6) + 1 \in {1, 5})
ULayouts == {1, 16}
VARIABLE ui
UInit == ui \in (1 - Lanes)..0 /\ vi = 0
UCases(k) == { [t |-> t, h |-> h, l |-> l, p |-> p, u |-> u, root |-> T(t, UValues[k].x, h)] :
                 t \in {t \in 1..NTemplates : Applicable(t, UValues[k].x)}, h \in BOOLEAN, l \in ULayouts, u \in Updates,
                 p \in PathsOf(T(1, Plain("x"), FALSE), <<>>) \cup {<<1>>, <<2>>, <<3>>, <<1, 1>>, <<1, 2>>, <<2, 1>>, <<2, 2>>, <<3, 1>>, <<3, 2>>, <<1, 1, 1>>, <<1, 1, 2>>, <<1, 2, 1>>, <<1, 2, 2>>, <<2, 1, 1>>, <<2, 2, 1>>} }
Valid(c) == /\ ~(c.h /\ c.t \in {6, 7, 8})
            /\ c.p \in PathsOf(c.root, <<>>)
            /\ CanApply(c.u, c.root, c.p)
UNext == /\ ui + Lanes <= Len(UValues) /\ ui' = ui + Lanes /\ vi' = vi
         /\ \A c \in UCases(ui') : ~Valid(c) \/
               LET s == Layout(c.l, c.root)  after == Apply(c.u, c.root, c.p)  sa == Layout(c.l, after) IN
               PrintT("@@" \o ToJson([v |-> UValues[ui'].i, t |-> c.t, h |-> c.h, l |-> c.l, u |-> c.u, p |-> c.p, text |-> Emit(s), expr |-> Expr(c.u, c.root, c.p),
                                      rows |-> Rows(sa), keep |-> LeadComments(s[1].lead) \o Keep(c.u, c.root, c.p) \o (IF s[1].foot # "" /\ ~FootOpen(c.u, c.root, c.p) THEN <<s[1].foot>> ELSE <<>>),
                                      all |-> IF c.u \in {"copydel", "mergeinto"} THEN Comments(s) \o NodeComments(NodeAt(c.root, c.p)) ELSE Comments(s), incomments |-> Comments(s), inrows |-> Rows(s)]))
UpdateLaws == ui >= 1 => \A c \in UCases(ui) : ~Valid(c) \/ (FrameLaw(c.u, c.root, c.p) /\ UniqueKeysIn(Apply(c.u, c.root, c.p)))
=============================================================================
