------------------------------ MODULE Anchors ------------------------------
(***************************************************************************)
(* C13 - anchors, aliases and `<<` merge keys.                             *)
(* An annotated tree (ATree) is a Value of Values.tla extended with        *)
(*    [k |-> "alias", to |-> name]            an alias node *name          *)
(*    [k |-> "anchor", name |-> n, v |-> t]   a node carrying &n           *)
(* and map entries whose key is MergeKey (`<<`) with an alias or a         *)
(* sequence of aliases as value.  Anchors are bound in document order.     *)
(*                                                                         *)
(* Resolve(t) is the value the YAML merge-key rules define:                *)
(*   - an alias stands for its anchored node,                              *)
(*   - keys written explicitly in a map win over merged-in keys            *)
(*     REGARDLESS OF POSITION,                                             *)
(*   - in a merge list EARLIER entries win over later ones.                *)
(* All three read routes (un-exploded traversal, explode, JSON output)     *)
(* must read Get(Resolve(doc), path); explode must yield Resolve(doc) with *)
(* no alias, no merge key and no anchor left.                              *)
(***************************************************************************)
EXTENDS Values

MergeKey == <<"<", "<">>
Alias(n)     == [k |-> "alias", to |-> n]
Anchor(n, t) == [k |-> "anchor", name |-> n, v |-> t]

EnvGet(env, n) == env[CHOOSE i \in DOMAIN env : env[i][1] = n /\ \A j \in DOMAIN env : env[j][1] = n => j <= i][2]
EnvHas(env, n) == \E i \in DOMAIN env : env[i][1] = n

\* keys of b not in a are appended to a (a wins): the merge of one source into what is already there
Under(a, b) == MapV(a.m \o SelectSeq(b.m, LAMBDA kv : ~HasKey(a, kv[1])))

RECURSIVE Res(_,_)
\* returns [v |-> resolved value, env |-> anchors bound so far, ok |-> no dangling alias / ill-typed merge]
Res(t, env) ==
  CASE t.k = "alias"  -> IF EnvHas(env, t.to) THEN [v |-> EnvGet(env, t.to), env |-> env, ok |-> TRUE] ELSE [v |-> Null, env |-> env, ok |-> FALSE]
    [] t.k = "anchor" -> LET r == Res(t.v, env) IN [v |-> r.v, env |-> Append(r.env, <<t.name, r.v>>), ok |-> r.ok]
    [] t.k = "seq"    -> LET r == FoldLeft(LAMBDA acc, x : LET rx == Res(x, acc.env) IN [e |-> Append(acc.e, rx.v), env |-> rx.env, ok |-> acc.ok /\ rx.ok],
                                           [e |-> <<>>, env |-> env, ok |-> TRUE], t.e)
                         IN [v |-> SeqV(r.e), env |-> r.env, ok |-> r.ok]
    [] t.k = "map"    ->
         LET step(acc, kv) ==
               LET rv == Res(kv[2], acc.env) IN
               IF kv[1] = MergeKey
               THEN LET srcs == IF rv.v.k = "seq" THEN rv.v.e ELSE <<rv.v>>
                        okSrc == \A i \in DOMAIN srcs : srcs[i].k = "map"
                        \* earlier entries of the list win over later ones
                        folded == FoldLeft(LAMBDA m, s : IF s.k = "map" THEN Under(m, s) ELSE m, MapV(<<>>), srcs)
                    IN [acc EXCEPT !.merged = Under(@, folded), !.env = rv.env, !.ok = @ /\ rv.ok /\ okSrc]
               ELSE [acc EXCEPT !.explicit = MapSet(@, kv[1], rv.v), !.env = rv.env, !.ok = @ /\ rv.ok]
             r == FoldLeft(step, [explicit |-> MapV(<<>>), merged |-> MapV(<<>>), env |-> env, ok |-> TRUE], t.m)
         IN [v |-> Under(r.explicit, r.merged), env |-> r.env, ok |-> r.ok]      \* explicit keys win regardless of position
    [] OTHER -> [v |-> t, env |-> env, ok |-> TRUE]

Resolve(t) == Res(t, <<>>).v
WellFormed(t) == Res(t, <<>>).ok

\* ---- named deviations of the pinned implementation (known findings): entries are applied in document order, so an
\* explicit key written BEFORE `<<` is overridden by a merged one ("explicit-before-merge"); un-exploded traversal lets
\* LATER entries of a merge list win ("merge-list-last-wins").  ResL models both; listLast selects the second.
Over(a, b) == FoldLeft(LAMBDA m, kv : MapSet(m, kv[1], kv[2]), a, b.m)           \* b's entries override a's
RECURSIVE ResL(_,_,_)
ResL(t, env, listLast) ==
  CASE t.k = "alias"  -> [v |-> IF EnvHas(env, t.to) THEN EnvGet(env, t.to) ELSE Null, env |-> env]
    [] t.k = "anchor" -> LET r == ResL(t.v, env, listLast) IN [v |-> r.v, env |-> Append(r.env, <<t.name, r.v>>)]
    [] t.k = "seq"    -> LET r == FoldLeft(LAMBDA acc, x : LET rx == ResL(x, acc.env, listLast) IN [e |-> Append(acc.e, rx.v), env |-> rx.env], [e |-> <<>>, env |-> env], t.e)
                         IN [v |-> SeqV(r.e), env |-> r.env]
    [] t.k = "map"    ->
         LET step(acc, kv) ==
               LET rv == ResL(kv[2], acc.env, listLast) IN
               IF kv[1] = MergeKey
               THEN LET srcs == IF rv.v.k = "seq" THEN rv.v.e ELSE <<rv.v>>
                        folded == FoldLeft(LAMBDA m, s : IF s.k # "map" THEN m ELSE IF listLast THEN Over(m, s) ELSE Under(m, s), MapV(<<>>), srcs)
                    IN [m |-> Over(acc.m, folded), env |-> rv.env]
               ELSE [m |-> MapSet(acc.m, kv[1], rv.v), env |-> rv.env]
             r == FoldLeft(step, [m |-> MapV(<<>>), env |-> env], t.m)
         IN [v |-> r.m, env |-> r.env]
    [] OTHER -> [v |-> t, env |-> env]
ResolveDev(t, listLast) == ResL(t, <<>>, listLast).v

\* unordered comparison of resolved values (the YAML rules fix no key order for merged maps)
RECURSIVE SameValue(_,_)
SameValue(a, b) ==
  IF a.k # b.k THEN FALSE
  ELSE CASE a.k = "seq" -> Len(a.e) = Len(b.e) /\ \A i \in DOMAIN a.e : SameValue(a.e[i], b.e[i])
         [] a.k = "map" -> Len(a.m) = Len(b.m) /\ \A i \in DOMAIN a.m : HasKey(b, a.m[i][1]) /\ SameValue(a.m[i][2], MapGet(b, a.m[i][1]))
         [] OTHER -> VEq(a, b)

\* laws
RECURSIVE Plain(_)
Plain(v) == CASE v.k \in {"alias", "anchor"} -> FALSE
              [] v.k = "seq" -> \A i \in DOMAIN v.e : Plain(v.e[i])
              [] v.k = "map" -> \A i \in DOMAIN v.m : v.m[i][1] # MergeKey /\ Plain(v.m[i][2])
              [] OTHER -> TRUE
=============================================================================
