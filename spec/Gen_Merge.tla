----------------------------- MODULE Gen_Merge -----------------------------
(* C04 - the merge table: every pair of nested documents x every flag set, with the result the specification defines
   (or "open"/"error"), for replay through the `*` operator and the multi-file reduce form; plus the laws. *)
EXTENDS Merge, Json
CONSTANTS NShards, Shard
A == <<"a">>  B == <<"b">>
L1 == << Null, IntV(1), StrV(A), MapV(<< <<A, IntV(1)>> >>), MapV(<< <<B, IntV(2)>> >>), MapV(<<>>), SeqV(<<IntV(1)>>), SeqV(<<IntV(2), MapV(<< <<A, IntV(2)>> >>)>>), SeqV(<<>>),
         MapV(<< <<A, Null>>, <<B, SeqV(<<IntV(1)>>)>> >>) >>
L2 == << MapV(<<>>) >> \o [i \in DOMAIN L1 |-> MapV(<< <<A, L1[i]>> >>)] \o [i \in DOMAIN L1 |-> MapV(<< <<B, L1[i]>> >>)]
      \o FlatMap(LAMBDA x : [j \in DOMAIN L1 |-> MapV(<< <<A, x>>, <<B, L1[j]>> >>)], L1)
      \o FlatMap(LAMBDA x : [j \in DOMAIN L1 |-> MapV(<< <<B, x>>, <<A, L1[j]>> >>)], << Null, IntV(1), MapV(<< <<A, IntV(1)>> >>), SeqV(<<IntV(1)>>) >>)
\* three-level documents for the nested-conflict / three-way cases
L3 == << MapV(<< <<A, MapV(<< <<A, MapV(<< <<A, IntV(1)>>, <<B, IntV(2)>> >>)>>, <<B, IntV(1)>> >>)>> >>),
         MapV(<< <<A, MapV(<< <<A, MapV(<< <<B, StrV(A)>> >>)>> >>)>>, <<B, Null>> >>),
         MapV(<< <<A, MapV(<< <<A, IntV(2)>> >>)>> >>),
         MapV(<< <<A, MapV(<< <<A, SeqV(<<MapV(<< <<A, IntV(1)>> >>), IntV(2)>>)>> >>)>> >>),
         MapV(<< <<A, MapV(<< <<A, SeqV(<<MapV(<< <<B, IntV(2)>> >>)>>)>>, <<B, MapV(<<>>)>> >>)>> >>) >>
\* keys holding `*`: in a document they are characters, not patterns - merging them in touches no other key
G == <<"a", "*">>  AB == <<"a", "b">>  STAR == <<"*">>
LG == << MapV(<< <<G, IntV(3)>> >>), MapV(<< <<A, IntV(1)>>, <<AB, IntV(2)>>, <<G, MapV(<< <<A, IntV(1)>> >>)>> >>), MapV(<< <<STAR, IntV(3)>>, <<A, MapV(<< <<STAR, IntV(5)>> >>)>> >>) >>
Docs == L2 \o L3 \o << Null >> \o LG      \* a null operand: `x * null` is x, `null * m` is m
FlagSeq == << [app |-> FALSE, deep |-> FALSE, exist |-> FALSE, new |-> FALSE], [app |-> TRUE, deep |-> FALSE, exist |-> FALSE, new |-> FALSE],
              [app |-> FALSE, deep |-> TRUE, exist |-> FALSE, new |-> FALSE], [app |-> FALSE, deep |-> FALSE, exist |-> TRUE, new |-> FALSE],
              [app |-> FALSE, deep |-> FALSE, exist |-> FALSE, new |-> TRUE], [app |-> TRUE, deep |-> TRUE, exist |-> FALSE, new |-> FALSE],
              [app |-> TRUE, deep |-> FALSE, exist |-> TRUE, new |-> FALSE], [app |-> TRUE, deep |-> FALSE, exist |-> FALSE, new |-> TRUE],
              [app |-> FALSE, deep |-> TRUE, exist |-> TRUE, new |-> FALSE], [app |-> FALSE, deep |-> TRUE, exist |-> FALSE, new |-> TRUE],
              [app |-> FALSE, deep |-> FALSE, exist |-> TRUE, new |-> TRUE], [app |-> TRUE, deep |-> TRUE, exist |-> TRUE, new |-> FALSE],
              [app |-> TRUE, deep |-> TRUE, exist |-> FALSE, new |-> TRUE], [app |-> TRUE, deep |-> FALSE, exist |-> TRUE, new |-> TRUE],
              [app |-> FALSE, deep |-> TRUE, exist |-> TRUE, new |-> TRUE], [app |-> TRUE, deep |-> TRUE, exist |-> TRUE, new |-> TRUE] >>

ASSUME \A i \in DOMAIN Docs : PrintT("@@" \o ToJson([t |-> "d", i |-> i, d |-> Docs[i]]))
VARIABLES ai, done
Init == ai \in {i \in DOMAIN Docs : i % NShards = Shard} /\ done = FALSE
Row(i, j, fi) == LET a == Docs[i]  b == Docs[j]  f == FlagSeq[fi]  r == PMerge(a, b, f) IN
   [t |-> "m", a |-> i, b |-> j, f |-> f, st |-> IF Open(a, b, f) THEN "open" ELSE IF IsErr(r) THEN "err" ELSE "ok", r |-> IF IsErr(r) THEN Null ELSE r]
Next == /\ ~done /\ done' = TRUE /\ ai' = ai
        /\ \A j \in DOMAIN Docs : \A fi \in DOMAIN FlagSeq : PrintT("@@" \o ToJson(Row(ai, j, fi)))
        /\ \A j \in DOMAIN Docs : j % 7 # ai % 7 \/ \A k \in {1, 12, 33} : \A fi \in {1, 2, 3} :
              PrintT("@@" \o ToJson([t |-> "fold", docs |-> <<ai, j, k>>, f |-> FlagSeq[fi],
                                      st |-> IF Open(Docs[ai], Docs[j], FlagSeq[fi]) \/ Open(PMerge(Docs[ai], Docs[j], FlagSeq[fi]), Docs[k], FlagSeq[fi]) \/ IsErr(FoldMerge(<<Docs[ai], Docs[j], Docs[k]>>, FlagSeq[fi])) THEN "open" ELSE "ok",
                                      r |-> IF IsErr(FoldMerge(<<Docs[ai], Docs[j], Docs[k]>>, FlagSeq[fi])) THEN Null ELSE FoldMerge(<<Docs[ai], Docs[j], Docs[k]>>, FlagSeq[fi])]))

\* ---- laws on the model
Agree == \A j \in DOMAIN Docs : \A fi \in DOMAIN FlagSeq :
            LET a == Docs[ai]  b == Docs[j]  f == FlagSeq[fi] IN Open(a, b, f) \/ PMerge(a, b, f) = RefMerge(a, b, f)
Identities == Docs[ai].k # "map" \/ \A fi \in DOMAIN FlagSeq : LET a == Docs[ai]  f == FlagSeq[fi] IN
            /\ PMerge(a, MapV(<<>>), f) = a
            /\ (~f.exist => PMerge(MapV(<<>>), a, f) = a)
            /\ (~f.app => PMerge(a, a, f) = a)
KeyOrder == \A j \in DOMAIN Docs : \A fi \in DOMAIN FlagSeq :
            LET a == Docs[ai]  b == Docs[j]  f == FlagSeq[fi]  r == PMerge(a, b, f) IN
            IsErr(r) \/ Open(a, b, f) \/ a.k # "map" \/ b.k # "map" \/ MapKeys(r) = MapKeys(a) \o (IF f.exist THEN <<>> ELSE SelectSeq(MapKeys(b), LAMBDA k : ~HasKey(a, k)))
FoldIsLeftFold == \A j \in DOMAIN Docs : j % 7 # ai % 7 \/
            LET x == PMerge(PMerge(MapV(<<>>), Docs[ai], NoFlags), Docs[j], NoFlags) IN FoldMerge(<<Docs[ai], Docs[j]>>, NoFlags) = x
=============================================================================
