------------------------------ MODULE ShQuote ------------------------------
(***************************************************************************)
(* C17 - `@sh` and `-o=shell` as character-level machines.  A string is a  *)
(* sequence of code points (integers).                                     *)
(*   Encode(s)     the @sh quoting automaton (state: inside a quote block) *)
(*   QuoteValue(s) the -o=shell value quoter                               *)
(*   VarName(k,root) the -o=shell name normaliser (ASCII keys)             *)
(*   ShellRead(w)  a POSIX word READER restricted to what is certainly     *)
(*                 inert: outside quotes only [A-Za-z0-9_@%+=:,./-] are    *)
(*                 literal, `\c` is the literal c, '...' is literal,       *)
(*                 "..." is literal for inert characters and `'`.          *)
(*                 Anything else (a live metacharacter, an unterminated    *)
(*                 quote) makes the word unsafe.                           *)
(* Property: ShellRead(Encode(s)) = [ok |-> TRUE, s |-> s] for EVERY s,    *)
(* including the empty string (one word, no live character).               *)
(***************************************************************************)
EXTENDS Integers, Sequences, FiniteSets, TLC, SequencesExt

Q == 39   BS == 92   DQ == 34
Alnum == (48..57) \cup (65..90) \cup (97..122) \cup {95}
Inert == Alnum \cup {64, 37, 43, 61, 58, 44, 46, 47, 45}          \* @ % + = : , . / -
\* the encoder's notion of "needs quoting": everything outside [\w@%+=:,./-] (ASCII word characters)
Unsafe(c) == c \notin Inert

\* ---- @sh: lazy single-quote blocks, \' for quotes, '' for the empty string
Encode(s) ==
  IF s = <<>> THEN <<Q, Q>>
  ELSE LET step(acc, c) ==
             IF c = Q THEN [out |-> acc.out \o (IF acc.inq THEN <<Q>> ELSE <<>>) \o <<BS, Q>>, inq |-> FALSE]
             ELSE IF Unsafe(c) /\ ~acc.inq THEN [out |-> acc.out \o <<Q, c>>, inq |-> TRUE]
             ELSE [out |-> Append(acc.out, c), inq |-> acc.inq]
           r == FoldLeft(step, [out |-> <<>>, inq |-> FALSE], s)
       IN IF r.inq THEN Append(r.out, Q) ELSE r.out

\* ---- -o=shell value: bare when only [A-Za-z0-9_], else '...' with '"'"' for quotes
QuoteValue(s) ==
  IF \A i \in DOMAIN s : s[i] \in Alnum THEN s
  ELSE <<Q>> \o FoldLeft(LAMBDA acc, c : IF c = Q THEN acc \o <<Q, DQ, Q, DQ, Q>> ELSE Append(acc, c), <<>>, s) \o <<Q>>

\* ---- -o=shell name (ASCII keys): control characters dropped, non-alphanumerics become _, a root name gets a leading _
\* unless it starts with a letter or _
VarName(key, root) ==
  LET kept == SelectSeq(key, LAMBDA c : c >= 32 /\ c <= 126)
      mapped == [i \in DOMAIN kept |-> IF kept[i] \in Alnum THEN kept[i] ELSE 95]
      startsOK == mapped # <<>> /\ mapped[1] \in ((65..90) \cup (97..122) \cup {95})
  IN IF root /\ ~startsOK THEN <<95>> \o mapped ELSE mapped
ValidName(n) == n # <<>> /\ n[1] \in ((65..90) \cup (97..122) \cup {95}) /\ \A i \in DOMAIN n : n[i] \in Alnum

\* ---- the reader: modes "u" unquoted, "s" single-quoted, "d" double-quoted, "e" after a backslash (unquoted)
ShellRead(w) ==
  LET step(acc, c) ==
        IF ~acc.ok THEN acc ELSE
        CASE acc.m = "u" -> IF c = Q THEN [acc EXCEPT !.m = "s", !.quoted = TRUE] ELSE IF c = DQ THEN [acc EXCEPT !.m = "d", !.quoted = TRUE]
                            ELSE IF c = BS THEN [acc EXCEPT !.m = "e"]
                            ELSE IF c \in Inert THEN [acc EXCEPT !.s = Append(@, c)] ELSE [acc EXCEPT !.ok = FALSE]
          [] acc.m = "e" -> [acc EXCEPT !.m = "u", !.s = Append(@, c), !.quoted = TRUE]
          [] acc.m = "s" -> IF c = Q THEN [acc EXCEPT !.m = "u"] ELSE [acc EXCEPT !.s = Append(@, c)]
          [] acc.m = "d" -> IF c = DQ THEN [acc EXCEPT !.m = "u"]
                            ELSE IF c \in Inert \/ c = Q THEN [acc EXCEPT !.s = Append(@, c)] ELSE [acc EXCEPT !.ok = FALSE]
      r == FoldLeft(step, [ok |-> TRUE, m |-> "u", s |-> <<>>, quoted |-> FALSE], w)
  IN [ok |-> r.ok /\ r.m = "u", s |-> r.s, quoted |-> r.quoted]

\* exactly one word that expands to s: an empty word that was never quoted is NO word at all
Safe(s, w) == LET r == ShellRead(w) IN r.ok /\ r.s = s /\ (r.s # <<>> \/ r.quoted)
\* the right-hand side of an assignment may be empty
SafeValue(s, w) == LET r == ShellRead(w) IN r.ok /\ r.s = s
\* a line NAME=VALUE of -o=shell
SafeAssignment(name, value, line) ==
  /\ ValidName(name) /\ Len(line) > Len(name) /\ SubSeq(line, 1, Len(name)) = name /\ line[Len(name) + 1] = 61
  /\ SafeValue(value, SubSeq(line, Len(name) + 2, Len(line)))
=============================================================================
