------------------------------- MODULE Eval -------------------------------
(***************************************************************************)
(* The expression evaluator of yq as a state machine over                  *)
(*    s == [doc, ctx, ro, st, env]                                         *)
(*  doc : Value       the (single) input document, threaded through every *)
(*                    operator because traversal auto-creates and          *)
(*                    assignment/delete edit it                            *)
(*  ctx : Seq(Item)   the ordered list of current nodes; an Item is either *)
(*                    a reference INTO the document (by position path) or  *)
(*                    a detached value produced by an operator             *)
(*  ro  : BOOLEAN     Context.DontAutoCreate                               *)
(*  st  : "ok" | "err" | "unspec"    ("unspec": outcome left open by the   *)
(*                    documentation / property; executed, never compared)  *)
(*  env : Seq(<<name, Seq(Item)>>)  variable bindings                      *)
(* Expressions are records in yq's own tree vocabulary (operation type     *)
(* names of pkg/yqlib/operation.go), so the parser spec's output is this   *)
(* module's input and a real *ExpressionNode projects onto it 1:1.         *)
(* One rule per operator handler.  Rules marked ADOPTED follow the pinned  *)
(* implementation where the documentation is silent.                       *)
(***************************************************************************)
EXTENDS Order

\* Named deviations of the pinned implementation from the reference semantics (known findings, see
\* /verif/known_findings.json).  Dev = {} is the reference; conformance runs enable the listed ones.
\*   (none at present: the read-only vivification findings of C08 were repaired by fix: commits)
CONSTANT Dev

\* ---------------------------------------------------------------- expressions
ESelf          == [op |-> "SELF"]
EEmpty         == [op |-> "EMPTY"]
EPath(key)     == [op |-> "TRAVERSE_PATH", key |-> key]
ECollect(e)    == [op |-> "COLLECT", r |-> e]
ETravArr(l, r) == [op |-> "TRAVERSE_ARRAY", l |-> l, r |-> r]
ESplat         == ETravArr(ESelf, ECollect(EEmpty))
ELit(v)        == [op |-> "VALUE", v |-> v]
EIndex(i)      == ETravArr(ESelf, ECollect(ELit(IntV(i))))
EBin(o, l, r)  == [op |-> o, l |-> l, r |-> r]
ESlice(a, b)   == ETravArr(ESelf, ECollect(EBin("CREATE_MAP", a, b)))
EPipe(l, r)    == EBin("PIPE", l, r)
EUnion(l, r)   == EBin("UNION", l, r)
EUn(o, e)      == [op |-> o, r |-> e]          \* SELECT, MAP, FILTER, HAS, ANY_C, ...
ENul(o)        == [op |-> o]                   \* LENGTH, KEYS, REVERSE, UNIQUE, ...
ECmp(g, oe, l, r) == [op |-> "COMPARE", l |-> l, r |-> r, greater |-> g, oreq |-> oe]
ERecurse(keys) == [op |-> "RECURSIVE_DESCENT", keys |-> keys]
EFlatten(n)    == [op |-> "FLATTEN_BY", depth |-> n]
EWith(p, u)    == [op |-> "WITH", l |-> p, r |-> u]
EVar(name)     == [op |-> "GET_VARIABLE", name |-> name]
EAs(src, name, body, isref) == EBin("PIPE", [op |-> "ASSIGN_VARIABLE", l |-> src, r |-> EVar(name), isref |-> isref], body)
EReduce(src, name, init, body) == EBin("REDUCE", [op |-> "ASSIGN_VARIABLE", l |-> src, r |-> EVar(name), isref |-> FALSE], EBin("BLOCK", init, body))
EObject(k, v)  == EBin("SHORT_PIPE", EBin("CREATE_MAP", k, v), ENul("COLLECT_OBJECT"))
EAssign(l, r)  == [op |-> "ASSIGN", l |-> l, r |-> r, update |-> FALSE]
EUpdate(l, r)  == [op |-> "ASSIGN", l |-> l, r |-> r, update |-> TRUE]
EDelete(e)     == [op |-> "DELETE_CHILD", r |-> e]

\* ---------------------------------------------------------------- items and state
\* an item is a node INSIDE the document (position path p) or a node inside a detached tree produced by an operator
\* (tree value v, position sub within it; sub = <<>> is the detached value itself)
InDoc(p)  == [in |-> TRUE,  p |-> p]
Det(v)    == [in |-> FALSE, v |-> v, sub |-> <<>>]
ValOf(doc, c) == IF c.in THEN Get(doc, c.p) ELSE Get(c.v, c.sub)
Live(doc, c) == IF c.in THEN Exists(doc, c.p) ELSE Exists(c.v, c.sub)

\* tog: the root document carries EvaluateTogether (eval-all mode); it matters only while the context is the root itself
St(doc, ctx, ro) == [doc |-> doc, ctx |-> ctx, ro |-> ro, st |-> "ok", env |-> <<>>, tog |-> FALSE]
KindClass(v) == IF IsScalar(v) THEN "scalar" ELSE v.k
Together(s) == s.tog /\ s.ctx # <<>> /\ \A i \in DOMAIN s.ctx : s.ctx[i].in /\ s.ctx[i].p = <<>>
\* copies of the root keep the flag in the implementation; the model does not track copies, so a context holding a
\* detached value of the root's kind class MAY be together: left open
MaybeTog(s) == s.tog /\ \E i \in DOMAIN s.ctx : ~s.ctx[i].in /\ KindClass(ValOf(s.doc, s.ctx[i])) = KindClass(s.doc)
Fail(s, why) == [s EXCEPT !.st = why, !.ctx = <<>>]
Ok(s) == s.st = "ok"
Vals(s) == [i \in DOMAIN s.ctx |-> ValOf(s.doc, s.ctx[i])]
Dets(vs) == [i \in DOMAIN vs |-> Det(vs[i])]
Child(c, v, pe) == IF c.in THEN InDoc(Append(c.p, pe)) ELSE [c EXCEPT !.sub = Append(@, pe)]

\* Fold a per-node rule over the context.  step(acc, c) returns the new accumulator state
\* (it appends its results to acc.ctx and threads acc.doc); a failure stops the fold.
PerNode(s, step(_,_)) ==
  FoldLeft(LAMBDA acc, c : IF ~Ok(acc) THEN acc ELSE step(acc, c), [s EXCEPT !.ctx = <<>>], s.ctx)

Emit(acc, items) == [acc EXCEPT !.ctx = @ \o items]

\* ---------------------------------------------------------------- traversal (operator_traverse_path.go)
AppendKey(doc, p, key) == LET m == Get(doc, p) IN Replace(doc, p, MapV(Append(m.m, <<key, Null>>)))

\* `.key` on one node.  Missing key / null parent are created unless read-only.
TraverseKey(acc, c, key) ==
  LET v == ValOf(acc.doc, c) IN
  CASE v.k = "seq" -> Fail(acc, "err")                                   \* cannot index array with a non-number
    [] v.k = "map" /\ HasKey(v, key) -> Emit(acc, <<Child(c, v, PK(key))>>)
    [] v.k = "map" /\ ~HasKey(v, key) ->
         IF acc.ro THEN acc
         ELSE IF c.in THEN Emit([acc EXCEPT !.doc = AppendKey(acc.doc, c.p, key)], <<InDoc(Append(c.p, PK(key)))>>)
         ELSE Fail(acc, "unspec")                                         \* vivifying a detached value
    [] v.k = "null" ->
         IF acc.ro THEN acc
         ELSE IF c.in THEN Emit([acc EXCEPT !.doc = AppendKey(Replace(acc.doc, c.p, MapV(<<>>)), c.p, key)], <<InDoc(Append(c.p, PK(key)))>>)
         ELSE Fail(acc, "unspec")
    [] OTHER -> acc                                                       \* other scalars: no result

\* `.[]` on one node
SplatNode(acc, c) ==
  LET v == ValOf(acc.doc, c) IN
  CASE v.k = "map" -> Emit(acc, [i \in 1..Len(v.m) |-> Child(c, v, PK(v.m[i][1]))])
    [] v.k = "seq" -> Emit(acc, [i \in 1..Len(v.e) |-> Child(c, v, PI(i - 1))])
    [] v.k = "null" -> IF acc.ro THEN acc                                              \* reading never edits
                       ELSE IF c.in THEN [acc EXCEPT !.doc = Replace(acc.doc, c.p, SeqV(<<>>))] ELSE Fail(acc, "unspec")  \* writable: null becomes []
    [] OTHER -> acc

\* `.[i, j, ...]` on one node; idxs is a sequence of scalar Values
RECURSIVE IndexNode(_,_,_)
IndexNode(acc, c, idxs) ==
  LET v0 == ValOf(acc.doc, c) IN
  IF idxs = <<>> THEN SplatNode(acc, c)
  ELSE IF v0.k = "null" THEN
       (IF acc.ro THEN acc                                                \* read-only: a null has no entries
        ELSE IF ~c.in THEN Fail(acc, "unspec")
        ELSE IF idxs[1].k = "num" /\ idxs[1].int THEN IndexNode([acc EXCEPT !.doc = Replace(acc.doc, c.p, SeqV(<<>>))], c, idxs)   \* writable: null becomes []
        ELSE IF idxs[1].k = "str" THEN IndexNode([acc EXCEPT !.doc = Replace(acc.doc, c.p, MapV(<<>>))], c, idxs)                \* ... or {}
        ELSE Fail(acc, "unspec"))
  ELSE IF v0.k = "seq" THEN
    FoldLeft(LAMBDA a, ix :
        IF ~Ok(a) THEN a
        ELSE IF ~(ix.k = "num" /\ ix.int) THEN (IF ix.k = "str" THEN Fail(a, "err") ELSE Fail(a, "unspec"))
        ELSE LET v == ValOf(a.doc, c)  n == Len(v.e)  i == ix.n IN
             IF i >= n THEN (IF a.ro THEN a                                \* read-only: past the end, no entry
                             ELSE IF ~c.in THEN Fail(a, "unspec")
                             ELSE Emit([a EXCEPT !.doc = Replace(a.doc, c.p, SeqV(v.e \o [x \in 1..(i + 1 - n) |-> Null]))], <<InDoc(Append(c.p, PI(i)))>>))  \* writable: padded with nulls
             ELSE IF i < 0 - n THEN Fail(a, "err")
             ELSE Emit(a, <<Child(c, v, PI(IF i < 0 THEN n + i ELSE i))>>),
      acc, idxs)
  ELSE IF v0.k = "map" THEN
    FoldLeft(LAMBDA a, ix :
        IF ~Ok(a) THEN a
        ELSE IF ix.k # "str" THEN Fail(a, "unspec")                       \* key by spelling of a non-string
        ELSE TraverseKey(a, c, ix.s),
      acc, idxs)
  ELSE acc

\* slice bounds logic (operator_slice.go)
SliceSeq(v, a, b) ==
  LET n == Len(v.e)
      ra0 == IF a < 0 THEN n + a ELSE a
      ra == IF ra0 < 0 THEN 0 ELSE ra0                                     \* a start before the first element is the first element
      rb0 == IF b < 0 THEN n + b ELSE IF b > n THEN n ELSE b
      rb == IF rb0 < 0 THEN 0 ELSE rb0
  IN [ok |-> TRUE, v |-> SeqV(IF ra >= rb THEN <<>> ELSE SubSeq(v.e, ra + 1, rb))]

\* ---------------------------------------------------------------- binary calculations
\* operands are [some |-> BOOLEAN, v |-> Value]; results R(v) | RNone | RErr | RUnspec
None    == [some |-> FALSE, v |-> Null]
Some(v) == [some |-> TRUE, v |-> v]
R(v)    == [t |-> "val", v |-> v]
RNone   == [t |-> "none", v |-> Null]
RErr    == [t |-> "err", v |-> Null]
RUnspec == [t |-> "unspec", v |-> Null]
\* a result that is the lhs/rhs node itself (alternative operator returns references)
RLhs    == [t |-> "lhs", v |-> Null]
RRhs    == [t |-> "rhs", v |-> Null]

AddMaps(a, b) == MapV(FoldLeft(LAMBDA acc, kv : IF \E i \in DOMAIN acc : acc[i][1] = kv[1]
                                                 THEN [i \in DOMAIN acc |-> IF acc[i][1] = kv[1] THEN kv ELSE acc[i]]
                                                 ELSE Append(acc, kv), a.m, b.m))
AddVals(oa, ob) ==
  IF ~oa.some /\ ~ob.some THEN RNone ELSE IF ~oa.some THEN R(ob.v) ELSE IF ~ob.some THEN R(oa.v) ELSE
  LET a == oa.v  b == ob.v IN
  CASE a.k = "null" -> R(b)
    [] b.k = "null" -> R(a)                            \* null adds nothing, on the right as on the left
    [] a.k = "map" -> IF b.k # "map" THEN RErr ELSE IF UniqueKeys(a) /\ UniqueKeys(b) THEN R(AddMaps(a, b)) ELSE RUnspec
    [] a.k = "seq" -> CASE b.k = "null" -> R(a) [] b.k = "seq" -> R(SeqV(a.e \o b.e)) [] OTHER -> R(SeqV(Append(a.e, b)))
    [] OTHER ->
         IF ~IsScalar(b) THEN RErr ELSE
         CASE a.k = "str" /\ b.k = "null" -> R(a)
           [] a.k = "str" /\ b.k = "str" -> R(StrV(a.s \o b.s))
           [] a.k = "str" \/ b.k = "str" -> RUnspec                       \* concatenation of spellings: outside the value domain
           [] a.k = "num" /\ b.k = "num" -> R(MkNum(a.n * b.d + b.n * a.d, a.d * b.d, ~(a.int /\ b.int)))
           [] OTHER -> RErr

\* deep equality used by subtract / unique / contains keys: numbers by class and spelling-equal value, maps unordered
RECURSIVE DeepEq(_,_)
DeepEq(a, b) ==
  IF a.k # b.k THEN FALSE
  ELSE CASE a.k = "null" -> TRUE
         [] a.k = "bool" -> a.b = b.b
         [] a.k = "num"  -> a.int = b.int /\ a.n * b.d = b.n * a.d
         [] a.k = "str"  -> a.s = b.s
         [] a.k = "seq"  -> Len(a.e) = Len(b.e) /\ \A i \in DOMAIN a.e : DeepEq(a.e[i], b.e[i])
         [] a.k = "map"  -> Len(a.m) = Len(b.m) /\ \A i \in DOMAIN a.m : HasKey(b, a.m[i][1]) /\ DeepEq(a.m[i][2], MapGet(b, a.m[i][1]))

\* maps whose values collide with keys make yq's map comparison consult the wrong slot: left open
RECURSIVE HasMapInside(_)
HasMapInside(v) == CASE v.k = "map" -> TRUE [] v.k = "seq" -> \E i \in DOMAIN v.e : HasMapInside(v.e[i]) [] OTHER -> FALSE

SubVals(oa, ob) ==
  LET a == oa.v  b == ob.v IN
  CASE a.k = "null" -> IF b.k = "null" THEN R(a) ELSE RErr            \* nothing can be taken away from null
    [] a.k = "map" -> RErr
    [] a.k = "seq" -> IF b.k # "seq" THEN RErr
                      ELSE R(SeqV(SelectSeq(a.e, LAMBDA x : ~\E j \in DOMAIN b.e : DeepEq(x, b.e[j]))))
    [] OTHER -> IF ~IsScalar(b) THEN RErr
                ELSE IF a.k = "num" /\ b.k = "num" THEN R(MkNum(a.n * b.d - b.n * a.d, a.d * b.d, ~(a.int /\ b.int)))
                ELSE RErr

RECURSIVE Repeat(_,_)
Repeat(s, n) == IF n <= 0 THEN <<>> ELSE s \o Repeat(s, n - 1)

\* scalar part of `*`; merging of containers is in Merge.tla (MulVals there extends this)
MulScalars(a, b) ==
  CASE a.k = "num" /\ b.k = "num" -> R(MkNum(a.n * b.n, a.d * b.d, ~(a.int /\ b.int)))
    [] a.k = "str" /\ b.k = "num" /\ b.int -> IF b.n < 0 THEN RErr ELSE IF b.n > 4 THEN RUnspec ELSE R(StrV(Repeat(a.s, b.n)))
    [] a.k = "num" /\ a.int /\ b.k = "str" -> IF a.n < 0 THEN RErr ELSE IF a.n > 4 THEN RUnspec ELSE R(StrV(Repeat(b.s, a.n)))
    [] OTHER -> RErr

Sign(n) == IF n < 0 THEN -1 ELSE 1
DivVals(oa, ob) ==
  LET a == oa.v  b == ob.v IN
  IF a.k = "null" THEN RErr
  ELSE IF ~(IsScalar(a) /\ IsScalar(b)) THEN RErr
  ELSE IF a.k = "str" /\ b.k = "str" THEN RUnspec                          \* split form: see SPLIT
  ELSE IF a.k = "num" /\ b.k = "num" THEN
       (IF b.n = 0 \/ ~IsPow2(Abs(b.n)) THEN RUnspec                       \* inf/nan or non-dyadic quotient
        ELSE R(MkNum(a.n * b.d * Sign(b.n), a.d * Abs(b.n), TRUE)))
  ELSE RErr

TruncMod(a, b) == Sign(a) * (Abs(a) % Abs(b))
ModVals(oa, ob) ==
  LET a == oa.v  b == ob.v IN
  IF a.k = "null" THEN RErr
  ELSE IF ~(IsScalar(a) /\ IsScalar(b)) THEN RErr
  ELSE IF a.k = "num" /\ b.k = "num" THEN
       (IF a.int /\ b.int THEN (IF b.n = 0 THEN RErr ELSE R(IntV(TruncMod(a.n, b.n)))) ELSE RUnspec)
  ELSE RErr

DigitAtoms == <<"0", "1", "2", "3", "4", "5", "6", "7", "8", "9">>
RECURSIVE NatAtoms(_)
NatAtoms(n) == IF n < 10 THEN <<DigitAtoms[n + 1]>> ELSE Append(NatAtoms(n \div 10), DigitAtoms[(n % 10) + 1])
IntAtoms(n) == IF n < 0 THEN <<"-">> \o NatAtoms(-n) ELSE NatAtoms(n)
DigitVal(a) == CHOOSE d \in 0..9 : DigitAtoms[d + 1] = a
IsDigitAtom(a) == \E d \in 0..9 : DigitAtoms[d + 1] = a
\* the spelling of a scalar that is no string, where the model knows it (floats are spelled by the implementation)
Spelled(v) == CASE v.k = "num" /\ v.int -> IntAtoms(v.n) [] v.k = "bool" -> (IF v.b THEN <<"t", "r", "u", "e">> ELSE <<"f", "a", "l", "s", "e">>)
                [] v.k = "null" -> <<"n", "u", "l", "l">> [] OTHER -> <<"?">>
\* `==` on values: spelling-based in the code; coincides with value equality on the domain except int-valued floats, and
\* except a STRING compared with a number / boolean / null of the same spelling ("0" == 0), which the documentation
\* does not decide
ScalarEq(a, b) ==
  IF a.k = "str" /\ b.k # "str" THEN (IF a.s = Spelled(b) \/ (b.k = "num" /\ ~b.int /\ \E i \in DOMAIN a.s : IsDigitAtom(a.s[i])) THEN "unspec" ELSE "f")
  ELSE IF b.k = "str" /\ a.k # "str" THEN (IF b.s = Spelled(a) \/ (a.k = "num" /\ ~a.int /\ \E i \in DOMAIN b.s : IsDigitAtom(b.s[i])) THEN "unspec" ELSE "f")
  ELSE IF a.k = "num" /\ b.k = "num" THEN (IF a.n * b.d = b.n * a.d THEN "t" ELSE "f")
  ELSE IF a.k # b.k THEN "f"
  ELSE IF VEq(a, b) THEN "t" ELSE "f"
\* maps and sequences are equal when their contents are: sequences element by element, maps entry by entry whatever the
\* order of their keys; inside them scalars are equal when kind and value are (2 and 2.0 differ there)
RECURSIVE StructEq(_,_)
StructEq(a, b) ==
  IF a.k # b.k THEN FALSE
  ELSE IF a.k = "seq" THEN Len(a.e) = Len(b.e) /\ \A i \in DOMAIN a.e : StructEq(a.e[i], b.e[i])
  ELSE IF a.k = "map" THEN Len(a.m) = Len(b.m) /\ \A i \in DOMAIN a.m : HasKey(b, a.m[i][1]) /\ StructEq(a.m[i][2], MapGet(b, a.m[i][1]))
  ELSE VEq(a, b)
EqVals(flip, oa, ob) ==
  LET res(x) == R(BoolV(IF flip THEN ~x ELSE x)) IN
  IF ~oa.some /\ ~ob.some THEN res(TRUE) ELSE IF ~oa.some THEN res(ob.v.k = "null") ELSE IF ~ob.some THEN res(oa.v.k = "null") ELSE
  LET a == oa.v  b == ob.v IN
  IF a.k = "null" THEN res(b.k = "null")
  ELSE IF IsScalar(a) /\ IsScalar(b) THEN (IF ScalarEq(a, b) = "unspec" THEN RUnspec ELSE res(ScalarEq(a, b) = "t"))
  ELSE IF IsContainer(a) /\ IsContainer(b) THEN res(StructEq(a, b))
  ELSE res(FALSE)

CmpVals(greater, oreq, oa, ob) ==
  IF ~oa.some /\ ~ob.some THEN R(BoolV(oreq)) ELSE IF ~oa.some \/ ~ob.some THEN R(BoolV(FALSE)) ELSE
  LET a == oa.v  b == ob.v
      dec(c) == R(BoolV(IF c = 0 THEN oreq ELSE IF greater THEN c > 0 ELSE c < 0)) IN
  IF IsContainer(a) \/ IsContainer(b) THEN RErr
  ELSE IF a.k = "num" /\ b.k = "num" THEN dec(NumCmp(a, b))
  ELSE IF a.k = "str" /\ b.k = "str" THEN dec(StrCmp(a.s, b.s))
  ELSE IF a.k = "null" /\ b.k = "null" THEN R(BoolV(oreq))
  ELSE IF a.k = "null" \/ b.k = "null" THEN R(BoolV(FALSE))
  ELSE RErr

\* contains (operator_contains.go)
RECURSIVE ContainsV(_,_)
ContainsV(a, b) ==
  CASE a.k = "map" -> b.k = "map" /\ \A i \in DOMAIN b.m : HasKey(a, b.m[i][1]) /\ ContainsV(MapGet(a, b.m[i][1]), b.m[i][2])
    [] a.k = "seq" -> IF b.k # "seq" THEN \E i \in DOMAIN a.e : ContainsV(a.e[i], b)
                      ELSE \A j \in DOMAIN b.e : \E i \in DOMAIN a.e : ContainsV(a.e[i], b.e[j])
    [] OTHER -> IF ~IsScalar(b) \/ a.k # b.k THEN FALSE
                ELSE IF a.k = "num" THEN a.int = b.int /\ a.n * b.d = b.n * a.d
                ELSE IF a.k = "str" THEN IsSubstring(b.s, a.s)
                ELSE VEq(a, b)
ContainsVals(oa, ob) ==
  LET a == oa.v  b == ob.v
      kind(v) == IF IsScalar(v) THEN "scalar" ELSE v.k IN
  IF kind(a) # kind(b) THEN RErr ELSE R(BoolV(ContainsV(a, b)))


\* restore the caller's variable bindings (bindings never escape the operator that made them)
AsEnv(s, r) == [r EXCEPT !.env = s.env]

\* expressions that hand back the incoming context list itself (same list object in the implementation)
RECURSIVE ReturnsInput(_)
ReturnsInput(e) == CASE e.op = "SELF" -> TRUE
                     [] e.op \in {"PIPE", "SHORT_PIPE"} -> e.l.op # "ASSIGN_VARIABLE" /\ ReturnsInput(e.l) /\ ReturnsInput(e.r)
                     [] e.op \in {"ASSIGN", "ADD_ASSIGN", "SUBTRACT_ASSIGN", "MULTIPLY_ASSIGN", "MAP_VALUES", "DELETE_CHILD", "WITH", "SORT_KEYS", "OMIT"} -> TRUE   \* (omit: when it has nothing to do)
                     [] OTHER -> FALSE
\* selections whose top-level results can only be nodes of the incoming context themselves
RECURSIVE FromInput(_)
FromInput(e) == CASE e.op \in {"SELF", "EMPTY", "SELECT", "TRAVERSE_PATH", "RECURSIVE_DESCENT"} -> TRUE
                  [] e.op = "TRAVERSE_ARRAY" -> FromInput(e.l)
                  [] e.op \in {"PIPE", "SHORT_PIPE", "UNION"} -> e.l.op # "ASSIGN_VARIABLE" /\ FromInput(e.l) /\ FromInput(e.r)
                  [] OTHER -> FALSE
\* `a , b` where both operands return the same list object: the pinned code emits it once (C01 finding union-same-list)
UnionOpen(l, r) == (ReturnsInput(l) /\ ReturnsInput(r)) \/ (l.op = "GET_VARIABLE" /\ r.op = "GET_VARIABLE" /\ l.name = r.name)

\* split s at every occurrence of the non-empty separator
RECURSIVE SplitStr(_,_)
SplitStr(s, sep) ==
  LET I == {i \in 0..(Len(s) - Len(sep)) : SubSeq(s, i + 1, i + Len(sep)) = sep} IN
  IF I = {} THEN <<s>>
  ELSE LET i == CHOOSE x \in I : \A y \in I : x <= y IN <<SubSeq(s, 1, i)>> \o SplitStr(SubSeq(s, i + Len(sep) + 1, Len(s)), sep)

\* ---------------------------------------------------------------- the evaluator
RECURSIVE Ev(_,_), EvMore(_,_), EvExt(_,_)

\* doCrossFunc (operators.go): LHS-major product on context s; RHS re-evaluated for every LHS result;
\* operand values are read when the calculation runs (the code holds node pointers).
\* f(oa, ob) -> result; whenEmpty = CalcWhenEmpty; short(lv) = LhsResultValue shortcut (result or RNone)
DoCross(e, s, f(_,_), whenEmpty, short(_)) ==
  LET L == Ev(e.l, s) IN
  IF ~Ok(L) THEN L ELSE
  LET n == IF L.ctx = <<>> THEN (IF whenEmpty THEN 1 ELSE 0) ELSE Len(L.ctx)
      step(acc, li) ==
         IF ~Ok(acc) THEN acc ELSE
         LET lnow == IF L.ctx = <<>> THEN None ELSE Some(ValOf(acc.doc, L.ctx[li]))
             sc == short(lnow) IN
         IF sc.t # "none" THEN
            (IF sc.t = "lhs" THEN Emit(acc, <<L.ctx[li]>>) ELSE Emit(acc, <<Det(sc.v)>>))
         ELSE
         LET Rr == Ev(e.r, [s EXCEPT !.doc = acc.doc]) IN
         IF ~Ok(Rr) THEN Rr ELSE
         LET lv == IF L.ctx = <<>> THEN None ELSE Some(ValOf(Rr.doc, L.ctx[li]))
             rl == IF Rr.ctx = <<>> THEN (IF whenEmpty THEN <<None>> ELSE <<>>) ELSE [j \in DOMAIN Rr.ctx |-> Some(ValOf(Rr.doc, Rr.ctx[j]))]
             outs == [j \in DOMAIN rl |-> f(lv, rl[j])]
             item(j) == CASE outs[j].t = "lhs" -> L.ctx[li] [] outs[j].t = "rhs" -> Rr.ctx[j] [] OTHER -> Det(outs[j].v)
             keep == SelectSeq(Upto(Len(outs)), LAMBDA j : outs[j].t # "none")
         IN IF \E j \in DOMAIN outs : outs[j].t = "err" THEN Fail([acc EXCEPT !.doc = Rr.doc], "err")
            ELSE IF \E j \in DOMAIN outs : outs[j].t = "unspec" THEN Fail([acc EXCEPT !.doc = Rr.doc], "unspec")
            ELSE Emit([acc EXCEPT !.doc = Rr.doc], [x \in DOMAIN keep |-> item(keep[x])])
  IN FoldLeft(step, [L EXCEPT !.ctx = <<>>, !.ro = s.ro, !.env = s.env], Upto(n))

\* crossFunction: once per input node (a single root document evaluated "together" behaves the same)
CrossS(e, s, f(_,_), whenEmpty, short(_)) ==
  IF MaybeTog(s) THEN Fail(s, "unspec")
  ELSE IF s.ctx = <<>> \/ Together(s) THEN DoCross(e, s, f, whenEmpty, short)
  ELSE PerNode(s, LAMBDA acc, c :
         LET r == DoCross(e, [s EXCEPT !.ctx = <<c>>, !.doc = acc.doc], f, whenEmpty, short)
         IN IF ~Ok(r) THEN r ELSE [r EXCEPT !.ctx = acc.ctx \o r.ctx])
NoShort(lv) == RNone
Cross(e, s, f(_,_), whenEmpty) == CrossS(e, s, f, whenEmpty, NoShort)
\* run a rule in a forced read-only context and restore the caller's mode afterwards
AsRO(s, r) == [r EXCEPT !.ro = s.ro]
RO(s) == [s EXCEPT !.ro = TRUE]

\* first result value of evaluating e read-only on the whole context (has/join/split arguments)
FirstArg(e, s) == LET r == Ev(e, RO(s)) IN
   [st |-> r.st, doc |-> r.doc, some |-> r.ctx # <<>>, v |-> IF r.ctx # <<>> /\ Ok(r) THEN ValOf(r.doc, r.ctx[1]) ELSE Null]

\* unique / group_by key of a value: scalars by (class-normalised) value; containers structurally
KeyOf(items, doc) == IF items = <<>> THEN Null ELSE ValOf(doc, items[1])
SameKey(a, b) == IF a.k = "num" /\ b.k = "num" THEN a.n * b.d = b.n * a.d /\ a.int = b.int ELSE VEq(a, b)

RECURSIVE FlattenV(_,_)
FlattenV(v, depth) ==
  IF depth = 0 \/ v.k # "seq" THEN v
  ELSE SeqV(FlatMap(LAMBDA x : IF x.k = "seq" THEN FlattenV(x, depth - 1).e ELSE <<x>>, v.e))

\* recursive descent (pre-order); keys = TRUE for `...`
\* the KEY node of the map entry at path p of the document: a string to every operator that reads values; `del` of it
\* removes the entry, `is_key` knows it
KeyItem(p, k) == [in |-> FALSE, v |-> StrV(k), sub |-> <<>>, keyat |-> p]
IsKeyItem(c) == ~c.in /\ "keyat" \in DOMAIN c
RECURSIVE Descend(_,_,_)
Descend(doc, c, keys) ==
  LET v == ValOf(doc, c) IN
  <<c>> \o
  (CASE v.k = "map" -> FlatMap(LAMBDA i : (IF keys THEN <<(IF c.in THEN KeyItem(c.p \o <<PK(v.m[i][1])>>, v.m[i][1]) ELSE Det(StrV(v.m[i][1])))>> ELSE <<>>) \o Descend(doc, Child(c, v, PK(v.m[i][1])), keys), Upto(Len(v.m)))
     [] v.k = "seq" -> FlatMap(LAMBDA i : Descend(doc, Child(c, v, PI(i - 1)), keys), Upto(Len(v.e)))
     [] OTHER -> <<>>)

EnvGet(env, name) == LET I == {i \in DOMAIN env : env[i][1] = name} IN
   IF I = {} THEN <<>> ELSE env[CHOOSE i \in I : \A j \in I : j <= i][2]
EnvSet(env, name, items) == Append(SelectSeq(env, LAMBDA b : b[1] # name), <<name, items>>)

ToEntries(v) ==
  IF v.k = "map" THEN SeqV([i \in DOMAIN v.m |-> MapV(<< <<<<"k","e","y">>, StrV(v.m[i][1])>>, <<<<"v","a","l","u","e">>, v.m[i][2]>> >>)])
  ELSE SeqV([i \in DOMAIN v.e |-> MapV(<< <<<<"k","e","y">>, IntV(i - 1)>>, <<<<"v","a","l","u","e">>, v.e[i]>> >>)])
KEY == <<"k","e","y">>
VALUE == <<"v","a","l","u","e">>
\* from_entries: every element must be a map with exactly one `key` and one `value`
FromEntries(v) ==
  IF \E i \in DOMAIN v.e : ~(v.e[i].k = "map" /\ HasKey(v.e[i], KEY) /\ HasKey(v.e[i], VALUE)) THEN RErr
  ELSE IF \E i \in DOMAIN v.e : MapGet(v.e[i], KEY).k # "str" THEN RUnspec                 \* non-string keys keep their spelling
  ELSE IF \E i, j \in DOMAIN v.e : i # j /\ MapGet(v.e[i], KEY) = MapGet(v.e[j], KEY) THEN RUnspec   \* duplicate keys
  ELSE R(MapV([i \in DOMAIN v.e |-> <<MapGet(v.e[i], KEY).s, MapGet(v.e[i], VALUE)>>]))

Ev(e, s) ==
  IF ~Ok(s) THEN s ELSE
  CASE e.op = "SELF" -> s
    [] e.op = "EMPTY" -> [s EXCEPT !.ctx = <<>>]
    [] e.op = "TRAVERSE_PATH" -> PerNode(s, LAMBDA acc, c : TraverseKey(acc, c, e.key))
    [] e.op = "TRAVERSE_ARRAY" ->
         IF e.r.op = "COLLECT" /\ e.r.r.op = "CREATE_MAP" THEN
            \* slice.  The bounds are evaluated per node; the sliced node is the LHS result (C01 finding `slice-lhs`
            \* on the pinned tree: the incoming node was sliced instead; repaired by a fix: commit)
            LET L == Ev(e.l, s) IN IF ~Ok(L) THEN L ELSE
            AsRO(s, PerNode(L, LAMBDA acc, c :
               LET v == ValOf(acc.doc, c)
                   A == Ev(e.r.r.l, [acc EXCEPT !.ctx = <<c>>])
                   B == Ev(e.r.r.r, [A EXCEPT !.ctx = <<c>>]) IN
               IF v.k \notin {"seq", "null"} THEN Fail(acc, "err")          \* only sequences can be sliced (a map or a scalar: an error, before the bounds are looked at)
               ELSE IF ~Ok(A) THEN A ELSE IF ~Ok(B) THEN B
               ELSE IF Len(A.ctx) # 1 \/ Len(B.ctx) # 1 THEN Fail(acc, "err")
               ELSE LET a == ValOf(A.doc, A.ctx[1])  b == ValOf(B.doc, B.ctx[1]) IN
                    IF ~(a.k = "num" /\ a.int /\ b.k = "num" /\ b.int) THEN Fail(acc, "unspec")
                    ELSE IF v.k # "seq" THEN Fail(acc, "unspec")          \* the slice of null
                    ELSE LET r == SliceSeq(v, a.n, b.n) IN
                         IF ~r.ok THEN Fail(acc, "unspec") ELSE Emit([acc EXCEPT !.doc = B.doc], <<Det(r.v)>>)))
         ELSE
            LET L == Ev(e.l, s) IN IF ~Ok(L) THEN L ELSE
            LET Ix == Ev(e.r, RO([s EXCEPT !.doc = L.doc])) IN IF ~Ok(Ix) THEN Ix ELSE
            IF Ix.ctx = <<>> THEN Fail(s, "unspec")
            ELSE LET iv == ValOf(Ix.doc, Ix.ctx[1]) IN
                 IF iv.k # "seq" THEN Fail(s, "unspec")
                 ELSE AsRO(s, PerNode([L EXCEPT !.doc = Ix.doc, !.ro = s.ro], LAMBDA acc, c : IndexNode(acc, c, iv.e)))
    [] e.op = "RECURSIVE_DESCENT" -> [s EXCEPT !.ctx = FlatMap(LAMBDA c : Descend(s.doc, c, e.keys), s.ctx)]
    [] e.op \in {"PIPE", "SHORT_PIPE"} ->
         IF e.l.op = "ASSIGN_VARIABLE" THEN
            \* `src as $x | body` : variableLoop, per input node
            LET loop(acc, c) ==
                  LET Src == Ev(e.l.l, RO([s EXCEPT !.ctx = <<c>>, !.doc = acc.doc])) IN
                  IF ~Ok(Src) THEN Src
                  ELSE IF Src.ctx = <<>> THEN
                       LET B == Ev(e.r, [s EXCEPT !.ctx = <<c>>, !.doc = Src.doc]) IN IF ~Ok(B) THEN B ELSE Emit([acc EXCEPT !.doc = B.doc], B.ctx)
                  ELSE FoldLeft(LAMBDA a, it :
                         IF ~Ok(a) THEN a ELSE
                         LET bound == IF e.l.isref THEN it ELSE Det(ValOf(a.doc, it))
                             B == Ev(e.r, [s EXCEPT !.ctx = <<c>>, !.doc = a.doc, !.env = EnvSet(s.env, e.l.r.name, <<bound>>)]) IN
                         IF ~Ok(B) THEN B ELSE Emit([a EXCEPT !.doc = B.doc], B.ctx),
                       [acc EXCEPT !.doc = Src.doc], Src.ctx)
            IN IF s.ctx = <<>> \/ MaybeTog(s) THEN Fail(s, "unspec") ELSE PerNode(s, loop)
         ELSE LET L == Ev(e.l, s) IN IF ~Ok(L) THEN L ELSE AsEnv(s, Ev(e.r, [L EXCEPT !.env = s.env]))
    [] e.op = "UNION" ->
         LET L == Ev(e.l, s) IN IF ~Ok(L) THEN L ELSE
         LET Rr == Ev(e.r, [s EXCEPT !.doc = L.doc]) IN IF ~Ok(Rr) THEN Rr ELSE
         IF UnionOpen(e.l, e.r) THEN Fail(Rr, "unspec")        \* both operands return the incoming list itself (C01 finding union-same-list)
         ELSE [Rr EXCEPT !.ctx = L.ctx \o Rr.ctx]
    [] e.op = "VALUE" -> [s EXCEPT !.ctx = IF s.ctx = <<>> THEN <<Det(e.v)>> ELSE [i \in DOMAIN s.ctx |-> Det(e.v)]]
    [] e.op = "GET_VARIABLE" -> [s EXCEPT !.ctx = EnvGet(s.env, e.name)]
    [] e.op = "COLLECT" ->
         IF s.ctx = <<>> THEN [s EXCEPT !.ctx = <<Det(SeqV(<<>>))>>]
         ELSE IF MaybeTog(s) THEN Fail(s, "unspec")
         ELSE IF Together(s) THEN
              \* collectTogether: every node read-only, all results in ONE sequence
              LET all == PerNode(s, LAMBDA acc, c :
                           LET r == Ev(e.r, RO([s EXCEPT !.ctx = <<c>>, !.doc = acc.doc])) IN
                           IF ~Ok(r) THEN r ELSE Emit([acc EXCEPT !.doc = r.doc], Dets(Vals(r))))
              IN IF ~Ok(all) THEN all ELSE [all EXCEPT !.ctx = <<Det(SeqV(Vals(all)))>>, !.ro = s.ro]
         ELSE PerNode(s, LAMBDA acc, c :
                LET r == Ev(e.r, [s EXCEPT !.ctx = <<c>>, !.doc = acc.doc]) IN
                IF ~Ok(r) THEN r ELSE Emit([acc EXCEPT !.doc = r.doc], <<Det(SeqV(Vals(r)))>>))
    [] e.op = "CREATE_MAP" ->
         \* one sequence (of single-entry maps, LHS-major) per input node, wrapped in one sequence
         LET mk(oa, ob) == IF oa.v.k # "str" THEN RUnspec ELSE R(MapV(<< <<oa.v.s, ob.v>> >>))
             one(acc, c) == LET r == DoCross(e, [s EXCEPT !.ctx = c, !.doc = acc.doc], mk, FALSE, NoShort) IN
                            IF ~Ok(r) THEN r ELSE Emit([acc EXCEPT !.doc = r.doc], <<Det(SeqV(Vals(r)))>>)
             all == IF s.ctx = <<>> THEN one([s EXCEPT !.ctx = <<>>], <<>>)
                    ELSE FoldLeft(LAMBDA acc, c : IF ~Ok(acc) THEN acc ELSE one(acc, <<c>>), [s EXCEPT !.ctx = <<>>], s.ctx)
         IN IF ~Ok(all) THEN all ELSE [all EXCEPT !.ctx = <<Det(SeqV(Vals(all)))>>]
    [] e.op = "COLLECT_OBJECT" ->
         \* input: one item per `k: v` entry, each a seq (per original node) of seqs of single-entry maps
         IF s.ctx = <<>> THEN [s EXCEPT !.ctx = <<Det(MapV(<<>>))>>]
         ELSE LET vs == Vals(s) IN
              IF \E j \in DOMAIN vs : vs[j].k # "seq" \/ (\E x \in DOMAIN vs[j].e : vs[j].e[x].k # "seq") THEN Fail(s, "unspec")
              ELSE IF \E j \in DOMAIN vs : Len(vs[j].e) # Len(vs[1].e) THEN Fail(s, "unspec")
              ELSE LET n == Len(vs[1].e)
                       combine(i) == FoldLeft(LAMBDA agg, j :
                                         IF j = 1 THEN vs[1].e[i].e
                                         ELSE FlatMap(LAMBDA a : [x \in DOMAIN vs[j].e[i].e |-> AddMaps(a, vs[j].e[i].e[x])], agg),
                                       <<>>, Upto(Len(vs)))
                       all == FlatMap(combine, Upto(n))
                       clash == \E i \in 1..n : \E j1, j2 \in DOMAIN vs : j1 # j2 /\
                                  \E x \in DOMAIN vs[j1].e[i].e, y \in DOMAIN vs[j2].e[i].e :
                                     vs[j1].e[i].e[x].k # "map" \/ vs[j2].e[i].e[y].k # "map" \/
                                     (\E kk \in DOMAIN vs[j1].e[i].e[x].m : HasKey(vs[j2].e[i].e[y], vs[j1].e[i].e[x].m[kk][1]))
                   IN IF clash THEN Fail(s, "unspec")                      \* same key twice: deep merge of the two values
                      ELSE [s EXCEPT !.ctx = Dets(all)]
    [] e.op = "ADD" -> AsRO(s, Cross(e, RO(s), AddVals, TRUE))
    [] e.op = "SUBTRACT" -> AsRO(s, Cross(e, RO(s), SubVals, FALSE))
    [] e.op = "MULTIPLY" -> Cross(e, s, LAMBDA oa, ob : IF ob.v.k = "null" THEN R(oa.v)
                                                        ELSE IF IsContainer(oa.v) \/ IsContainer(ob.v) THEN RUnspec   \* merge: Merge.tla
                                                        ELSE IF oa.v.k = "null" THEN RErr
                                                        ELSE MulScalars(oa.v, ob.v), FALSE)
    [] e.op = "DIVIDE" -> AsRO(s, Cross(e, RO(s), DivVals, FALSE))
    [] e.op = "MODULO" -> AsRO(s, Cross(e, RO(s), ModVals, FALSE))
    [] e.op = "EQUALS" -> Cross(e, s, LAMBDA oa, ob : EqVals(FALSE, oa, ob), TRUE)
    [] e.op = "NOT_EQUALS" -> AsRO(s, Cross(e, RO(s), LAMBDA oa, ob : EqVals(TRUE, oa, ob), TRUE))
    [] e.op = "COMPARE" -> Cross(e, s, LAMBDA oa, ob : CmpVals(e.greater, e.oreq, oa, ob), TRUE)
    [] e.op = "CONTAINS" -> AsRO(s, Cross(e, RO(s), ContainsVals, FALSE))
    [] e.op = "OR" -> AsRO(s, CrossS(e, RO(s), LAMBDA oa, ob : R(BoolV(ob.some /\ Truthy(ob.v))), TRUE,
                                     LAMBDA lv : IF lv.some /\ Truthy(lv.v) THEN R(BoolV(TRUE)) ELSE RNone))
    [] e.op = "AND" -> AsRO(s, CrossS(e, RO(s), LAMBDA oa, ob : R(BoolV(ob.some /\ Truthy(ob.v))), TRUE,
                                      LAMBDA lv : IF ~(lv.some /\ Truthy(lv.v)) THEN R(BoolV(FALSE)) ELSE RNone))
    [] e.op = "ALTERNATIVE" -> CrossS(e, s, LAMBDA oa, ob : IF ~oa.some THEN (IF ob.some THEN RRhs ELSE RNone)
                                                            ELSE IF ~ob.some THEN RLhs
                                                            ELSE IF Truthy(oa.v) THEN RLhs ELSE RRhs, TRUE,
                                      LAMBDA lv : IF lv.some /\ Truthy(lv.v) THEN RLhs ELSE RNone)
    [] e.op = "NOT" -> [s EXCEPT !.ctx = [i \in DOMAIN s.ctx |-> Det(BoolV(~Truthy(ValOf(s.doc, s.ctx[i]))))]]
    [] e.op = "SELECT" ->
         PerNode(s, LAMBDA acc, c :
            LET r == Ev(e.r, RO([s EXCEPT !.ctx = <<c>>, !.doc = acc.doc])) IN
            IF ~Ok(r) THEN r
            ELSE IF \E i \in DOMAIN r.ctx : Truthy(ValOf(r.doc, r.ctx[i]))
                 THEN Emit([acc EXCEPT !.doc = r.doc], <<c>>) ELSE [acc EXCEPT !.doc = r.doc])
    [] e.op = "MAP" ->
         PerNode(s, LAMBDA acc, c :
            LET sp == SplatNode([acc EXCEPT !.ctx = <<>>], c) IN IF ~Ok(sp) THEN sp ELSE
            LET r == Ev(e.r, [s EXCEPT !.ctx = sp.ctx, !.doc = sp.doc]) IN
            IF ~Ok(r) THEN r ELSE Emit([acc EXCEPT !.doc = r.doc], <<Det(SeqV(Vals(r)))>>))
    [] e.op = "FILTER" ->
         PerNode(s, LAMBDA acc, c :
            LET sp == SplatNode([acc EXCEPT !.ctx = <<>>], c) IN IF ~Ok(sp) THEN sp ELSE
            LET r == Ev(EUn("SELECT", e.r), [s EXCEPT !.ctx = sp.ctx, !.doc = sp.doc]) IN
            IF ~Ok(r) THEN r ELSE Emit([acc EXCEPT !.doc = r.doc], <<Det(SeqV(Vals(r)))>>))
    [] e.op = "LENGTH" ->
         LET len(v) == CASE v.k = "seq" -> Len(v.e) [] v.k = "map" -> Len(v.m) [] v.k = "str" -> Len(v.s) [] v.k = "null" -> 0 [] OTHER -> -1
         IN IF \E i \in DOMAIN s.ctx : len(ValOf(s.doc, s.ctx[i])) < 0 THEN Fail(s, "unspec")   \* length of numbers/booleans: spelling length
            ELSE [s EXCEPT !.ctx = [i \in DOMAIN s.ctx |-> Det(IntV(len(ValOf(s.doc, s.ctx[i]))))]]
    [] e.op = "KEYS" ->
         IF \E i \in DOMAIN s.ctx : IsScalar(ValOf(s.doc, s.ctx[i])) THEN Fail(s, "err")
         ELSE [s EXCEPT !.ctx = [i \in DOMAIN s.ctx |-> LET v == ValOf(s.doc, s.ctx[i]) IN
                 Det(IF v.k = "map" THEN SeqV([j \in DOMAIN v.m |-> StrV(v.m[j][1])]) ELSE SeqV([j \in DOMAIN v.e |-> IntV(j - 1)]))]]
    [] e.op = "HAS" ->
         LET a == FirstArg(e.r, s) IN
         IF a.st # "ok" THEN Fail(s, a.st)
         ELSE LET k == IF a.some THEN a.v ELSE Null
                  has(v) == CASE v.k = "map" -> IF k.k = "str" THEN R(BoolV(HasKey(v, k.s))) ELSE IF k.k = "null" /\ ~a.some THEN RUnspec ELSE IF IsScalar(k) THEN RUnspec ELSE RUnspec
                              [] v.k = "seq" -> IF k.k = "num" /\ k.int THEN (IF k.n < 0 THEN R(BoolV(-k.n <= Len(v.e))) ELSE R(BoolV(k.n < Len(v.e)))) ELSE IF k.k = "num" THEN RUnspec ELSE R(BoolV(FALSE))
                              [] OTHER -> R(BoolV(FALSE))
                  outs == [i \in DOMAIN s.ctx |-> has(ValOf(a.doc, s.ctx[i]))]
              IN IF \E i \in DOMAIN outs : outs[i].t = "unspec" THEN Fail(s, "unspec")
                 ELSE [s EXCEPT !.doc = a.doc, !.ctx = [i \in DOMAIN outs |-> Det(outs[i].v)]]
    [] e.op = "TO_ENTRIES" ->
         IF \E i \in DOMAIN s.ctx : LET v == ValOf(s.doc, s.ctx[i]) IN IsScalar(v) /\ v.k # "null" THEN Fail(s, "err")
         ELSE [s EXCEPT !.ctx = FlatMap(LAMBDA c : LET v == ValOf(s.doc, c) IN IF v.k = "null" THEN <<>> ELSE <<Det(ToEntries(v))>>, s.ctx)]
    [] e.op = "FROM_ENTRIES" ->
         IF \E i \in DOMAIN s.ctx : ValOf(s.doc, s.ctx[i]).k # "seq" THEN Fail(s, "err")
         ELSE LET outs == [i \in DOMAIN s.ctx |-> FromEntries(ValOf(s.doc, s.ctx[i]))] IN
              IF \E i \in DOMAIN outs : outs[i].t = "err" THEN Fail(s, "err")
              ELSE IF \E i \in DOMAIN outs : outs[i].t = "unspec" THEN Fail(s, "unspec")
              ELSE [s EXCEPT !.ctx = [i \in DOMAIN outs |-> Det(outs[i].v)]]
    [] e.op = "WITH_ENTRIES" ->
         \* to_entries, the body on every entry separately (an empty container runs it zero times), from_entries
         PerNode(s, LAMBDA acc, c :
            LET v == ValOf(acc.doc, c) IN
            IF v.k = "null" THEN acc
            ELSE IF IsScalar(v) THEN Fail(acc, "err")
            ELSE LET ents == ToEntries(v).e
                     body == FoldLeft(LAMBDA a, i : IF ~Ok(a) THEN a ELSE
                                        LET r == Ev(e.r, [s EXCEPT !.ctx = <<Det(ents[i])>>, !.doc = a.doc]) IN
                                        IF ~Ok(r) THEN r ELSE Emit([a EXCEPT !.doc = r.doc], Dets(Vals(r))),
                                      [acc EXCEPT !.ctx = <<>>], Upto(Len(ents)))
                 IN IF ~Ok(body) THEN body
                    ELSE LET fe == FromEntries(SeqV(Vals(body))) IN
                         IF fe.t = "err" THEN Fail(acc, "err") ELSE IF fe.t = "unspec" THEN Fail(acc, "unspec")
                         ELSE Emit([acc EXCEPT !.doc = body.doc], <<Det(fe.v)>>))
    [] e.op = "REVERSE" ->
         IF \E i \in DOMAIN s.ctx : ValOf(s.doc, s.ctx[i]).k # "seq" THEN Fail(s, "err")
         ELSE [s EXCEPT !.ctx = [i \in DOMAIN s.ctx |-> Det(SeqV(RevSeq(ValOf(s.doc, s.ctx[i]).e)))]]
    [] e.op \in {"UNIQUE", "UNIQUE_BY", "GROUP_BY"} ->
         LET keyExp == IF e.op = "UNIQUE" THEN ESelf ELSE e.r IN
         PerNode(s, LAMBDA acc, c :
            LET v == ValOf(acc.doc, c) IN
            IF v.k # "seq" THEN Fail(acc, "err") ELSE
            \* keys of all elements, each evaluated read-only on its element
            LET ks == FoldLeft(LAMBDA a, i : IF a.st # "ok" THEN a ELSE
                                LET r == Ev(keyExp, RO([s EXCEPT !.ctx = <<Child(c, v, PI(i - 1))>>, !.doc = a.doc])) IN
                                IF ~Ok(r) THEN [a EXCEPT !.st = r.st] ELSE [a EXCEPT !.doc = r.doc, !.keys = Append(@, KeyOf(r.ctx, r.doc))],
                             [st |-> "ok", doc |-> acc.doc, keys |-> <<>>], Upto(Len(v.e))) IN
            IF ks.st # "ok" THEN Fail(acc, ks.st)
            ELSE IF \E i, j \in DOMAIN ks.keys : ks.keys[i].k = "num" /\ ks.keys[j].k = "num" /\ ks.keys[i].int # ks.keys[j].int /\ NumCmp(ks.keys[i], ks.keys[j]) = 0 THEN Fail(acc, "unspec")
            ELSE LET firstIdx(i) == CHOOSE j \in 1..i : SameKey(ks.keys[j], ks.keys[i]) /\ \A x \in 1..(j - 1) : ~SameKey(ks.keys[x], ks.keys[i])
                     firsts == SelectSeq(Upto(Len(v.e)), LAMBDA i : firstIdx(i) = i)
                     vNow == ValOf(ks.doc, c)
                 IN IF e.op = "GROUP_BY"
                    THEN Emit([acc EXCEPT !.doc = ks.doc], <<Det(SeqV([g \in DOMAIN firsts |-> SeqV([x \in DOMAIN SelectSeq(Upto(Len(v.e)), LAMBDA i : firstIdx(i) = firsts[g]) |-> vNow.e[SelectSeq(Upto(Len(v.e)), LAMBDA i : firstIdx(i) = firsts[g])[x]]])]))>>)
                    ELSE Emit([acc EXCEPT !.doc = ks.doc], <<Det(SeqV([g \in DOMAIN firsts |-> vNow.e[firsts[g]]]))>>))
    [] e.op = "FLATTEN_BY" ->
         IF \E i \in DOMAIN s.ctx : ValOf(s.doc, s.ctx[i]).k # "seq" THEN Fail(s, "err")
         ELSE [s EXCEPT !.ctx = [i \in DOMAIN s.ctx |-> Det(FlattenV(ValOf(s.doc, s.ctx[i]), e.depth))]]
    [] e.op \in {"ANY", "ALL"} ->
         IF \E i \in DOMAIN s.ctx : ValOf(s.doc, s.ctx[i]).k # "seq" THEN Fail(s, "err")
         ELSE [s EXCEPT !.ctx = [i \in DOMAIN s.ctx |-> LET v == ValOf(s.doc, s.ctx[i]) IN
                 Det(BoolV(IF e.op = "ANY" THEN \E j \in DOMAIN v.e : Truthy(v.e[j]) ELSE \A j \in DOMAIN v.e : Truthy(v.e[j])))]]
    [] e.op \in {"ANY_CONDITION", "ALL_CONDITION"} ->
         PerNode(s, LAMBDA acc, c :
            LET v == ValOf(acc.doc, c) IN
            IF v.k # "seq" THEN Fail(acc, "err") ELSE
            \* elements are tested in order, each read-only, first result of the condition; stops at the first decisive element
            LET want == (e.op = "ANY_CONDITION")
                run == FoldLeft(LAMBDA a, i : IF a.st # "ok" \/ a.found THEN a ELSE
                                  LET r == Ev(e.r, RO([s EXCEPT !.ctx = <<Child(c, v, PI(i - 1))>>, !.doc = a.doc])) IN
                                  IF ~Ok(r) THEN [a EXCEPT !.st = r.st]
                                  ELSE [a EXCEPT !.doc = r.doc, !.found = r.ctx # <<>> /\ (Truthy(ValOf(r.doc, r.ctx[1])) = want)],
                               [st |-> "ok", doc |-> acc.doc, found |-> FALSE], Upto(Len(v.e)))
            IN IF run.st # "ok" THEN Fail(acc, run.st)
               ELSE Emit([acc EXCEPT !.doc = run.doc], <<Det(BoolV(IF want THEN run.found ELSE ~run.found))>>))
    [] e.op = "JOIN" ->
         LET a == FirstArg(e.r, s) IN
         IF a.st # "ok" THEN Fail(s, a.st)
         ELSE IF \E i \in DOMAIN s.ctx : ValOf(a.doc, s.ctx[i]).k # "seq" THEN Fail(s, "err")
         ELSE IF a.some /\ a.v.k # "str" THEN Fail(s, "unspec")
         ELSE LET sep == IF a.some THEN a.v.s ELSE <<>>
                  piece(x) == IF x.k = "null" THEN <<>> ELSE x.s
                  joinOf(v) == FoldLeft(LAMBDA acc, i : (IF i = 1 THEN <<>> ELSE acc \o sep) \o piece(v.e[i]), <<>>, Upto(Len(v.e)))
              IN IF \E i \in DOMAIN s.ctx : \E j \in DOMAIN ValOf(a.doc, s.ctx[i]).e : ValOf(a.doc, s.ctx[i]).e[j].k \notin {"str", "null"} THEN Fail(s, "unspec")
                 ELSE [s EXCEPT !.doc = a.doc, !.ctx = [i \in DOMAIN s.ctx |-> Det(StrV(joinOf(ValOf(a.doc, s.ctx[i]))))]]
    [] e.op = "SPLIT" ->
         LET a == FirstArg(e.r, s) IN
         IF a.st # "ok" THEN Fail(s, a.st)
         ELSE IF \E i \in DOMAIN s.ctx : ValOf(a.doc, s.ctx[i]).k \notin {"str", "null"} THEN Fail(s, "err")
         ELSE IF ~a.some \/ a.v.k # "str" \/ a.v.s = <<>> THEN Fail(s, "unspec")
         ELSE [s EXCEPT !.doc = a.doc, !.ctx = FlatMap(LAMBDA c : LET v == ValOf(a.doc, c) IN
                 IF v.k = "null" THEN <<>> ELSE IF v.s = <<>> THEN <<Det(SeqV(<<>>))>>       \* the empty string has no pieces
                 ELSE <<Det(SeqV([j \in DOMAIN SplitStr(v.s, a.v.s) |-> StrV(SplitStr(v.s, a.v.s)[j])]))>>, s.ctx)]
    [] e.op = "REDUCE" ->
         LET Src == Ev(e.l.l, s) IN IF ~Ok(Src) THEN Src ELSE
         LET Acc0 == Ev(e.r.l, [s EXCEPT !.doc = Src.doc]) IN IF ~Ok(Acc0) THEN Acc0 ELSE
         AsEnv(s, FoldLeft(LAMBDA acc, it : IF ~Ok(acc) THEN acc
                                            ELSE Ev(e.r.r, [acc EXCEPT !.env = EnvSet(acc.env, e.l.r.name, <<it>>)]),
                           Acc0, Src.ctx))
    [] OTHER -> EvMore(e, s)

\* ---------------------------------------------------------------- assignment, delete, path (C02, C03, C16)
\* delete a set of positions from a value: exactly those entries disappear, every other entry keeps value and order
DelPaths(v, P) ==
  FoldLeft(LAMBDA acc, p : IF p # <<>> /\ p \in P /\ Exists(acc, p) THEN DelAt(acc, p) ELSE acc, v, RevSeq(Paths(v)))

\* the arithmetic behind `op=`
CompoundOp(op, a, b) == CASE op = "ADD_ASSIGN" -> AddVals(Some(a), Some(b)) [] op = "SUBTRACT_ASSIGN" -> SubVals(Some(a), Some(b))
                          [] OTHER -> (IF b.k = "null" THEN R(a) ELSE IF IsContainer(a) \/ IsContainer(b) THEN RUnspec ELSE IF a.k = "null" THEN RErr ELSE MulScalars(a, b))

EvMore(e, s) ==
  CASE e.op = "ASSIGN" /\ ~e.update ->
         \* `l = r`: the LHS is evaluated writable (missing maps / sequence slots are created), then every match takes
         \* the value of every RHS result in turn (LHS-major; the last one stays); the context is returned
         LET L == Ev(e.l, s) IN IF ~Ok(L) THEN L ELSE
         IF \E i \in DOMAIN L.ctx : ~L.ctx[i].in THEN
              \* assigning into a value an operator has BUILT (the keys of a map, a difference, a sorted copy ...) changes that
              \* value only - it shares nothing with the document, which stays as it is. Decided for a literal on the right,
              \* one context node that is in the document and a left side that yields built values only; else left open.
              IF e.r.op = "VALUE" /\ Len(s.ctx) = 1 /\ s.ctx[1].in /\ (\A i \in DOMAIN L.ctx : ~L.ctx[i].in /\ ~IsKeyItem(L.ctx[i])) THEN [s EXCEPT !.doc = L.doc]
              ELSE Fail(s, "unspec")
         ELSE \* the product is taken per context node: LHS and RHS are re-evaluated read-only relative to that node
              LET done == FoldLeft(LAMBDA acc0, c : IF ~Ok(acc0) THEN acc0 ELSE
                            LET Lc == Ev(e.l, RO([s EXCEPT !.doc = acc0.doc, !.ctx = <<c>>])) IN
                            IF ~Ok(Lc) THEN Lc
                            ELSE IF \E i \in DOMAIN Lc.ctx : ~Lc.ctx[i].in THEN Fail(acc0, "unspec")
                            ELSE FoldLeft(LAMBDA acc, li : IF ~Ok(acc) THEN acc ELSE
                                   LET Rr == Ev(e.r, RO([s EXCEPT !.doc = acc.doc, !.ctx = <<c>>])) IN
                                   IF ~Ok(Rr) THEN Rr
                                   \* a value assigned into itself (`.a = .`) is the value as it was; with several results the later ones are not decided
                                   ELSE IF Len(Rr.ctx) > 1 /\ \E j \in DOMAIN Rr.ctx : Rr.ctx[j].in /\ Rr.ctx[j].p # Lc.ctx[li].p /\ IsPathPrefix(Rr.ctx[j].p, Lc.ctx[li].p) THEN Fail(acc, "unspec")
                                   ELSE FoldLeft(LAMBDA a2, rj : [a2 EXCEPT !.doc = IF Exists(a2.doc, Lc.ctx[li].p) THEN Replace(a2.doc, Lc.ctx[li].p, ValOf(a2.doc, rj)) ELSE a2.doc],
                                                 [acc EXCEPT !.doc = Rr.doc], Rr.ctx),
                                 [acc0 EXCEPT !.doc = Lc.doc], Upto(Len(Lc.ctx))),
                          [s EXCEPT !.doc = L.doc], s.ctx)
              IN IF ~Ok(done) THEN done ELSE [s EXCEPT !.doc = done.doc]
    [] e.op = "ASSIGN" /\ e.update ->
         \* `l |= r`: matches are processed back to front, each takes the FIRST result of r evaluated on itself
         LET L == Ev(e.l, s) IN IF ~Ok(L) THEN L ELSE
         IF \E i \in DOMAIN L.ctx : ~L.ctx[i].in THEN Fail(s, "unspec")
         ELSE LET done == FoldLeft(LAMBDA acc, li : IF ~Ok(acc) THEN acc
                                ELSE IF ~Exists(acc.doc, L.ctx[li].p) THEN acc
                                ELSE LET Rr == Ev(e.r, [s EXCEPT !.doc = acc.doc, !.ctx = <<L.ctx[li]>>]) IN
                                     IF ~Ok(Rr) THEN Rr
                                     ELSE IF Rr.ctx = <<>> THEN [acc EXCEPT !.doc = Rr.doc]
                                     ELSE [acc EXCEPT !.doc = IF Exists(Rr.doc, L.ctx[li].p) THEN Replace(Rr.doc, L.ctx[li].p, ValOf(Rr.doc, Rr.ctx[1])) ELSE Rr.doc],
                              [s EXCEPT !.doc = L.doc], RevSeq(Upto(Len(L.ctx))))
              IN IF ~Ok(done) THEN done ELSE [s EXCEPT !.doc = done.doc]
    [] e.op \in {"ADD_ASSIGN", "SUBTRACT_ASSIGN", "MULTIPLY_ASSIGN"} ->
         \* `l op= r`: both sides are relative to EACH node of the context (as for `=`); every match m of l takes `m op x`
         \* for the results x of r (evaluated read-only); the last stays
         IF s.ctx = <<>> THEN Fail(s, "unspec")
         ELSE LET perNode(acc0, c) ==
                    LET sc == [s EXCEPT !.doc = acc0.doc, !.ctx = <<c>>]
                        L == Ev(e.l, sc) IN
                    IF ~Ok(L) THEN L
                    ELSE IF \E i \in DOMAIN L.ctx : ~L.ctx[i].in THEN Fail(acc0, "unspec")
                    ELSE FoldLeft(LAMBDA acc, li : IF ~Ok(acc) THEN acc
                                ELSE IF ~Exists(acc.doc, L.ctx[li].p) THEN acc
                                ELSE LET m0 == ValOf(acc.doc, L.ctx[li])
                                         Rr == Ev(e.r, RO([sc EXCEPT !.doc = acc.doc])) IN
                                     IF ~Ok(Rr) THEN Rr
                                     ELSE FoldLeft(LAMBDA a2, rj : IF ~Ok(a2) THEN a2 ELSE
                                                     LET o == CompoundOp(e.op, m0, ValOf(a2.doc, rj)) IN
                                                     IF o.t = "err" THEN Fail(a2, "err") ELSE IF o.t # "val" THEN Fail(a2, "unspec")
                                                     ELSE [a2 EXCEPT !.doc = Replace(a2.doc, L.ctx[li].p, o.v)],
                                                   [acc EXCEPT !.doc = Rr.doc], Rr.ctx),
                              [acc0 EXCEPT !.doc = L.doc], Upto(Len(L.ctx)))
                  done == FoldLeft(LAMBDA acc0, c : IF ~Ok(acc0) THEN acc0 ELSE
                                     IF c.in /\ ~Exists(acc0.doc, c.p) THEN Fail(acc0, "unspec") ELSE perNode(acc0, c), s, s.ctx)
              IN IF ~Ok(done) THEN done ELSE [s EXCEPT !.doc = done.doc]
    [] e.op = "DELETE_CHILD" ->
         \* `del(sel)`: the selection is evaluated read-only on the whole context; precisely the selected nodes disappear
         \* (from the document, or from the detached container they sit in); the context is returned - without the
         \* context nodes that were selected THEMSELVES (a top-level node has no container to be cut out of: it is dropped
         \* from the results), all of them, and the other selected nodes are deleted as well
         LET Sel == Ev(e.r, RO(s)) IN IF ~Ok(Sel) THEN Sel ELSE
         LET isTop(it) == IF it.in THEN it.p = <<>> ELSE it.sub = <<>> /\ ~IsKeyItem(it)
             tops == {Sel.ctx[i] : i \in {j \in DOMAIN Sel.ctx : isTop(Sel.ctx[j])}} IN
         IF tops # {} /\ ~FromInput(e.r) THEN Fail(s, "unspec")          \* a top-level node that is not one of the context's (del([1]))
         ELSE IF \E i, j \in DOMAIN s.ctx : i # j /\ ~s.ctx[i].in /\ ~s.ctx[j].in /\ s.ctx[i].v = s.ctx[j].v THEN Fail(s, "unspec")
         ELSE LET docP == {Sel.ctx[i].p : i \in {j \in DOMAIN Sel.ctx : Sel.ctx[j].in}}
                          \cup {Sel.ctx[i].keyat : i \in {j \in DOMAIN Sel.ctx : IsKeyItem(Sel.ctx[j])}}       \* a selected KEY takes its entry with it
                  detP(c) == {Sel.ctx[i].sub : i \in {j \in DOMAIN Sel.ctx : ~Sel.ctx[j].in /\ ~IsKeyItem(Sel.ctx[j]) /\ Sel.ctx[j].v = c.v}}
                  kept == SelectSeq(s.ctx, LAMBDA c : c \notin tops)
                  \* a context node that is itself deleted from its container, or sits behind a deleted element of its sequence,
                  \* is handed back as the node it was: the reference, which names nodes by position, leaves that open
                  moved(c) == \E q \in docP : q # <<>> /\ Len(q) <= Len(c.p) /\ SubSeq(q, 1, Len(q) - 1) = SubSeq(c.p, 1, Len(q) - 1)
                                              /\ (q[Len(q)] = c.p[Len(q)] \/ (q[Len(q)].t = "i" /\ c.p[Len(q)].t = "i" /\ q[Len(q)].idx < c.p[Len(q)].idx))
              IN IF \E i \in DOMAIN kept : kept[i].in /\ moved(kept[i]) THEN Fail(s, "unspec") ELSE
                 [s EXCEPT !.doc = DelPaths(Sel.doc, docP),
                           !.ctx = [i \in DOMAIN kept |-> IF kept[i].in THEN kept[i] ELSE [kept[i] EXCEPT !.v = DelPaths(@, detP(kept[i]))]]]
    [] e.op = "GET_PATH" ->
         IF \E i \in DOMAIN s.ctx : ~s.ctx[i].in THEN Fail(s, "unspec")                     \* detached nodes: only the relative law of C16 applies
         ELSE [s EXCEPT !.ctx = [i \in DOMAIN s.ctx |-> Det(SeqV([j \in DOMAIN s.ctx[i].p |-> IF s.ctx[i].p[j].t = "k" THEN StrV(s.ctx[i].p[j].key) ELSE IntV(s.ctx[i].p[j].idx)]))]]
    [] e.op = "GET_KEY" ->
         IF \E i \in DOMAIN s.ctx : ~s.ctx[i].in THEN Fail(s, "unspec")
         ELSE [s EXCEPT !.ctx = FlatMap(LAMBDA c : IF c.p = <<>> THEN <<>> ELSE LET l == c.p[Len(c.p)] IN <<(IF l.t = "k" THEN KeyItem(c.p, l.key) ELSE Det(IntV(l.idx)))>>, s.ctx)]
    [] e.op = "GET_PARENT" ->
         IF \E i \in DOMAIN s.ctx : ~s.ctx[i].in THEN Fail(s, "unspec")
         ELSE LET lvl == IF "level" \in DOMAIN e THEN e.level ELSE 1 IN          \* parent(n): n levels up; a node that has no such ancestor yields nothing
              [s EXCEPT !.ctx = FlatMap(LAMBDA c : IF Len(c.p) < lvl THEN <<>> ELSE <<InDoc(SubSeq(c.p, 1, Len(c.p) - lvl))>>, s.ctx)]
    [] e.op \in {"SORT", "SORT_BY"} ->
         \* Order.tla (C15): stable sort of a sequence by the value itself / by the first result of the key expression
         PerNode(s, LAMBDA acc, c :
            LET v == ValOf(acc.doc, c) IN
            IF IsScalar(v) THEN Fail(acc, "err") ELSE IF v.k = "map" THEN Fail(acc, "unspec") ELSE
            LET keyExp == IF e.op = "SORT" THEN ESelf ELSE e.r
                ks == FoldLeft(LAMBDA a, i : IF a.st # "ok" THEN a ELSE
                                LET r == Ev(keyExp, RO([s EXCEPT !.ctx = <<Child(c, v, PI(i - 1))>>, !.doc = a.doc])) IN
                                IF ~Ok(r) THEN [a EXCEPT !.st = r.st] ELSE IF Len(r.ctx) > 1 THEN [a EXCEPT !.st = "unspec"]
                                ELSE [a EXCEPT !.doc = r.doc, !.keys = Append(@, KeyOf(r.ctx, r.doc))],
                             [st |-> "ok", doc |-> acc.doc, keys |-> <<>>], Upto(Len(v.e))) IN
            IF ks.st # "ok" THEN Fail(acc, ks.st)
            ELSE IF \E i \in DOMAIN ks.keys : IsContainer(ks.keys[i]) THEN Fail(acc, "unspec")          \* containers as sort keys
            ELSE IF (\E i \in DOMAIN ks.keys : ks.keys[i].k = "num") /\ (\E i \in DOMAIN ks.keys : ks.keys[i].k = "str") THEN Fail(acc, "unspec")
            ELSE LET pairs == [i \in DOMAIN v.e |-> <<ks.keys[i], i>>]
                     sorted == SortBy(pairs, LAMBDA pr : pr[1], Leq)
                     vNow == ValOf(ks.doc, c)
                 IN Emit([acc EXCEPT !.doc = ks.doc], <<Det(SeqV([i \in DOMAIN sorted |-> vNow.e[sorted[i][2]]]))>>))
    [] OTHER -> EvExt(e, s)

\* ---------------------------------------------------------------- tag, kind, to_string, to_number, pivot, setpath, delpaths
Atoms(str) == str        \* strings are written as tuples of one-character atoms
TagOf(v) == CASE v.k = "null" -> <<"!", "!", "n", "u", "l", "l">> [] v.k = "bool" -> <<"!", "!", "b", "o", "o", "l">>
              [] v.k = "num" -> (IF v.int THEN <<"!", "!", "i", "n", "t">> ELSE <<"!", "!", "f", "l", "o", "a", "t">>)
              [] v.k = "str" -> <<"!", "!", "s", "t", "r">> [] v.k = "seq" -> <<"!", "!", "s", "e", "q">> [] v.k = "map" -> <<"!", "!", "m", "a", "p">>
KindOf(v) == IF v.k = "seq" THEN <<"s", "e", "q">> ELSE IF v.k = "map" THEN <<"m", "a", "p">> ELSE <<"s", "c", "a", "l", "a", "r">>
\* a path given as a value: a sequence of strings (keys) and integers (indices) -> the traversal expression
IsPathValue(v) == v.k = "seq" /\ \A i \in DOMAIN v.e : v.e[i].k = "str" \/ (v.e[i].k = "num" /\ v.e[i].int)
StepExpr(x) == IF x.k = "str" THEN EPath(x.s) ELSE EIndex(x.n)
PathToExpr(v) == FoldLeft(LAMBDA acc, x : IF acc.op = "SELF" THEN StepExpr(x) ELSE EPipe(acc, StepExpr(x)), ESelf, v.e)
\* a container that holds nothing but nulls may have been created on the way by a traversal of a null (auto-creation);
\* the pinned suite fixes that such a container has NO tag until it is printed, so its `tag` is left open
RECURSIVE OnlyNulls(_)
OnlyNulls(v) == CASE v.k = "null" -> TRUE [] v.k = "seq" -> \A i \in DOMAIN v.e : OnlyNulls(v.e[i]) [] v.k = "map" -> \A i \in DOMAIN v.m : OnlyNulls(v.m[i][2]) [] OTHER -> FALSE
Lowers == <<"a", "b", "c", "d", "e", "f", "g", "h", "i", "j", "k", "l", "m", "n", "o", "p", "q", "r", "s", "t", "u", "v", "w", "x", "y", "z">>
Uppers == <<"A", "B", "C", "D", "E", "F", "G", "H", "I", "J", "K", "L", "M", "N", "O", "P", "Q", "R", "S", "T", "U", "V", "W", "X", "Y", "Z">>
UpperAtom(a) == IF \E i \in 1..26 : Lowers[i] = a THEN Uppers[CHOOSE i \in 1..26 : Lowers[i] = a] ELSE a
LowerAtom(a) == IF \E i \in 1..26 : Uppers[i] = a THEN Lowers[CHOOSE i \in 1..26 : Uppers[i] = a] ELSE a
RECURSIVE TrimLeft(_)
TrimLeft(t) == IF t # <<>> /\ Head(t) = " " THEN TrimLeft(Tail(t)) ELSE t
TrimAtoms(t) == RevSeq(TrimLeft(RevSeq(TrimLeft(t))))
\* the environment the conformance harness runs the implementation in (set by the harness, see harness/expr.go)
EnvTable == << [name |-> "va", text |-> <<"a">>, val |-> StrV(<<"a">>)], [name |-> "vn", text |-> <<"2">>, val |-> IntV(2)],
               [name |-> "vt", text |-> <<"t", "r", "u", "e">>, val |-> BoolV(TRUE)] >>      \* "vu" is not set
EvExt(e, s) ==
  CASE e.op = "GET_TAG"  -> \* containers built by operators (pivot, ...) are not all tagged either: only containers of the document are decided
                            IF \E i \in DOMAIN s.ctx : LET v == ValOf(s.doc, s.ctx[i]) IN IsContainer(v) /\ (OnlyNulls(v) \/ ~s.ctx[i].in) THEN Fail(s, "unspec")
                            ELSE [s EXCEPT !.ctx = [i \in DOMAIN s.ctx |-> Det(StrV(TagOf(ValOf(s.doc, s.ctx[i]))))]]
    [] e.op = "GET_KIND" -> [s EXCEPT !.ctx = [i \in DOMAIN s.ctx |-> Det(StrV(KindOf(ValOf(s.doc, s.ctx[i]))))]]
    [] e.op = "TO_STRING" ->
         IF \E i \in DOMAIN s.ctx : LET v == ValOf(s.doc, s.ctx[i]) IN IsContainer(v) \/ (v.k = "num" /\ ~v.int) THEN Fail(s, "unspec")   \* containers print as YAML text, floats by spelling
         ELSE [s EXCEPT !.ctx = [i \in DOMAIN s.ctx |-> LET v == ValOf(s.doc, s.ctx[i]) IN
                 Det(StrV(CASE v.k = "str" -> v.s [] v.k = "num" -> IntAtoms(v.n) [] v.k = "null" -> <<"n", "u", "l", "l">>
                            [] v.k = "bool" -> (IF v.b THEN <<"t", "r", "u", "e">> ELSE <<"f", "a", "l", "s", "e">>)))]]
    [] e.op = "TO_NUMBER" ->
         LET conv(v) == IF v.k = "num" THEN R(v)
                        ELSE IF v.k # "str" THEN RErr
                        ELSE IF v.s = <<>> THEN RUnspec
                        ELSE IF \A j \in DOMAIN v.s : IsDigitAtom(v.s[j]) THEN (IF Len(v.s) > 1 /\ v.s[1] = "0" THEN RUnspec ELSE R(IntV(FoldLeft(LAMBDA acc, a : acc * 10 + DigitVal(a), 0, v.s))))
                        ELSE IF \E j \in DOMAIN v.s : IsDigitAtom(v.s[j]) THEN RUnspec ELSE RErr
             rs == [i \in DOMAIN s.ctx |-> conv(ValOf(s.doc, s.ctx[i]))]
         IN IF \E i \in DOMAIN rs : rs[i].t = "err" THEN Fail(s, "err") ELSE IF \E i \in DOMAIN rs : rs[i].t # "val" THEN Fail(s, "unspec")
            ELSE [s EXCEPT !.ctx = [i \in DOMAIN rs |-> Det(rs[i].v)]]
    [] e.op = "PIVOT" ->
         PerNode(s, LAMBDA acc, c :
            LET v == ValOf(acc.doc, c) IN
            IF v.k # "seq" \/ v.e = <<>> THEN Fail(acc, "unspec")
            ELSE IF \E i \in DOMAIN v.e : IsScalar(v.e[i]) THEN Fail(acc, "err")
            ELSE IF \A i \in DOMAIN v.e : v.e[i].k = "seq" THEN
                 LET n == FoldLeft(LAMBDA m, x : Max2(m, Len(x.e)), 0, v.e) IN
                 Emit(acc, <<Det(SeqV([j \in 1..n |-> SeqV([i \in DOMAIN v.e |-> IF j <= Len(v.e[i].e) THEN v.e[i].e[j] ELSE Null])]))>>)
            ELSE IF \A i \in DOMAIN v.e : v.e[i].k = "map" THEN
                 LET keys == FoldLeft(LAMBDA ks, x : FoldLeft(LAMBDA k2, kv : IF \E j \in DOMAIN k2 : k2[j] = kv[1] THEN k2 ELSE Append(k2, kv[1]), ks, x.m), <<>>, v.e) IN
                 Emit(acc, <<Det(MapV([j \in DOMAIN keys |-> <<keys[j], SeqV([i \in DOMAIN v.e |-> IF HasKey(v.e[i], keys[j]) THEN MapGet(v.e[i], keys[j]) ELSE Null])>>]))>>)
            ELSE Fail(acc, "unspec"))
    [] e.op \in {"PICK", "OMIT"} ->
         \* pick(keys) / omit(keys): the list is evaluated once on the whole context IN THE CALLER'S MODE (a path in it that
         \* does not exist yet is created, as anywhere else); only its first result counts. A map keeps the listed keys IN
         \* THE ORDER OF THE LIST (omit: loses them, in its own order); a sequence the listed positions. List elements are
         \* compared by type and spelling: only a string names a key, only an integer a position. The result is a new value.
         \* pick of a scalar is an error; omit of a scalar gives the context back as it was.
         LET A == Ev(e.r, s) IN
         IF ~Ok(A) THEN A
         ELSE LET lst == IF A.ctx = <<>> THEN Null ELSE ValOf(A.doc, A.ctx[1])
                  ks == IF lst.k = "seq" THEN lst.e ELSE <<>>
                  s1 == [s EXCEPT !.doc = A.doc]
                  isKey(x, k) == x.k = "str" /\ x.s = k
                  isIdx(x, n) == x.k = "num" /\ x.int /\ x.n = n IN
              IF lst.k = "map" /\ lst.m # <<>> THEN Fail(s, "unspec")                                   \* a map as the list: keys and values alike
              ELSE IF \E i \in DOMAIN ks : ks[i].k = "num" /\ ~ks[i].int THEN Fail(s, "unspec")         \* floats are compared by spelling
              ELSE IF e.op = "OMIT" /\ (ks = <<>> \/ \E i \in DOMAIN s1.ctx : IsScalar(ValOf(s1.doc, s1.ctx[i]))) THEN s1
              ELSE PerNode(s1, LAMBDA acc, c :
                LET v == ValOf(acc.doc, c) IN
                IF IsScalar(v) THEN Fail(acc, "err")
                ELSE IF v.k = "map" THEN
                     IF e.op = "PICK"
                     THEN LET present == SelectSeq(ks, LAMBDA x : x.k = "str" /\ HasKey(v, x.s)) IN
                          IF \E i, j \in DOMAIN present : i # j /\ present[i].s = present[j].s THEN Fail(acc, "unspec")    \* a key listed twice
                          ELSE Emit(acc, <<Det(MapV([i \in DOMAIN present |-> <<present[i].s, MapGet(v, present[i].s)>>]))>>)
                     ELSE Emit(acc, <<Det(MapV(SelectSeq(v.m, LAMBDA kv : ~\E i \in DOMAIN ks : isKey(ks[i], kv[1]))))>>)
                ELSE IF e.op = "PICK"
                     THEN IF \E i \in DOMAIN ks : ks[i].k = "str" /\ ks[i].s # <<>> /\ \A j \in DOMAIN ks[i].s : IsDigitAtom(ks[i].s[j]) THEN Fail(acc, "unspec")   \* "1" read as a number
                          ELSE IF \E i \in DOMAIN ks : ~(ks[i].k = "num") THEN Fail(acc, "err")
                          ELSE LET inr == SelectSeq(ks, LAMBDA x : x.n >= 0 /\ x.n < Len(v.e)) IN Emit(acc, <<Det(SeqV([i \in DOMAIN inr |-> v.e[inr[i].n + 1]]))>>)
                     ELSE LET keep == SelectSeq(Upto(Len(v.e)), LAMBDA i : ~\E j \in DOMAIN ks : isIdx(ks[j], i - 1)) IN Emit(acc, <<Det(SeqV([i \in DOMAIN keep |-> v.e[keep[i]]]))>>))
    [] e.op = "SORT_KEYS" ->
         \* sort_keys(sel): every map that sel selects gets its entries sorted by key IN PLACE (the operator is used with -i);
         \* inside a read-only position that is an edit the documentation does not rule on
         IF s.ro THEN Fail(s, "unspec") ELSE
         LET Sel == Ev(e.r, RO(s)) IN IF ~Ok(Sel) THEN Sel ELSE
         IF \E i \in DOMAIN Sel.ctx : ~Sel.ctx[i].in THEN Fail(s, "unspec")
         ELSE LET sortMap(m) == MapV(SortSeq(m.m, LAMBDA x, y : StrCmp(x[1], y[1]) < 0))
                  doc2 == FoldLeft(LAMBDA d, it : IF Exists(d, it.p) /\ Get(d, it.p).k = "map" THEN Replace(d, it.p, sortMap(Get(d, it.p))) ELSE d, Sel.doc, Sel.ctx)
              IN [s EXCEPT !.doc = doc2]
    [] e.op \in {"MIN", "MAX"} ->
         \* the smallest / largest element of a sequence (or of the values of a map) of numbers or of strings
         PerNode(s, LAMBDA acc, c :
            LET v == ValOf(acc.doc, c)
                xs == IF v.k = "seq" THEN v.e ELSE IF v.k = "map" THEN [i \in DOMAIN v.m |-> v.m[i][2]] ELSE <<>> IN
            IF IsScalar(v) THEN Fail(acc, "unspec")
            ELSE IF xs = <<>> THEN acc
            ELSE IF ~((\A i \in DOMAIN xs : xs[i].k = "num") \/ (\A i \in DOMAIN xs : xs[i].k = "str")) THEN Fail(acc, "unspec")
            ELSE LET cmp(a, b) == IF a.k = "num" THEN NumCmp(a, b) ELSE StrCmp(a.s, b.s)
                     best == CHOOSE i \in DOMAIN xs : \A j \in DOMAIN xs : (IF e.op = "MIN" THEN cmp(xs[i], xs[j]) <= 0 ELSE cmp(xs[i], xs[j]) >= 0) /\ (cmp(xs[i], xs[j]) = 0 => i <= j)
                 IN IF \E j \in DOMAIN xs : cmp(xs[best], xs[j]) = 0 /\ ~VEq(xs[best], xs[j]) THEN Fail(acc, "unspec")      \* 1 and 1.0
                    ELSE Emit(acc, <<Det(xs[best])>>))
    [] e.op = "ERROR" -> IF s.ctx = <<>> THEN Fail(s, "unspec") ELSE Fail(s, "err")
    [] e.op = "CHANGE_CASE" ->
         \* upcase / downcase: strings only, letter by letter
         IF \E i \in DOMAIN s.ctx : ValOf(s.doc, s.ctx[i]).k # "str" THEN Fail(s, "err")
         ELSE IF \E i \in DOMAIN s.ctx : \E j \in DOMAIN ValOf(s.doc, s.ctx[i]).s : ValOf(s.doc, s.ctx[i]).s[j] = "U+E9" THEN Fail(s, "unspec")   \* case mapping beyond ASCII is Unicode's business
         ELSE [s EXCEPT !.ctx = [i \in DOMAIN s.ctx |-> LET v == ValOf(s.doc, s.ctx[i]) IN
                 Det(StrV([j \in DOMAIN v.s |-> IF e.upper THEN UpperAtom(v.s[j]) ELSE LowerAtom(v.s[j])]))]]
    [] e.op = "TRIM" ->
         \* trim: strings only; leading and trailing blanks go
         IF \E i \in DOMAIN s.ctx : ValOf(s.doc, s.ctx[i]).k # "str" THEN Fail(s, "err")
         ELSE [s EXCEPT !.ctx = [i \in DOMAIN s.ctx |-> Det(StrV(TrimAtoms(ValOf(s.doc, s.ctx[i]).s)))]]
    [] e.op = "IS_KEY" ->
         \* a node of the document reached as a value is not a key; the keys yielded by `...` and `key` are; any other
         \* detached value does not say whether it was a key
         IF \E i \in DOMAIN s.ctx : ~s.ctx[i].in /\ ~IsKeyItem(s.ctx[i]) THEN Fail(s, "unspec")
         ELSE [s EXCEPT !.ctx = [i \in DOMAIN s.ctx |-> Det(BoolV(IsKeyItem(s.ctx[i])))]]
    [] e.op \in {"GET_DOCUMENT_INDEX", "GET_FILE_INDEX"} ->
         \* one document of one file is evaluated here (Stream.tla has several): position 0
         IF \E i \in DOMAIN s.ctx : ~s.ctx[i].in THEN Fail(s, "unspec")
         ELSE [s EXCEPT !.ctx = [i \in DOMAIN s.ctx |-> Det(IntV(0))]]
    [] e.op = "GET_ANCHOR" -> [s EXCEPT !.ctx = [i \in DOMAIN s.ctx |-> Det(StrV(<<>>))]]    \* values of the JSON model carry no anchors
    [] e.op = "ENV" ->
         \* env(name): the variable's text read as a YAML scalar; strenv(name): the text itself; ONE result whatever the context
         LET I == {i \in DOMAIN EnvTable : EnvTable[i].name = e.name} IN
         IF e.str THEN [s EXCEPT !.ctx = <<Det(StrV(IF I = {} THEN <<>> ELSE EnvTable[CHOOSE i \in I : TRUE].text))>>]
         ELSE IF I = {} THEN Fail(s, "err")
         ELSE [s EXCEPT !.ctx = <<Det(EnvTable[CHOOSE i \in I : TRUE].val)>>]
    [] e.op = "WITH" ->
         \* with(path; update): the path is evaluated on the whole context IN THE CALLER'S MODE (what it addresses is
         \* created, exactly as on the left of an assignment); the update is then run on every addressed node in turn, its
         \* results are dropped and the context is handed back
         LET L == Ev(e.l, s) IN IF ~Ok(L) THEN L ELSE
         IF \E i \in DOMAIN L.ctx : ~L.ctx[i].in THEN Fail(s, "unspec")                     \* an update of a value that is not in the document
         ELSE LET done == FoldLeft(LAMBDA acc, c : IF ~Ok(acc) THEN acc
                                     ELSE IF ~Exists(acc.doc, c.p) THEN Fail(acc, "unspec")  \* an earlier update removed the node
                                     ELSE LET U == Ev(e.r, [s EXCEPT !.doc = acc.doc, !.ctx = <<c>>]) IN
                                          IF ~Ok(U) THEN U ELSE [acc EXCEPT !.doc = U.doc],
                                   [s EXCEPT !.doc = L.doc], L.ctx)
              IN IF ~Ok(done) THEN done ELSE [s EXCEPT !.doc = done.doc]
    [] e.op = "SET_PATH" ->
         \* setpath(p; v): p is evaluated once, read-only, on the whole context and must give ONE path; for every context
         \* node v is evaluated read-only on it and must give ONE value, which is assigned at the path below the node
         LET P == Ev(e.l, RO(s)) IN IF ~Ok(P) THEN P ELSE
         IF Len(P.ctx) # 1 THEN Fail(s, "err")
         ELSE LET pv == ValOf(P.doc, P.ctx[1]) IN
              IF pv.k # "seq" THEN Fail(s, "err") ELSE IF ~IsPathValue(pv) THEN Fail(s, "unspec")
              ELSE LET done == FoldLeft(LAMBDA acc, c : IF ~Ok(acc) THEN acc ELSE
                                 LET Vv == Ev(e.r, RO([s EXCEPT !.doc = acc.doc, !.ctx = <<c>>])) IN
                                 IF ~Ok(Vv) THEN Vv ELSE IF Len(Vv.ctx) # 1 THEN Fail(acc, "err")
                                 \* the value is handed to the assignment BY REFERENCE: where it is a node of the document, it is read after the
                                 \* path has been created (`setpath(["a"]; .)` on {} gives {a: {a: null}}, exactly as `.a = .` does)
                                 ELSE LET w == Ev([op |-> "ASSIGN", l |-> PathToExpr(pv), r |-> EVar("__setpath"), update |-> FALSE],
                                                  [s EXCEPT !.doc = Vv.doc, !.ctx = <<c>>, !.env = EnvSet(s.env, "__setpath", <<Vv.ctx[1]>>)]) IN
                                      IF ~Ok(w) THEN w ELSE [acc EXCEPT !.doc = w.doc],
                               [s EXCEPT !.doc = P.doc], s.ctx)
                   IN IF ~Ok(done) THEN done ELSE IF \E i \in DOMAIN s.ctx : ~s.ctx[i].in THEN Fail(s, "unspec") ELSE [s EXCEPT !.doc = done.doc]
    [] e.op = "DEL_PATHS" ->
         \* delpaths(ps): ps must give ONE sequence of paths; they are deleted one after the other (del(path))
         LET P == Ev(e.r, RO(s)) IN IF ~Ok(P) THEN P ELSE
         IF Len(P.ctx) # 1 THEN Fail(s, "err")
         ELSE LET pv == ValOf(P.doc, P.ctx[1]) IN
              IF pv.k # "seq" THEN Fail(s, "err")
              ELSE IF ~P.ctx[1].in /\ e.r.op \notin {"COLLECT", "VALUE"} THEN Fail(s, "unspec")      \* the operator asks for the tag !!seq, which built containers need not carry
              ELSE IF \E i \in DOMAIN pv.e : pv.e[i].k # "seq" THEN Fail(s, "err")
              ELSE IF \E i \in DOMAIN pv.e : ~IsPathValue(pv.e[i]) \/ pv.e[i].e = <<>> THEN Fail(s, "unspec")
              ELSE FoldLeft(LAMBDA acc, x : IF ~Ok(acc) THEN acc ELSE Ev([op |-> "DELETE_CHILD", r |-> PathToExpr(x)], acc), [s EXCEPT !.doc = P.doc], pv.e)
    [] OTHER -> Fail(s, "unspec")

Run(e, doc) == Ev(e, St(doc, <<InDoc(<<>>)>>, FALSE))
RunTog(e, doc) == Ev(e, [St(doc, <<InDoc(<<>>)>>, FALSE) EXCEPT !.tog = TRUE])
Results(r) == Vals(r)
=============================================================================
