------------------------------ MODULE Gen_Cli ------------------------------
(* C19 - every configuration of the command-layer machine (layout x failure kind x position x -e x truth class) with the
   outcome the machine defines, and the format auto-detection decision table. *)
EXTENDS Cli, Json
Layouts == { <<1>>, <<2>>, <<1, 1>>, <<2, 1>>, <<1, 2>> }     \* documents per file
Sum(s) == IF Len(s) = 1 THEN s[1] ELSE s[1] + s[2]
Configs == { [ndocs |-> Sum(l), layout |-> l, fail |-> [kind |-> fk, at |-> at], e |-> e, truth |-> t] :
               l \in Layouts, fk \in FailKinds, at \in 1..3, e \in BOOLEAN, t \in Truths }
Valid(c) == c.fail.at <= c.ndocs /\ (c.fail.kind \in {"none", "parse", "sink"} => c.fail.at = 1)
GInit == \E c \in {x \in Configs : Valid(x)} : Start(c)
Emit == stage = "done" => PrintT("@@" \o ToJson([t |-> "run", cfg |-> cfg, exit |-> exit, stderr |-> stderr, printed |-> printed]))

Exts == KnownExt \cup {"txt", "none"}
Flags == {"auto", "yaml", "json", "xml", "props", "csv", "tsv", "lua"}
ASSUME \A e \in Exts, p \in Flags, o \in Flags :
          PrintT("@@" \o ToJson([t |-> "fmt", ext |-> e, p |-> p, o |-> o, in |-> FormatFor(e, p, o).in, out |-> FormatFor(e, p, o).out]))
ASSUME \A f \in OutFormats, sh \in Shapes : PrintT("@@" \o ToJson([t |-> "shape", fmt |-> f, shape |-> sh, mustfail |-> MustFail(f, sh)]))
=============================================================================
