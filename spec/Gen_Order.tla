----------------------------- MODULE Gen_Order -----------------------------
(* C15 - vectors for the order machine: every sequence up to MaxLen over an abstract scalar domain (no number/string
   mix: that relative order is free, see Trace_Order) with the stable-sort permutation, min/max where defined, the
   comparison table, long sequences with few distinct keys (stability), sort_keys; and the laws on the model. *)
EXTENDS Order, Json
CONSTANT MaxLen
A == <<"a">>  AB == <<"a", "b">>  B == <<"b">>
D == << Null, BoolV(FALSE), BoolV(TRUE), IntV(-1), IntV(1), NumV(1, 1), IntV(2), NumV(3, 2), IntV(10), StrV(<<>>), StrV(A), StrV(AB), StrV(B) >>
Mixed(s) == (\E i \in DOMAIN s : D[s[i]].k = "num") /\ (\E i \in DOMAIN s : D[s[i]].k = "str")
RECURSIVE Seqs(_,_)
Seqs(pre, n) == IF n = 0 THEN {pre} ELSE {pre} \cup UNION { Seqs(Append(pre, j), n - 1) : j \in DOMAIN D }
Vals(s) == [i \in DOMAIN s |-> D[s[i]]]
\* stable-sort permutation of positions
Perm(vs) == LET pairs == [i \in DOMAIN vs |-> <<vs[i], i>>]
                sorted == SortBy(pairs, LAMBDA p : p[1], Leq)
            IN [i \in DOMAIN sorted |-> sorted[i][2]]
SameKind(vs) == vs # <<>> /\ ((\A i \in DOMAIN vs : vs[i].k = "num") \/ (\A i \in DOMAIN vs : vs[i].k = "str"))
FirstIdx(vs, x) == CHOOSE i \in DOMAIN vs : vs[i] = x /\ \A j \in 1..(i - 1) : vs[j] # x
\* nulls among numbers (or among strings): null is the smallest value of the order, so min is the first null and max ignores them
NonNull(vs) == SelectSeq(vs, LAMBDA v : v.k # "null")
WithNulls(vs) == (\E i \in DOMAIN vs : vs[i].k = "null") /\ SameKind(NonNull(vs))
Row(s) == LET vs == Vals(s) IN
  [t |-> "seq", s |-> s, perm |-> Perm(vs), mm |-> SameKind(vs),
   min |-> IF SameKind(vs) THEN FirstIdx(vs, MinOf(vs)) ELSE 0, max |-> IF SameKind(vs) THEN FirstIdx(vs, MaxOf(vs)) ELSE 0,
   nn |-> WithNulls(vs),
   minn |-> IF WithNulls(vs) THEN FirstIdx(vs, D[1]) ELSE 0, maxn |-> IF WithNulls(vs) THEN FirstIdx(vs, MaxOf(NonNull(vs))) ELSE 0]
\* long inputs: few distinct keys, position-dependent pattern (Go's sort switches algorithm above 12 elements)
Long(n, m, c) == [i \in 1..n |-> ((i * i + c * i) % m) + 4]       \* indices 4.. of D: the numbers -1,1,1.0,2,...
LongRows == { [t |-> "long", s |-> Long(n, m, c), perm |-> Perm(Vals(Long(n, m, c)))] : n \in {13, 14, 21, 40}, m \in {2, 3, 5}, c \in {0, 1, 3} }
CmpRows == { [t |-> "cmp", a |-> i, b |-> j, lt |-> CompareOp(FALSE, FALSE, D[i], D[j]), le |-> CompareOp(FALSE, TRUE, D[i], D[j]),
              gt |-> CompareOp(TRUE, FALSE, D[i], D[j]), ge |-> CompareOp(TRUE, TRUE, D[i], D[j])] : i \in DOMAIN D, j \in DOMAIN D }
KeyDocs == << MapV(<< <<B, IntV(1)>>, <<A, MapV(<< <<B, Null>>, <<AB, IntV(2)>>, <<A, SeqV(<<MapV(<< <<B, IntV(1)>>, <<A, IntV(2)>> >>)>>)>> >>)>>, <<AB, StrV(A)>> >>),
             MapV(<< <<A, IntV(1)>>, <<B, IntV(2)>> >>), MapV(<<>>), SeqV(<<MapV(<< <<B, IntV(1)>>, <<A, IntV(2)>> >>), IntV(1)>>) >>

ASSUME \A i \in DOMAIN D : PrintT("@@" \o ToJson([t |-> "dom", i |-> i, v |-> D[i]]))
ASSUME \A r \in CmpRows : PrintT("@@" \o ToJson(r))
ASSUME \A r \in LongRows : PrintT("@@" \o ToJson(r))
ASSUME \A i \in DOMAIN KeyDocs : PrintT("@@" \o ToJson([t |-> "keys", d |-> KeyDocs[i], sorted |-> SortKeysDeep(KeyDocs[i])]))

VARIABLES first, done
Init == first \in 0..Len(D) /\ done = FALSE
Mine == IF first = 0 THEN {<<>>} ELSE {s \in Seqs(<<first>>, MaxLen - 1) : ~Mixed(s)}
Next == /\ ~done /\ done' = TRUE /\ first' = first
        /\ \A s \in Mine : PrintT("@@" \o ToJson(Row(s)))

\* ---- laws on the model (the reference order is a total preorder; sort is an ordered, stable, idempotent permutation)
TotalPreorder == \A i, j, k \in DOMAIN D :
   /\ Leq(D[i], D[i]) /\ (Leq(D[i], D[j]) \/ Leq(D[j], D[i]))
   /\ (Leq(D[i], D[j]) /\ Leq(D[j], D[k]) => Leq(D[i], D[k]))
   /\ Cmp(D[i], D[j]) = 0 - Cmp(D[j], D[i])
SortLaws == \A s \in Mine : LET vs == Vals(s)  t == Sort(vs)  p == Perm(vs) IN
   /\ Ordered(t) /\ Sort(t) = t /\ t = [i \in DOMAIN p |-> vs[p[i]]]
   /\ (\A i, j \in DOMAIN p : i < j /\ Cmp(vs[p[i]], vs[p[j]]) = 0 => p[i] < p[j])          \* stable
   /\ (\A i \in DOMAIN vs : \E j \in DOMAIN p : p[j] = i) /\ Len(p) = Len(vs)                \* permutation
OperatorsAgree == \A i, j \in DOMAIN D : LET a == D[i]  b == D[j] IN
   CompareOp(FALSE, FALSE, a, b) \in {"true", "false"} /\ a.k = b.k /\ a.k # "null" =>
      /\ (CompareOp(FALSE, FALSE, a, b) = "true" <=> Cmp(a, b) < 0) /\ (CompareOp(FALSE, TRUE, a, b) = "true" <=> Cmp(a, b) <= 0)
      /\ (CompareOp(TRUE, FALSE, a, b) = "true" <=> Cmp(a, b) > 0) /\ (CompareOp(TRUE, TRUE, a, b) = "true" <=> Cmp(a, b) >= 0)
=============================================================================
