--------------------------- MODULE Trace_ShQuote ---------------------------
(* Trace validation for C17: recorded (input, real output) pairs of `@sh` and `-o=shell` are judged by the shell
   reader automaton of ShQuote.tla (NOT by comparing with the specification's own encoder: a different but still
   safe quoting is not a violation).  Lines: {"kind":"sh","s":[..],"out":[..]}  |
   {"kind":"var","key":[..],"root":bool,"ascii":bool,"full":[..],"name":[..],"value":[..],"line":[..]} (full: whole NAME, name: its last segment).  Prints BAD <index> <reason>. *)
EXTENDS ShQuote, Json
Pairs == ndJsonDeserialize("shquote_pairs.ndjson")
CONSTANT Chunk
VARIABLES c, done
NChunks == (Len(Pairs) + Chunk - 1) \div Chunk
Init == c \in 1..NChunks /\ done = FALSE
Next == ~done /\ done' = TRUE /\ c' = c
Verdict(p) ==
  IF p.kind = "sh" THEN (IF Safe(p.s, p.out) THEN "ok" ELSE "unsafe-word")
  ELSE IF ~ValidName(p.full) THEN "invalid-name"
  ELSE IF ~SafeAssignment(p.full, p.value, p.line) THEN "unsafe-assignment"
  ELSE IF p.ascii /\ p.name # VarName(p.key, p.root) THEN "name-differs-from-documented-normalisation"
  ELSE "ok"
Judge == \A i \in ((c - 1) * Chunk + 1)..(IF c * Chunk < Len(Pairs) THEN c * Chunk ELSE Len(Pairs)) :
            Verdict(Pairs[i]) = "ok" \/ PrintT(<<"BAD", i, Verdict(Pairs[i])>>)
=============================================================================
