------------------------------ MODULE Gen_Json ------------------------------
(* C06 - the document space of the YAML <-> JSON conversion and the laws of the text machines.
   Structures: slots in sequences / maps of width <= 2 nested to depth 2, plus one more level of width 1 (345 shapes);
   cases: every shape x every slot x every leaf class (the other slots hold a default), every map shape x every key
   position x every key class.  The harness concretises a class by a pool of spellings (rotated by case number and
   seed) - the spec judges the outcome from the SPELLING (Trace_Json.tla), so the pools carry no expected values.
   Laws (invariants): WriterReaderLaw  JsonParse(JsonEnc(v)) = v on every case with representative contents,
                      ResolveLaw       YamlResolve agrees with the hand classification of ResolveTable,
                      ReaderRejects    the reader rejects the standard ill-formed texts. *)
EXTENDS JsonText, JsonTables, Json

LeafClasses == << "null", "bool", "int", "bigint", "hexoct", "float", "expfloat", "oddfloat", "str", "emptystr", "ctrl", "quote", "unicode", "nonbmp",
                  "html", "lookalike", "multiline", "inf", "nan" >>
KeyClasses == << "plain", "digits", "empty", "special", "unicode", "lookalike" >>
Slot == [k |-> "slot"]
SeqS(e) == [k |-> "seq", e |-> e]
MapS(m) == [k |-> "map", m |-> m]          \* m: sequence of structures; keys are assigned per case
S0 == {Slot}
Wide(S) == {Slot, SeqS(<<>>), MapS(<<>>)} \cup {SeqS(<<a>>) : a \in S} \cup {SeqS(<<a, b>>) : a \in S, b \in S}
             \cup {MapS(<<a>>) : a \in S} \cup {MapS(<<a, b>>) : a \in S, b \in S}
S1 == Wide(S0)
S2 == Wide(S1)
S3 == S2 \cup {SeqS(<<a>>) : a \in S2} \cup {MapS(<<a>>) : a \in S2}
Shapes == SetToSeq(S3)   \* TLC enumerates a set in its canonical order

RECURSIVE NSlots(_), NKeys(_)
NSlots(s) == IF s.k = "slot" THEN 1 ELSE IF s.k = "seq" THEN FoldLeft(LAMBDA acc, x : acc + NSlots(x), 0, s.e) ELSE FoldLeft(LAMBDA acc, x : acc + NSlots(x), 0, s.m)
NKeys(s) == IF s.k = "slot" THEN 0 ELSE IF s.k = "seq" THEN FoldLeft(LAMBDA acc, x : acc + NKeys(x), 0, s.e) ELSE FoldLeft(LAMBDA acc, x : acc + 1 + NKeys(x), 0, s.m)

\* fill: slot number p gets class c (others "int" / "str" alternating), key number q gets key class kc (others "plain")
RECURSIVE Fill(_,_,_,_,_,_,_)
\* returns [v, ns, nk]: filled structure, slots and keys consumed so far
Fill(s, p, c, q, kc, ns, nk) ==
  IF s.k = "slot" THEN [v |-> [k |-> "leaf", c |-> IF ns + 1 = p THEN c ELSE IF ns % 2 = 0 THEN "int" ELSE "str"], ns |-> ns + 1, nk |-> nk]
  ELSE IF s.k = "seq"
  THEN LET r == FoldLeft(LAMBDA acc, x : LET f == Fill(x, p, c, q, kc, acc.ns, acc.nk) IN [e |-> Append(acc.e, f.v), ns |-> f.ns, nk |-> f.nk], [e |-> <<>>, ns |-> ns, nk |-> nk], s.e)
       IN [v |-> [k |-> "seq", e |-> r.e], ns |-> r.ns, nk |-> r.nk]
  ELSE LET r == FoldLeft(LAMBDA acc, x : LET f == Fill(x, p, c, q, kc, acc.ns, acc.nk + 1) IN
                            [m |-> Append(acc.m, [key |-> IF acc.nk + 1 = q THEN kc ELSE "plain", n |-> Len(acc.m) + 1, v |-> f.v]), ns |-> f.ns, nk |-> f.nk],
                         [m |-> <<>>, ns |-> ns, nk |-> nk], s.m)
       IN [v |-> [k |-> "map", m |-> r.m], ns |-> r.ns, nk |-> r.nk]
CasesOf(s) == { Fill(s, p, LeafClasses[c], 0, "plain", 0, 0).v : p \in 1..NSlots(s), c \in DOMAIN LeafClasses }
                \cup { Fill(s, 0, "int", q, KeyClasses[kc], 0, 0).v : q \in 1..NKeys(s), kc \in DOMAIN KeyClasses }
                \cup { Fill(s, 0, "int", 0, "plain", 0, 0).v }

\* ---- representative contents for the in-model law
RepLeaf(c, n) ==
  CASE c = "null" -> JNull [] c = "bool" -> JBool(n % 2 = 0)
    [] c \in {"int", "hexoct"} -> Dec(n % 2 = 1, <<4, 2>>, 0)
    [] c = "bigint" -> Dec(FALSE, <<9, 0, 0, 7, 1, 9, 9, 2, 5, 4, 7, 4, 0, 9, 9, 3>>, 0)
    [] c \in {"float", "oddfloat"} -> Dec(FALSE, <<1, 5>>, -1)
    [] c = "expfloat" -> Dec(TRUE, <<6, 0, 2>>, 21)
    [] c \in {"inf", "nan"} -> JNull
    [] OTHER -> JStr(StrReps[(n % Len(StrReps)) + 1])
RECURSIVE Rep(_,_)
Rep(f, n) == IF f.k = "leaf" THEN RepLeaf(f.c, n)
             ELSE IF f.k = "seq" THEN JSeq([i \in DOMAIN f.e |-> Rep(f.e[i], n + i)])
             ELSE JMap([i \in DOMAIN f.m |-> <<StrReps[((n + i) % Len(StrReps)) + 1], Rep(f.m[i].v, n + 3 * i)>>])

\* 16 lanes walk the shapes in parallel (invariants of initial states are evaluated sequentially, so no shape is initial)
CONSTANT Lanes
VARIABLES si
Init == si \in (1 - Lanes)..0
Next == /\ si + Lanes <= Len(Shapes) /\ si' = si + Lanes
        /\ \A f \in CasesOf(Shapes[si']) : PrintT("@@" \o ToJson([shape |-> si', f |-> f]))

WriterReaderLaw == si >= 1 => \A f \in CasesOf(Shapes[si]) : \A n \in 0..3 :
                      LET v == Rep(f, n) IN JsonParse(JsonEnc(v)) = [ok |-> TRUE, v |-> v]
StringLaw == si = 1 => \A i \in DOMAIN StrReps : JsonParse(EncStr(StrReps[i])) = [ok |-> TRUE, v |-> JStr(StrReps[i])]
ResolveLaw == si = 1 => \A i \in DOMAIN ResolveTable : LET r == YamlResolve(ResolveTable[i][1]) IN
                      (IF r.k = "num" THEN "num" ELSE r.k) = ResolveTable[i][2]
Bad(w) == ~JsonParse(w).ok
ReaderRejects == si = 1 =>
   /\ Bad(<<>>) /\ Bad(<<91, 49, 44, 93>>) /\ Bad(<<123, 34, 97, 34, 58, 49, 44, 125>>) /\ Bad(<<48, 49>>) /\ Bad(<<49, 46>>) /\ Bad(<<46, 53>>) /\ Bad(<<43, 49>>)
   /\ Bad(<<34, 10, 34>>) /\ Bad(<<34, 92, 120, 34>>) /\ Bad(<<34, 92, 117, 100, 56, 51, 100, 34>>) /\ Bad(<<34, 97>>) /\ Bad(<<49, 32, 50>>) /\ Bad(<<39, 97, 39>>)
   /\ Bad(<<123, 97, 58, 49, 125>>) /\ Bad(<<78, 97, 78>>) /\ Bad(<<91, 49, 32, 50, 93>>) /\ Bad(<<49, 101>>) /\ Bad(<<45>>) /\ Bad(<<116, 114, 117>>)
   /\ JsonParse(<<32, 91, 49, 44, 32, 34, 92, 117, 100, 56, 51, 100, 92, 117, 100, 101, 48, 48, 34, 93, 10>>) = [ok |-> TRUE, v |-> JSeq(<<Dec(FALSE, <<1>>, 0), JStr(<<128512>>)>>)]
   /\ JsonParse(<<45, 48, 46, 48>>).v = Dec(FALSE, <<>>, 0) /\ JsonParse(<<49, 46, 53, 48, 69, 43, 50>>).v = Dec(FALSE, <<1, 5>>, 1)
   /\ YamlResolve(<<48, 120, 49, 70>>) = Dec(FALSE, <<3, 1>>, 0) /\ YamlResolve(<<48, 111, 55, 55, 55>>) = Dec(FALSE, <<5, 1, 1>>, 0)
   /\ YamlResolve(<<48, 120, 55, 70, 70, 70, 70, 70, 70, 70, 70, 70, 70, 70, 70, 70, 70, 70>>) = YamlResolve(<<57, 50, 50, 51, 51, 55, 50, 48, 51, 54, 56, 53, 52, 55, 55, 53, 56, 48, 55>>)
=============================================================================
