----------------------------- MODULE Gen_Codecs -----------------------------
(* C14 - the case tables of the codecs and the laws of the readers / writers of Codecs.tla.
   Every case has a number; the harness runs the yq binary on the case's input and Trace_Codecs.tla judges the recorded
   output against the case.  Directions: "E" yq encodes (JSON in, format out; judged by the format's reader),
   "D" yq decodes (the specification's text in, JSON out; judged by JsonParse against the denoted value),
   "R" the in-expression pair (value | encode | decode) must give the value back. *)
EXTENDS Codecs, Json

RECURSIVE Level(_,_)
Level(alpha, n) == IF n = 0 THEN << <<>> >> ELSE LET prev == Level(alpha, n - 1) IN FlattenSeq([i \in DOMAIN prev |-> [j \in DOMAIN alpha |-> Append(prev[i], alpha[j])]])
UpTo(alpha, n) == FlattenSeq([k \in 1..(n + 1) |-> Level(alpha, k - 1)])

Utf8(c) == IF c < 128 THEN <<c>> ELSE IF c < 2048 THEN <<192 + (c \div 64), 128 + (c % 64)>>
           ELSE IF c < 65536 THEN <<224 + (c \div 4096), 128 + ((c \div 64) % 64), 128 + (c % 64)>>
           ELSE <<240 + (c \div 262144), 128 + ((c \div 4096) % 64), 128 + ((c \div 64) % 64), 128 + (c % 64)>>
Bytes(s) == FlattenSeq([i \in DOMAIN s |-> Utf8(s[i])])

\* ---- strings per format
ByteAlpha == <<97, 10, 233, 8364, 128512, 43, 47, 61, 32, 37, 38, 63, 126, 1>>
ByteStrs == UpTo(<<97, 233, 128512, 43, 32, 37>>, 2) \o [i \in DOMAIN ByteAlpha |-> <<ByteAlpha[i]>>] \o [i \in DOMAIN ByteAlpha |-> <<97, ByteAlpha[i], 98>>]
            \o << <<97, 98, 99>>, <<97, 98, 99, 100>>, <<97, 98, 99, 100, 101>>, <<8364, 8364, 8364>>, <<126, 126, 126, 63, 63, 63>> >>
CsvAlpha == <<97, 44, 9, 34, 10, 32, 59, 233, 45, 35>>
CsvFields == SelectSeq(UpTo(CsvAlpha, 2), LAMBDA f : TRUE) \o << <<34, 97, 34>>, <<97, 34, 34, 98>>, <<97, 10, 98, 10>>, <<44, 44, 44>>, <<97, 13, 10, 98>>, <<39, 97, 39>> >>
PropKeyAlpha == <<97, 32, 61, 58, 35, 33, 92, 233, 45, 42, 63>>      \* (`*` and `?` are characters of a key, not wildcards)
PropValAlpha == <<97, 32, 61, 58, 35, 33, 92, 10, 9, 233, 36, 123>>      \* (`${` in a value is text, not a reference to expand)
PropKeys == SelectSeq(UpTo(PropKeyAlpha, 2), LAMBDA k : k # <<>>)
PropVals == UpTo(PropValAlpha, 2) \o << <<97, 32, 32, 98>>, <<92, 110>>, <<92, 117, 48, 48, 52, 49>>, <<32, 32, 97>>, <<97, 32, 32>>,
                                        <<36, 123, 107, 49, 125>>, <<36, 123, 97, 125>>, <<36, 123, 125>> >>      \* ${k1} (the entry's own key), ${a}, ${}
XmlAlpha == <<97, 60, 62, 38, 34, 39, 233, 93>>
XmlTexts == SelectSeq(UpTo(XmlAlpha, 2), LAMBDA t : t # <<>>) \o << <<97, 32, 98>>, <<38, 97, 109, 112, 59>>, <<93, 93, 62>>, <<60, 33, 45, 45>> >>
LuaAlpha == <<97, 34, 92, 10, 9, 1, 233, 93, 39, 127, 48>>
LuaStrs == UpTo(LuaAlpha, 2) \o << <<1, 48>>, <<92, 110>>, <<0, 97>>, <<27, 91>>, <<13, 10>> >>

K1 == <<107, 49>>  K2 == <<107, 50>>  A == <<97>>
IntDigitsOf(n) == [i \in DOMAIN IntDigits(n) |-> IntDigits(n)[i] - 48]
Num(n) == Dec(n < 0, IntDigitsOf(IF n < 0 THEN -n ELSE n), 0)
Flt == Dec(FALSE, <<1, 5>>, -1)
\* ---- case tables (sequences, so that numbering is fixed)
B64Cases == [i \in DOMAIN ByteStrs |-> [s |-> ByteStrs[i]]]
UriCases == B64Cases
\* tables: one object with one field; one object with two fields (the probe first / second); two rows; scalar rows
CsvTables == [i \in DOMAIN CsvFields |-> [hdr |-> <<K1>>, rows |-> << <<CsvFields[i]>> >>, obj |-> TRUE]]
             \o [i \in DOMAIN CsvFields |-> [hdr |-> <<K1, K2>>, rows |-> << <<CsvFields[i], A>>, <<A, CsvFields[i]>> >>, obj |-> TRUE]]
             \o [i \in DOMAIN CsvFields |-> [hdr |-> <<>>, rows |-> << <<CsvFields[i], A>>, <<A, CsvFields[i]>> >>, obj |-> FALSE]]
             \o [i \in DOMAIN CsvFields |-> [hdr |-> <<CsvFields[i], K2>>, rows |-> << <<A, A>> >>, obj |-> TRUE]]         \* the probe as a header
PropCases == [i \in DOMAIN PropVals |-> << <<K1, PropVals[i]>> >>] \o [i \in DOMAIN PropKeys |-> << <<PropKeys[i], A>>, <<K2, A>> >>]
             \o [i \in DOMAIN PropVals |-> << <<K1, A>>, <<K2, PropVals[i]>> >>]
             \o [i \in DOMAIN PropKeys |-> << <<K1, A>>, <<K2, A>>, <<PropKeys[i], <<98>>>> >>]                 \* the probe key AFTER other keys: it names one entry of its own
R == <<114>>  NA == <<97>>  NB == <<98>>  NID == <<105, 100>>
Leaf(n, t) == Elem(n, <<>>, <<>>, t)
XmlTrees == [i \in DOMAIN XmlTexts |-> Leaf(R, XmlTexts[i])]
            \o [i \in DOMAIN XmlTexts |-> Elem(R, << <<NID, XmlTexts[i]>> >>, <<>>, <<>>)]
            \o [i \in DOMAIN XmlTexts |-> Elem(R, << <<NID, A>> >>, <<>>, XmlTexts[i])]
            \o [i \in DOMAIN XmlTexts |-> Elem(R, <<>>, <<Leaf(NA, XmlTexts[i]), Leaf(NB, A)>>, <<>>)]
            \o [i \in DOMAIN XmlTexts |-> Elem(R, <<>>, <<Leaf(NA, XmlTexts[i]), Leaf(NA, A), Leaf(NB, A)>>, <<>>)]                      \* repeated children
            \o [i \in DOMAIN XmlTexts |-> Elem(R, <<>>, <<Leaf(NA, XmlTexts[i]), Leaf(NB, A), Leaf(NA, A)>>, <<>>)]                      \* repeated children that are not neighbours
            \o << Elem(R, <<>>, <<Leaf(NA, A), Leaf(NB, A), Leaf(NA, <<>>), Leaf(NB, A), Leaf(NA, A)>>, <<>>),
                  Elem(R, <<>>, <<Elem(NA, <<>>, <<Leaf(NB, A), Leaf(NA, A), Leaf(NB, <<>>)>>, <<>>), Leaf(NB, A), Elem(NA, << <<NID, A>> >>, <<>>, <<>>)>>, <<>>) >>
            \o [i \in DOMAIN XmlTexts |-> Elem(R, << <<NID, A>> >>, <<Elem(NA, << <<NID, XmlTexts[i]>> >>, <<Leaf(NB, XmlTexts[i])>>, <<>>), Leaf(NB, <<>>)>>, <<>>)]
LuaValues == [i \in DOMAIN LuaStrs |-> JMap(<< <<K1, JStr(LuaStrs[i])>> >>)]
             \o [i \in DOMAIN LuaStrs |-> JMap(<< <<LuaStrs[i], Num(1)>>, <<K2, JSeq(<<JStr(LuaStrs[i]), Num(-2), Flt, JBool(TRUE)>>)>> >>)]
             \o << JSeq(<<Num(1), JStr(A), JBool(FALSE)>>), JMap(<< <<K1, JMap(<< <<K2, JSeq(<<JSeq(<<Num(0)>>), JMap(<< <<A, JStr(A)>> >>)>>)>> >>)>> >>),
                   JMap(<< <<<<97, 110, 100>>, Num(1)>>, <<<<51>>, JStr(A)>>, <<<<107, 45, 50>>, Flt>>, <<<<>>, Num(7)>> >>), JSeq(<<>>), JMap(<< <<K1, JSeq(<<>>)>> >>) >>
TomlStrs == UpTo(<<97, 34, 92, 10, 9, 233, 39, 35>>, 2)
TomlValues == [i \in DOMAIN TomlStrs |-> JMap(<< <<K1, JStr(TomlStrs[i])>>, <<K2, Num(3)>> >>)]
              \o [i \in DOMAIN TomlStrs |-> JMap(<< <<A, Num(1)>>, <<K1, JMap(<< <<K2, JStr(TomlStrs[i])>>, <<<<115, 117, 98>>, JMap(<< <<A, JBool(TRUE)>> >>)>> >>)>>, <<<<122>>, JSeq(<<Num(1), Num(2)>>)>> >>)]
              \o << JMap(<< <<K1, JSeq(<<JMap(<< <<A, Num(1)>> >>), JMap(<< <<A, Num(2)>>, <<<<98>>, JStr(A)>> >>)>>)>>, <<K2, Flt>> >>),
                    JMap(<< <<<<97, 32, 98>>, Num(1)>>, <<<<>>, Num(2)>>, <<<<46>>, JStr(<<46>>)>> >>),
                    JMap(<< <<K1, JMap(<< <<K2, JMap(<< <<A, JSeq(<<JStr(A), JStr(<<98>>)>>)>> >>)>> >>)>>, <<<<116>>, JSeq(<<JMap(<< <<K1, JMap(<< <<A, Num(1)>> >>)>> >>)>>)>> >>),
                    JMap(<< <<<<116, 121, 112, 101>>, JMap(<< <<<<110, 97, 109, 101>>, JStr(A)>> >>)>>, <<K1, JMap(<< <<K2, JMap(<< <<A, Num(1)>> >>)>>, <<<<98>>, Num(2)>> >>)>>,
                            <<<<122>>, JSeq(<<JMap(<< <<K1, JMap(<< <<K2, JStr(A)>> >>)>>, <<A, Num(3)>> >>)>>)>> >>),
                    JMap(<< <<K1, JSeq(<<JMap(<< <<<<121>>, JMap(<< <<<<122>>, Num(2)>>, <<<<119>>, Num(3)>> >>)>>, <<A, Num(1)>> >>)>>)>>,
                            <<K2, JMap(<< <<<<121>>, JMap(<< <<<<122>>, JStr(A)>>, <<<<119>>, JMap(<< <<A, Num(1)>>, <<<<98>>, Num(2)>> >>)>> >>)>> >>)>> >>),
                    JMap(<< <<K1, Num(-17)>>, <<K2, Dec(FALSE, <<6, 0, 2>>, 21)>>, <<A, JSeq(<<JSeq(<<Num(1)>>), JSeq(<<JStr(A)>>)>>)>> >>),
                    \* keys that hold `*` / `?` after keys they would match as patterns: they are characters
                    JMap(<< <<K1, Num(1)>>, <<<<107, 42>>, Num(2)>>, <<K2, Num(3)>>, <<<<107, 63>>, Num(4)>> >>),
                    JMap(<< <<K1, JMap(<< <<A, Num(1)>>, <<<<42>>, Num(2)>> >>)>>, <<<<42>>, JMap(<< <<A, Num(3)>> >>)>> >>) >>

\* ---- laws of the text machines (checked per lane so that TLC works in parallel)
\* csv2 / props2 / xml2 / xml3 / lua2: the same case tables under other format preferences (separator `;`, separator `:`,
\* attribute prefix `+` with content name +content, attribute prefix `@` with content name @text, unquoted Lua keys)
Formats == <<"b64", "uri", "csv", "tsv", "props", "xml", "lua", "toml", "csv2", "props2", "xml2", "xml3", "lua2">>
Base(f) == CASE f = "csv2" -> "csv" [] f = "props2" -> "props" [] f \in {"xml2", "xml3"} -> "xml" [] f = "lua2" -> "lua" [] OTHER -> f
AttrPrefix(f) == IF f = "xml2" THEN <<43>> ELSE IF f = "xml3" THEN <<64>> ELSE <<43, 64>>
ContentName(f) == IF f = "xml3" THEN <<64, 116, 101, 120, 116>> ELSE ContentKey
XmlJ(f, e) == XmlDocP(e, AttrPrefix(f), ContentName(f))
NCases(g) == LET f == Base(g) IN CASE f = "b64" -> Len(B64Cases) [] f = "uri" -> Len(UriCases) [] f \in {"csv", "tsv"} -> Len(CsvTables) [] f = "props" -> Len(PropCases)
               [] f = "xml" -> Len(XmlTrees) [] f = "lua" -> Len(LuaValues) [] f = "toml" -> Len(TomlValues)
Sep(f) == IF f = "tsv" THEN 9 ELSE IF f = "csv2" THEN 59 ELSE 44
AllRows(c) == (IF c.obj THEN <<c.hdr>> ELSE <<>>) \o c.rows
CsvAsJson(c) == IF c.obj THEN JSeq([r \in DOMAIN c.rows |-> JMap([j \in DOMAIN c.hdr |-> <<c.hdr[j], JStr(c.rows[r][j])>>])])
                ELSE JSeq([r \in DOMAIN c.rows |-> JSeq([j \in DOMAIN c.rows[r] |-> JStr(c.rows[r][j])])])
\* what a cell denotes when yq reads it (scalars are typed as in YAML, the empty cell is null): strings stay strings
CellValue(f) == IF f = <<>> THEN JNull ELSE LET r == YamlResolve(f) IN IF r.k \in {"str", "inf", "nan"} THEN JStr(f) ELSE r
\* the reader always takes the first row for the header: rows of scalars come back as objects keyed by the first row
CsvDecoded(c) == LET hdr == IF c.obj THEN c.hdr ELSE c.rows[1]  rows == IF c.obj THEN c.rows ELSE Tail(c.rows) IN
                 JSeq([r \in DOMAIN rows |-> JMap([j \in DOMAIN hdr |-> <<hdr[j], CellValue(rows[r][j])>>])])
PropsAsJson(kvs) == JMap([i \in DOMAIN kvs |-> <<kvs[i][1], JStr(kvs[i][2])>>])
Law(g, i) == LET f == Base(g) IN
  CASE f = "b64"   -> B64Read(B64Write(Bytes(B64Cases[i].s))) = [ok |-> TRUE, b |-> Bytes(B64Cases[i].s)]
    [] f = "uri"   -> UriRead(UriWrite(Bytes(UriCases[i].s))) = [ok |-> TRUE, b |-> Bytes(UriCases[i].s)] /\ UriClean(UriWrite(Bytes(UriCases[i].s)))
    [] f \in {"csv", "tsv"} -> CsvRead(CsvWrite(AllRows(CsvTables[i]), Sep(g)), Sep(g)) = [ok |-> TRUE, rows |-> AllRows(CsvTables[i])]
    [] f = "props" -> PropsRead(PropsWrite(PropCases[i])) = PropCases[i]
    [] f = "xml"   -> XmlRead(XmlWrite(XmlTrees[i])) = [ok |-> TRUE, e |-> XmlTrees[i]]
    [] f = "lua"   -> LuaRead(LuaWrite(LuaValues[i])) = [ok |-> TRUE, v |-> LuaValues[i]]
    [] f = "toml"  -> TRUE
Rejects == /\ ~B64Read(<<97, 98, 99>>).ok /\ ~B64Read(<<97, 61, 98, 99>>).ok /\ ~B64Read(<<97, 98, 61, 61, 97, 98, 99, 100>>).ok /\ ~B64Read(<<33, 97, 98, 99>>).ok
           /\ ~UriRead(<<37, 52>>).ok /\ ~UriRead(<<37, 71, 71>>).ok /\ ~UriClean(<<97, 32>>)
           /\ ~CsvRead(<<97, 34, 98, 10>>, 44).ok /\ ~CsvRead(<<34, 97, 10>>, 44).ok /\ ~CsvRead(<<34, 97, 34, 98, 10>>, 44).ok
           /\ ~XmlRead(<<60, 97, 62, 60, 47, 98, 62>>).ok /\ ~XmlRead(<<60, 97, 62, 38, 60, 47, 97, 62>>).ok /\ ~XmlRead(<<60, 97, 32, 120, 61, 49, 47, 62>>).ok
           /\ ~LuaRead(<<114, 101, 116, 117, 114, 110, 32, 123, 34, 97, 125>>).ok /\ ~LuaRead(<<123, 125>>).ok
           /\ LuaRead(<<114, 101, 116, 117, 114, 110, 32, 123, 120, 32, 61, 32, 34, 92, 49, 48, 34, 44, 32, 91, 34, 121, 34, 93, 61, 123, 49, 44, 50, 125, 125>>)
                = [ok |-> TRUE, v |-> JMap(<< <<<<120>>, JStr(<<10>>)>>, <<<<121>>, JSeq(<<Num(1), Num(2)>>)>> >>)]

\* the string that makes the case special (for fingerprints)
Probe(g, i) == LET f == Base(g) IN
  CASE f \in {"b64", "uri"} -> B64Cases[i].s
    [] f \in {"csv", "tsv"} -> CsvFields[((i - 1) % Len(CsvFields)) + 1]
    [] f = "props" -> IF i <= Len(PropVals) THEN PropVals[i] ELSE IF i <= Len(PropVals) + Len(PropKeys) THEN PropKeys[i - Len(PropVals)]
                      ELSE IF i <= 2 * Len(PropVals) + Len(PropKeys) THEN PropVals[i - Len(PropVals) - Len(PropKeys)] ELSE PropKeys[i - 2 * Len(PropVals) - Len(PropKeys)]
    [] f = "xml" -> XmlTexts[((i - 1) % Len(XmlTexts)) + 1]
    [] f = "lua" -> IF i <= 2 * Len(LuaStrs) THEN LuaStrs[((i - 1) % Len(LuaStrs)) + 1] ELSE <<>>
    [] f = "toml" -> IF i <= 2 * Len(TomlStrs) THEN TomlStrs[((i - 1) % Len(TomlStrs)) + 1] ELSE <<>>
\* ---- what the harness runs: per case the input text (code points) of each direction
CaseOut(g, i) == LET f == Base(g) IN
  CASE f = "b64"   -> [f |-> f, i |-> i, json |-> JsonEnc(JStr(B64Cases[i].s)), text |-> B64Write(Bytes(B64Cases[i].s)), alt |-> <<>>]
    [] f = "uri"   -> [f |-> f, i |-> i, json |-> JsonEnc(JStr(UriCases[i].s)), text |-> UriWrite(Bytes(UriCases[i].s)), alt |-> <<>>]
    [] f \in {"csv", "tsv"} -> [f |-> g, i |-> i, json |-> JsonEnc(CsvAsJson(CsvTables[i])), text |-> CsvWrite(AllRows(CsvTables[i]), Sep(g)), alt |-> <<>>]
    [] f = "props" -> [f |-> g, i |-> i, json |-> JsonEnc(PropsAsJson(PropCases[i])), text |-> PropsWrite(PropCases[i]), alt |-> <<>>]
    [] f = "xml"   -> [f |-> g, i |-> i, json |-> JsonEnc(XmlJ(g, XmlTrees[i])), text |-> XmlWrite(XmlTrees[i]), alt |-> <<>>]
    [] f = "lua"   -> [f |-> g, i |-> i, json |-> JsonEnc(LuaValues[i]), text |-> LuaWrite(LuaValues[i]), alt |-> <<>>]
    [] f = "toml"  -> [f |-> f, i |-> i, json |-> <<>>, text |-> TomlWrite(TomlValues[i], 1), alt |-> TomlWrite(TomlValues[i], 2), alt3 |-> TomlWrite(TomlValues[i], 3), alt4 |-> TomlWrite(TomlValues[i], 4)]

CONSTANT Lanes
Jobs == FlattenSeq([k \in DOMAIN Formats |-> [i \in 1..NCases(Formats[k]) |-> <<Formats[k], i>>]])
VARIABLE ji
Init == ji \in (1 - Lanes)..0
Next == /\ ji + Lanes <= Len(Jobs) /\ ji' = ji + Lanes
        /\ PrintT("@@" \o ToJson(CaseOut(Jobs[ji'][1], Jobs[ji'][2]) @@ [probe |-> Probe(Jobs[ji'][1], Jobs[ji'][2])]))
CodecLaws == ji >= 1 => Law(Jobs[ji][1], Jobs[ji][2])
RejectLaw == ji = 1 => Rejects
=============================================================================
