-------------------------------- MODULE Docs --------------------------------
(* A systematic document space shared by the thorough tiers of the generators over the evaluator machine (C02, C03,
   C16): every map over two keys and every sequence up to length 2 over a small value set, nested once. *)
EXTENDS Values
DA == <<"a">>  DB == <<"b">>  DC == <<"c">>
DSmall == << Null, IntV(2), StrV(DA), BoolV(FALSE) >>
DInner == << IntV(1), Null, StrV(DB), SeqV(<<IntV(2), StrV(DA)>>), SeqV(<<>>), MapV(<< <<DA, IntV(2)>> >>), MapV(<< <<DB, Null>>, <<DC, IntV(0)>> >>), MapV(<<>>),
             SeqV(<<MapV(<< <<DA, IntV(1)>> >>), MapV(<< <<DA, IntV(2)>>, <<DB, IntV(0)>> >>)>>), SeqV(<<IntV(3), IntV(1), IntV(2)>>) >>
DMapsOver(V) == [i \in DOMAIN V |-> MapV(<< <<DA, V[i]>> >>)] \o [i \in DOMAIN V |-> MapV(<< <<DB, V[i]>>, <<DA, V[1]>> >>)]
                \o FlatMap(LAMBDA x : [j \in DOMAIN V |-> MapV(<< <<DA, x>>, <<DB, V[j]>> >>)], V)
                \o [i \in DOMAIN V |-> MapV(<< <<DA, V[i]>>, <<DB, V[((i) % Len(V)) + 1]>>, <<DC, V[((i + 1) % Len(V)) + 1]>> >>)]
DSeqsOver(V) == [i \in DOMAIN V |-> SeqV(<<V[i]>>)] \o FlatMap(LAMBDA x : [j \in DOMAIN V |-> SeqV(<<x, V[j]>>)], V)
                \o [i \in DOMAIN V |-> SeqV(<<V[i], V[((i) % Len(V)) + 1], V[((i + 1) % Len(V)) + 1]>>)]
MoreDocs == DMapsOver(DSmall) \o DSeqsOver(DSmall) \o DMapsOver(DInner) \o DSeqsOver(DInner)
=============================================================================
