#!/usr/bin/env python3
# Regenerates chapter 0 of DESIGN.md from tools/asbuilt.md + evidence/*.json + known_findings.json + seeded/MATRIX.md
import json,glob,os,re
V='/verif'
tpl=open(f'{V}/tools/asbuilt.md').read()
kf=json.load(open(f'{V}/known_findings.json'))
rows=["| property | commit | what failed | found by |","|---|---|---|---|"]
for x in kf['fixed']:
    rows.append("| %s | %s | %s | %s |"%(x['property'],x['commit'],x['what'].replace("|","\\|").replace("\n"," "),x.get('found_by','').replace("|","\\|")))
fixed="\n".join(rows)
rows=["| property | id | what | reproduce |","|---|---|---|---|"]
for x in kf['findings']:
    rows.append("| %s | %s | %s | `%s` |"%(x['property'],x['id'],x['what'].replace("|","\\|").replace("\n"," "),x.get('repro','').replace("|","\\|").replace("`","'")))
findings="\n".join(rows)
matrix=open(f'{V}/seeded/MATRIX.md').read() if os.path.exists(f'{V}/seeded/MATRIX.md') else "(run tools/mutmatrix.sh)"
rows=["| check | level | tier | wall s | TLC states | cases executed on the real code | known findings hit |","|---|---|---|---|---|---|---|"]
for p in sorted(glob.glob(f'{V}/evidence/C*.json')):
    d=json.load(open(p)); c=d.get('coverage',{})
    n=c.get('traces_validated_against_impl', c.get('evaluations',''))
    rows.append("| %s | %s | %s | %s | %s | %s | %s |"%(d['property_id'],d['level'],d['tier'],d.get('wall_s',''),c.get('states',''),n,", ".join(sorted(c.get('known_findings_hit',{}).keys())) if isinstance(c.get('known_findings_hit'),dict) else ''))
numbers="\n".join(rows)
nseeded=len(glob.glob(f"{V}/seeded/C*-m*"))
out=tpl.replace("@@NSEEDED@@",str(nseeded)).replace("@@FIXED@@",fixed).replace("@@FINDINGS@@",findings).replace("@@MATRIX@@",matrix).replace("@@NUMBERS@@",numbers)
d=open(f'{V}/DESIGN.md').read()
a=d.find("## 0. As built")
b=d.find("## 1. What is being built")
if a<0:
    a=b
d=d[:a]+out+"\n---------------------------------------------------------------------------\n\n"+d[b:]
open(f'{V}/DESIGN.md','w').write(d)
print("DESIGN.md chapter 0 regenerated")
