#!/bin/bash
# usage: mutverify.sh <ID> <k>   -- confirm seeded change m<k> of /tmp/mut/<ID>/out in the scratch worktree /tmp/mut/<ID>/wt,
# then store it as /verif/seeded/<ID>-m<k>/ {patch.diff, demo.sh, meta.json}
set -u
export GOFLAGS=-mod=mod GOPROXY=off GOSUMDB=off GOTOOLCHAIN=local
ID=$1; K=$2; D=${MUTBASE:-/tmp/mut}/$ID; WT=$D/wt; O=$D/out
cd $WT || exit 2
git checkout -q -- . && git clean -fdq
P=$O/m$K.patch.diff; DEMO=$O/m$K.demo.sh
[ -f $P ] || { echo "no patch $P"; exit 2; }
[ -f $DEMO ] || DEMO=$(ls $O/m$K*demo*.sh 2>/dev/null | head -1)
echo "== pristine demo"; bash $DEMO $WT >/tmp/mv.$$.log 2>&1; PR=$?; tail -2 /tmp/mv.$$.log
git apply $P || { echo "APPLY FAILED"; exit 2; }
echo "== build+tests on changed tree"
go build ./... && go test -vet=off -count=1 ./... 2>&1 | tail -4; TR=${PIPESTATUS[0]}
echo "== changed demo"; bash $DEMO $WT >/tmp/mv.$$.log 2>&1; CR=$?; tail -3 /tmp/mv.$$.log
git checkout -q -- . && git clean -fdq
rm -f /tmp/mv.$$.log
echo "RESULT $ID m$K pristine_demo_rc=$PR tests_rc=$TR changed_demo_rc=$CR"
if [ $PR = 0 ] && [ $TR = 0 ] && [ $CR != 0 ]; then
  S=/verif/seeded/$ID-m${MUTNUM:-$K}; mkdir -p $S
  cp $P $S/patch.diff; cp $DEMO $S/demo.sh
  python3 - <<PY
import json
m=json.load(open("$O/m$K.meta.json"))
m["confirmed"]={"pristine_demo_rc":$PR,"suite_rc_with_change":$TR,"changed_demo_rc":$CR,"ran":"tools/mutverify.sh $ID $K [round ${MUTBASE:-/tmp/mut}] (git apply in scratch worktree; go build ./...; go test -vet=off -count=1 ./...; demo on changed and pristine tree)"}
json.dump(m,open("$S/meta.json","w"),indent=1)
PY
  echo "KEPT $S"
else
  echo "REJECTED"
fi
