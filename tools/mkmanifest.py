#!/usr/bin/env python3
"""Regenerates /verif/MANIFEST.json from the table below (kept here so that the manifest stays valid and consistent)."""
import json
props=[json.loads(l) for l in open('/verif/properties.jsonl')]
MC="model_checking"; EX="exploration"
claimed={
 "C01":(MC,"TLC evaluates the reference semantics (spec/Eval.tla, one rule per operator handler) on an exhaustively enumerated bounded grammar x document space, in sequence and eval-all mode; every vector is replayed on the real yqlib and status, ordered result list and the document afterwards are compared",
        "trusted: TLC, the alpha/gamma projections of the harness, yq's JSON decoder; bounds: grammar depth 2 (3 in thorough), 3-letter string alphabet, small dyadic numbers; regions the documentation leaves open are executed but not compared (counted in evidence)",
        "TLA+ reference evaluator (Eval.tla) + TLC vector generation + replay into yqlib"),
 "C08":(MC,"TLC checks on the reference evaluator that an assignment-free expression never edits the document (invariant RefReadOnly over every operator in every operand position x vivification-prone documents); every generated expression is replayed on yqlib and the document (and the nodes select passes) must be unchanged; a YAML pool with anchors/aliases/styles is compared by full node snapshot",
        "trusted: TLC, harness projections; the operand-position grammar is bounded (one operator per position, read paths of length <= 2)",
        "TLA+ invariant RefReadOnly on Eval.tla + TLC-generated expression vectors replayed into yqlib with before/after document comparison"),
 "C09":(MC,"TLC checks the parser specification (post-processing, shunting-yard, tree construction) against a declarative precedence reference (PairLaw, ParenLaw, RejectLaw, ArityLaw) and prints every token sequence of the template families over the full token table plus ALL sequences up to length 4 (5 thorough) over a reduced alphabet; each is rendered in 5 layouts and the real ExpressionParser's verdict and tree are compared; the frozen token table is compared with the lexer",
        "trusted: TLC, the layout printer's abutting rules (conservative), the frozen token table spec/ParserTable.tla generated once from the pinned tree",
        "TLA+ parser specification + TLC (laws + exhaustive short sequences) + replay through ExpressionParser in several layouts"),
}
try:
    exec(open('/verif/tools/manifest_more.py').read())
except FileNotFoundError:
    pass
man={
 "version":1,
 "setup_cmd":"cd /verif && ./check build",
 "hooks":{"guard":"verif (Go build tag)","enable":"go build -tags verif (the harness module /verif/harness replaces github.com/mikefarah/yq/v4 by /repo and is built with -tags verif; the yq binary used by binary-level checks is built WITHOUT the tag)",
          "baseline_off_cmd":"cd /repo && GOFLAGS=-mod=mod GOPROXY=off GOSUMDB=off GOTOOLCHAIN=local go test -vet=off -count=1 ./...",
          "source_commits":["5b85822","81b9303","74a3ad4"],"add_only":True},
 "engines":[{"name":"verif","path":"/verif/check","serves_properties":sorted(claimed),"kind_free_text":"explicit TLA+ specification (/verif/spec) checked with TLC; Go conformance harness (/verif/harness) replays TLC-generated vectors/behaviours into yqlib or the yq binary and validates recorded traces with TLC"}],
 "checks":[],
 "notes":"See DESIGN.md. Every check: ./check <ID> quick|thorough; exit 0 held, 1 VIOLATION, 2 machinery problem. Fix commits in /repo are listed in known_findings.json (fixed).",
 "not_applicable":[]
}
for p in props:
    i=p['id']
    if i in claimed:
        lvl,text,note,tech=claimed[i]
        man['checks'].append({"property_id":i,"quick_cmd":f"./check {i} quick","thorough_cmd":f"./check {i} thorough","evidence_file":f"/verif/evidence/{i}.json","replay_cmd_template":"./check replay {path}","engine":"verif","level_claimed":{"category":lvl,"text":text,"design_ref":f"DESIGN.md section 6, {i}"},"level_note":note,"technique":tech})
    else:
        man['not_applicable'].append({"property_id":i,"reason":"check not built yet in this round (planned with the same technique, see DESIGN.md section 6)"})
json.dump(man,open('/verif/MANIFEST.json','w'),indent=1)
print("claimed:",sorted(claimed))
