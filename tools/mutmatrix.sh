#!/bin/bash
# runs every seeded change against the check of its property (quick tier) and writes seeded/MATRIX.md
cd /verif
OUT=seeded/MATRIX.md
echo "| seeded change | check | result | first alarm |" > $OUT.tmp
echo "|---|---|---|---|" >> $OUT.tmp
for d in $(ls -d seeded/C*-m* | sort -V); do
  n=$(basename $d); id=${n%%-*}
  extra=""
  if grep -q '"superseded"' $d/meta.json 2>/dev/null; then extra="superseded (see meta.json)"; fi
  if grep -q '"out_of_scope"' $d/meta.json 2>/dev/null; then extra="out of scope (see meta.json)"; fi
  res=$(tools/muttest.sh $n $id quick 2>&1)
  rc=$(echo "$res" | grep -a "MUTTEST" | sed 's/.*rc=//')
  if echo "$res" | grep -aq "APPLY FAILED"; then rc="patch does not apply"; fi
  first=$(echo "$res" | grep -a "violation:" | head -1 | sed 's/.*violation: //; s/ -- .*//' | cut -c1-90)
  case "$rc" in 1) r="caught";; 0) r="no alarm";; *) r="$rc";; esac
  echo "| $n | $id | $r $extra | $first |" >> $OUT.tmp
  echo "$n $r $first"
done
mv $OUT.tmp $OUT
