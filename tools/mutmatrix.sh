#!/bin/bash
# runs seeded changes against the check of their property (quick tier) and writes / updates seeded/MATRIX.md
# usage: mutmatrix.sh            all seeded changes
#        mutmatrix.sh C04-m4 ... only these (their lines are replaced in the existing matrix)
cd /verif
OUT=seeded/MATRIX.md
if [ $# -gt 0 ]; then LIST="$@"; else LIST=$(ls -d seeded/C*-m* | sort -V | xargs -n1 basename); fi
[ -f $OUT ] || { echo "| seeded change | check | result | first alarm |" > $OUT; echo "|---|---|---|---|" >> $OUT; }
for n in $LIST; do
  d=seeded/$n; id=${n%%-*}
  extra=""
  if grep -q '"superseded"' $d/meta.json 2>/dev/null; then extra="superseded (see meta.json)"; fi
  res=$(tools/muttest.sh $n $id quick 2>&1)
  rc=$(echo "$res" | grep -a "MUTTEST" | sed 's/.*rc=//')
  if echo "$res" | grep -aq "APPLY FAILED"; then rc="patch does not apply"; fi
  first=$(echo "$res" | grep -a "violation:" | head -1 | sed 's/.*violation: //; s/ -- .*//' | cut -c1-90 | tr '|' '/')
  case "$rc" in 1) r="caught";; 0) r="no alarm";; *) r="$rc";; esac
  grep -v "^| $n |" $OUT > $OUT.tmp; mv $OUT.tmp $OUT
  echo "| $n | $id | $r $extra | $first |" >> $OUT
  echo "$n $r $first"
done
(head -2 $OUT; tail -n +3 $OUT | sort -V) > $OUT.tmp && mv $OUT.tmp $OUT
