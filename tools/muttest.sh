#!/bin/bash
# usage: muttest.sh <seeded-dir-name> [ID] [tier]  -- apply a seeded change to /repo, run the check, undo it straight afterwards
set -u
S=/verif/seeded/$1; ID=${2:-${1%%-*}}; TIER=${3:-quick}
cd /repo && git status --porcelain | grep -q . && { echo "/repo dirty"; exit 2; }
cp /verif/evidence/$ID.json /verif/out/evidence.$ID.bak 2>/dev/null
git -C /repo apply $S/patch.diff || { echo "APPLY FAILED"; exit 2; }
cd /verif && ./check $ID $TIER > /verif/out/muttest.$1.$ID.log 2>&1; RC=$?
git -C /repo checkout -- . ; git -C /repo clean -fdq
cp /verif/out/evidence.$ID.bak /verif/evidence/$ID.json 2>/dev/null
grep -E "VIOLATION|MACHINERY|KNOWN-FINDING|violation:" /verif/out/muttest.$1.$ID.log | head -8
echo "MUTTEST $1 check=$ID tier=$TIER rc=$RC"
